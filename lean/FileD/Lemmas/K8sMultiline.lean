/- helper lemmas for C15 (k8s MultilineAction model vs line spec) -/
import FileD.Model.K8sMultiline
import FileD.Spec.C15K8s
namespace FileD.K8s
open FileD FileD.SpecC15K8s
open FileD.Join (Res)

/-! ### the end-of-line test: index loop = declarative test on the content -/

theorem idx_ok {α} (l : List α) (i : Nat) (h : i < l.length) :
    GoSlice.idx? l (i : Int) = .ok l[i] := by
  simp [GoSlice.idx?, h]

theorem take_succ_drop_one {α} (l : List α) (i : Nat) (h : i + 1 < l.length) :
    (l.take (i + 2)).drop 1 = (l.take (i + 1)).drop 1 ++ [l[i + 1]] := by
  rw [List.take_succ_eq_append_getElem h, List.drop_append_of_le_length]
  simp; omega

theorem slashesBefore_eq (frag : Bytes) (i : Nat) (h : i < frag.length) :
    slashesBefore frag i =
      .ok (((frag.take (i + 1)).drop 1).reverse.takeWhile (· == BSLASH)).length := by
  induction i with
  | zero =>
    simp only [slashesBefore]
    cases frag with
    | nil => simp at h
    | cons a as => simp
  | succ i ih =>
    have h' : i < frag.length := by omega
    simp only [slashesBefore, idx_ok frag (i + 1) h, ih h']
    rw [take_succ_drop_one frag i h]
    by_cases hb : frag[i + 1] = BSLASH
    · simp [hb, List.takeWhile]
    · simp [hb, List.takeWhile]

theorem inner_eq_take (frag : Bytes) : inner frag = (frag.drop 1).take (frag.length - 2) := by
  simp only [inner, List.dropLast_eq_take, List.length_drop]
  congr 1

theorem endsWithNewLine_eq (frag : Bytes) : endsWithNewLine frag = .ok (endsLine frag) := by
  unfold endsWithNewLine endsLine
  by_cases hl : frag.length < 4
  · simp only [hl, ↓reduceIte]
    -- the content has at most one byte
    have hi : (inner frag).length ≤ 1 := by rw [inner_eq_take]; simp; omega
    unfold contentEndsLine
    match hr : (inner frag).reverse with
    | [] => rfl
    | [c] => simp
    | c :: d :: rest =>
      have : (inner frag).reverse.length = (c :: d :: rest).length := by rw [hr]
      simp at this; omega
  · simp only [hl, ↓reduceIte]
    have h4 : 4 ≤ frag.length := by omega
    have h2 : frag.length - 2 < frag.length := by omega
    rw [idx_ok frag (frag.length - 2) h2]
    have h3 : frag.length - 3 < frag.length := by omega
    rw [slashesBefore_eq frag (frag.length - 3) h3]
    have e1 : frag.length - 3 + 1 = frag.length - 2 := by omega
    rw [e1]
    -- the content reversed: its last byte, then the reversed rest
    have hinner : (inner frag).reverse =
        frag[frag.length - 2] :: ((frag.take (frag.length - 2)).drop 1).reverse := by
      rw [inner_eq_take]
      have : (frag.drop 1).take (frag.length - 2) =
          (frag.take (frag.length - 2)).drop 1 ++ [frag[frag.length - 2]] := by
        have hx := take_succ_drop_one frag (frag.length - 3) (by omega)
        have e2 : frag.length - 3 + 2 = frag.length - 1 := by omega
        have e3 : frag.length - 3 + 1 = frag.length - 2 := by omega
        simp only [e2, e3] at hx
        rw [← hx, List.drop_take]
        congr 1
      rw [this]; simp
    unfold contentEndsLine
    rw [hinner]
    by_cases hn : frag[frag.length - 2] = LOWER_N
    · simp [hn]
    · simp [hn]


/-! ### slicing a quoted fragment -/

theorem quoted_length {frag : Bytes} (hq : Quoted frag) : frag.length = (inner frag).length + 2 := by
  have := congrArg List.length hq
  simp [quote] at this
  omega

theorem slice_part {frag : Bytes} (hq : Quoted frag) (k : Nat) (hk : k ≤ (inner frag).length) :
    GoSlice.slice? frag 1 ((1 + k : Nat) : Int) = .ok ((inner frag).take k) := by
  have hl := quoted_length hq
  have hcond : (0 : Int) ≤ 1 ∧ (1 : Int) ≤ ((1 + k : Nat) : Int) ∧ ((1 + k : Nat) : Int) ≤ (frag.length : Int) := by
    refine ⟨by omega, by omega, by omega⟩
  simp only [GoSlice.slice?, hcond, and_self, ↓reduceIte]
  have e1 : ((1 + k : Nat) : Int).toNat - (1 : Int).toNat = k := by
    have : ((1 + k : Nat) : Int).toNat = 1 + k := Int.toNat_natCast _
    rw [this]; simp
  have e2 : (1 : Int).toNat = 1 := rfl
  rw [e1, e2]
  have hd : frag.drop 1 = inner frag ++ [QUOTE] := by
    conv => lhs; rw [hq]
    simp [quote]
  rw [hd, List.take_append_of_le_length hk]

theorem slice_inner {frag : Bytes} (hq : Quoted frag) :
    GoSlice.slice? frag 1 ((frag.length : Int) - 1) = .ok (inner frag) := by
  have hl := quoted_length hq
  have : (frag.length : Int) - 1 = ((1 + (inner frag).length : Nat) : Int) := by omega
  rw [this, slice_part hq _ (Nat.le_refl _)]
  simp

theorem reset_ok (st : St) (b : Bytes) (h : st.eventBuf = QUOTE :: b) : resetLogBuf st = .ok St.init := by
  have h1 : (1 : Int) ≤ ((b.length : Int) + 1) := by omega
  simp [resetLogBuf, GoSlice.sliceTo?, GoSlice.slice?, h, St.init, h1]

theorem discardReset_ok (st : St) (b : Bytes) (h : st.eventBuf = QUOTE :: b) :
    discardReset st = .ok (St.init, discard) := by
  simp [discardReset, reset_ok st b h, SpecC15K8s.discard]

/-! ### the simulation relation -/

/-- plugin state ↔ the spec's unfinished line -/
def Rel (cfg : Cfg) (st : St) (ln : Line) : Prop :=
  st.eventSize = ln.size ∧
  (if ln.over then
    st.skipNext = true ∧ st.cutOffEvent = cfg.cutOff ∧
    (if cfg.cutOff then
      st.eventBuf = (QUOTE :: ln.content).take (cfg.maxSize - 2) ∧ st.eventBuf.length = cfg.maxSize - 2 ∧
        cfg.maxSize ≠ 0
     else ∃ b, st.eventBuf = QUOTE :: b)
   else
    st.skipNext = false ∧ st.cutOffEvent = false ∧ st.eventBuf = QUOTE :: ln.content ∧
      (cfg.maxSize ≠ 0 → st.eventBuf.length + 2 ≤ cfg.maxSize))

theorem rel_init (cfg : Cfg) (hl : LimitOK cfg) : Rel cfg St.init Line.empty := by
  refine ⟨rfl, ?_⟩
  simp only [Line.empty, Bool.false_eq_true, ↓reduceIte, St.init, Line.content, List.flatten_nil,
    List.length_cons, List.length_nil, true_and]
  intro h
  rcases hl with h0 | h4
  · exact absurd h0 h
  · omega

theorem rel_buf_head {cfg : Cfg} (hl : LimitOK cfg) {st : St} {ln : Line} (h : Rel cfg st ln) :
    ∃ b, st.eventBuf = QUOTE :: b := by
  obtain ⟨_, h2⟩ := h
  split at h2
  · obtain ⟨_, _, h3⟩ := h2
    split at h3
    · obtain ⟨hb, hlen, hm⟩ := h3
      have h4 : 4 ≤ cfg.maxSize := by
        rcases hl with h0 | h4
        · exact absurd h0 hm
        · exact h4
      refine ⟨ln.content.take (cfg.maxSize - 3), ?_⟩
      rw [hb]
      have : cfg.maxSize - 2 = (cfg.maxSize - 3) + 1 := by omega
      rw [this, List.take_succ_cons]
    · exact h3
  · exact ⟨ln.content, h2.2.2.1⟩


theorem flatten_snoc (l : List Bytes) (x : Bytes) : (l ++ [x]).flatten = l.flatten ++ x := by simp

/-- one chunk: the plugin does what the line spec says and the relation is kept -/
theorem doChunk_sim (cfg : Cfg) (hl : LimitOK cfg) (st : St) (ln : Line) (hr : Rel cfg st ln)
    (e : Ev) (frag : Bytes) (hlog : e.log = .str frag) (hq : Quoted frag) :
    ∃ st', doChunk cfg st e frag = .ok (st', (specStep cfg ln (.ev e)).2) ∧
      Rel cfg st' (specStep cfg ln (.ev e)).1 := by
  obtain ⟨hsz, hr2⟩ := hr
  have hL := quoted_length hq
  obtain ⟨b0, hb0⟩ := rel_buf_head hl ⟨hsz, hr2⟩
  simp only [specStep, hlog]
  simp only [doChunk, endsWithNewLine_eq, hsz]
  generalize decide (((ln.size + e.size + lookahead : Nat) : Int) > cfg.splitSize) = sp
  cases hover : ln.over with
  | true =>
    simp only [hover, ↓reduceIte] at hr2 ⊢
    obtain ⟨hskip, hcutE, hbuf⟩ := hr2
    cases hend : endsLine frag with
    | false =>
      -- still waiting for the end of the oversized line: collapse whatever the branch
      simp only [Bool.not_false, Bool.true_and, Bool.false_eq_true, ↓reduceIte, hskip, Bool.not_true,
        Bool.and_true, Bool.and_self]
      cases hsplit : sp with
      | true =>
        simp only [Bool.not_true, Bool.false_eq_true, ↓reduceIte, collapse]
        refine ⟨_, rfl, rfl, ?_⟩
        simpa [hover, hskip, hcutE, Line.content] using hbuf
      | false =>
        simp only [Bool.not_false, ↓reduceIte]
        cases hcut : cfg.cutOff with
        | true =>
          simp only [hcut, ↓reduceIte] at hbuf
          obtain ⟨hbe, hblen, hm⟩ := hbuf
          have hnoroom : (cfg.maxSize == 0 || decide (st.eventBuf.length + frag.length < cfg.maxSize)) = false := by
            have : ¬ (st.eventBuf.length + frag.length < cfg.maxSize) := by omega
            simp [hm, this]
          simp only [hnoroom, Bool.false_eq_true, ↓reduceIte, collapse]
          refine ⟨_, rfl, rfl, ?_⟩
          have hbl := hblen
          rw [hbe] at hbl
          simpa [hover, hskip, hcutE, hcut, hbe, hm, Line.content] using hbl
        | false =>
          simp only [hcut, Bool.false_eq_true, ↓reduceIte] at hbuf
          obtain ⟨b, hb⟩ := hbuf
          by_cases hroom : (cfg.maxSize == 0 || decide (st.eventBuf.length + frag.length < cfg.maxSize)) = true
          · simp only [hroom, ↓reduceIte, slice_inner hq, collapse]
            refine ⟨_, rfl, rfl, ?_⟩
            simp [hover, hskip, hcutE, hcut, hb]
          · simp only [hroom, Bool.false_eq_true, ↓reduceIte, collapse]
            refine ⟨_, rfl, rfl, ?_⟩
            simp [hover, hskip, hcutE, hcut, hb]
    | true =>
      simp only [Bool.not_true, Bool.false_and, Bool.false_eq_true, ↓reduceIte, hskip, Bool.and_false,
        Bool.true_and]
      cases hcut : cfg.cutOff with
      | false =>
        simp only [hcut, Bool.false_eq_true, ↓reduceIte] at hbuf hcutE ⊢
        obtain ⟨b, hb⟩ := hbuf
        simp only [hcutE, Bool.not_false, ↓reduceIte]
        rw [discardReset_ok _ b (by simpa using hb)]
        exact ⟨_, rfl, rel_init cfg hl⟩
      | true =>
        simp only [hcut, ↓reduceIte] at hbuf hcutE ⊢
        obtain ⟨hbe, hblen, hm⟩ := hbuf
        have h4 : 4 ≤ cfg.maxSize := by
          rcases hl with h0 | h4
          · exact absurd h0 hm
          · exact h4
        simp only [hcutE, Bool.not_true, Bool.false_eq_true, ↓reduceIte, finish]
        have hgt : st.eventBuf.length > 1 := by omega
        simp only [hgt, ↓reduceIte, Bool.not_true, Bool.false_eq_true, Bool.true_and]
        have hbq : st.eventBuf = QUOTE :: ln.content.take (cfg.maxSize - 3) := by
          rw [hbe]
          have : cfg.maxSize - 2 = (cfg.maxSize - 3) + 1 := by omega
          rw [this, List.take_succ_cons]
        rw [reset_ok _ (ln.content.take (cfg.maxSize - 3) ++ [BSLASH, LOWER_N] ++ [QUOTE]) (by simp [hbq])]
        refine ⟨_, ?_, rel_init cfg hl⟩
        simp [hbq, quote]
  | false =>
    simp only [hover, Bool.false_eq_true, ↓reduceIte] at hr2 ⊢
    obtain ⟨hskip, hcutE, hbuf, hinv⟩ := hr2
    cases hfin : (endsLine frag || sp) with
    | true =>
      -- the chunk ends the line (escaped newline, or the size look-ahead says split)
      have hnot : (!endsLine frag && !sp) = false := by
        cases h1 : endsLine frag <;> cases h2 : sp <;> simp [h1, h2] at hfin ⊢
      simp only [hnot, Bool.false_eq_true, ↓reduceIte, hskip, Bool.false_and, finish, hcutE,
        Bool.not_false]
      by_cases hgt : st.eventBuf.length > 1
      · simp only [hgt, ↓reduceIte, slice_inner hq]
        rw [reset_ok _ (ln.content ++ inner frag ++ [QUOTE]) (by simp [hbuf])]
        refine ⟨_, ?_, rel_init cfg hl⟩
        simp [hbuf, quote]
      · simp only [hgt, ↓reduceIte]
        rw [reset_ok _ ln.content (by simp [hbuf])]
        refine ⟨_, ?_, rel_init cfg hl⟩
        have hc : ln.content = [] := by
          have : st.eventBuf.length = 1 + ln.content.length := by rw [hbuf]; simp; omega
          have : ln.content.length = 0 := by omega
          exact List.eq_nil_of_length_eq_zero this
        simp only [hc, List.nil_append]
        rw [← hq]
    | false =>
      have hnot : (!endsLine frag && !sp) = true := by
        cases h1 : endsLine frag <;> cases h2 : sp <;> simp [h1, h2] at hfin ⊢
      simp only [hnot, ↓reduceIte]
      have hblen : st.eventBuf.length = 1 + ln.content.length := by rw [hbuf]; simp; omega
      by_cases hroom : cfg.maxSize = 0 ∨ 1 + ln.content.length + frag.length < cfg.maxSize
      · have hroomB : (cfg.maxSize == 0 || decide (st.eventBuf.length + frag.length < cfg.maxSize)) = true := by
          rcases hroom with h0 | h1
          · simp [h0]
          · have : st.eventBuf.length + frag.length < cfg.maxSize := by omega
            simp [this]
        simp only [hroomB, hroom, ↓reduceIte, slice_inner hq, collapse]
        refine ⟨_, rfl, rfl, ?_⟩
        simp only [Bool.false_eq_true, ↓reduceIte, hskip, hcutE, Line.content, flatten_snoc, true_and]
        refine ⟨by simp [hbuf, Line.content], ?_⟩
        intro hm
        rcases hroom with h0 | h1
        · exact absurd h0 hm
        · simp; omega
      · have hm : cfg.maxSize ≠ 0 := fun h => hroom (Or.inl h)
        have hnr : ¬ (st.eventBuf.length + frag.length < cfg.maxSize) := by
          intro h; exact hroom (Or.inr (by omega))
        have hroomB : (cfg.maxSize == 0 || decide (st.eventBuf.length + frag.length < cfg.maxSize)) = false := by
          simp [hm, hnr]
        simp only [hroomB, hroom, Bool.false_eq_true, ↓reduceIte, hskip, Bool.not_false, collapse]
        cases hcut : cfg.cutOff with
        | false =>
          simp only [Bool.false_eq_true, ↓reduceIte]
          refine ⟨_, rfl, rfl, ?_⟩
          simp [hcut, hcutE, hbuf]
        | true =>
          simp only [↓reduceIte]
          have hinv' := hinv hm
          -- frag[1 : l-1-offset] = the first (max - 2 - len(buf)) content bytes
          have hk : (frag.length : Int) - 1 - (((st.eventBuf.length + frag.length : Nat) : Int) - (cfg.maxSize : Int)) =
              ((1 + (cfg.maxSize - 2 - st.eventBuf.length) : Nat) : Int) := by omega
          have hkle : cfg.maxSize - 2 - st.eventBuf.length ≤ (inner frag).length := by omega
          rw [hk, slice_part hq _ hkle]
          refine ⟨_, rfl, rfl, ?_⟩
          simp only [↓reduceIte, hcut, true_and, Line.content, flatten_snoc]
          have htake : (QUOTE :: (ln.inners.flatten ++ inner frag)).take (cfg.maxSize - 2) =
              st.eventBuf ++ (inner frag).take (cfg.maxSize - 2 - st.eventBuf.length) := by
            have : QUOTE :: (ln.inners.flatten ++ inner frag) = st.eventBuf ++ inner frag := by
              rw [hbuf]; simp [Line.content]
            rw [this, List.take_append]
            have : st.eventBuf.take (cfg.maxSize - 2) = st.eventBuf := List.take_of_length_le (by omega)
            rw [this]
          refine ⟨htake.symm, ?_, hm⟩
          simp [List.length_take]; omega

theorem step_sim (cfg : Cfg) (hl : LimitOK cfg) (st : St) (ln : Line) (hr : Rel cfg st ln) (x : In)
    (hq : ∀ t sz frag, x = .ev ⟨t, sz, .str frag⟩ → Quoted frag) :
    ∃ st', step cfg st x = .ok (st', (specStep cfg ln x).2) ∧ Rel cfg st' (specStep cfg ln x).1 := by
  obtain ⟨b, hb⟩ := rel_buf_head hl hr
  cases x with
  | timeout t =>
    exact ⟨St.init, by simp [step, discardReset_ok st b hb, specStep], by simpa [specStep] using rel_init cfg hl⟩
  | ev e =>
    obtain ⟨t, sz, lg⟩ := e
    cases lg with
    | absent =>
      exact ⟨St.init, by simp [step, doEvent, discardReset_ok st b hb, specStep],
        by simpa [specStep] using rel_init cfg hl⟩
    | nonString =>
      exact ⟨St.init, by simp [step, doEvent, discardReset_ok st b hb, specStep],
        by simpa [specStep] using rel_init cfg hl⟩
    | str frag =>
      have := doChunk_sim cfg hl st ln hr ⟨t, sz, .str frag⟩ frag rfl (hq t sz frag rfl)
      simpa [step, doEvent] using this


theorem quotedItems_cons {x : In} {r : List In} (h : quotedItems (x :: r)) :
    (∀ t sz frag, x = .ev ⟨t, sz, .str frag⟩ → Quoted frag) ∧ quotedItems r := by
  cases x with
  | timeout t => exact ⟨(by intro _ _ _ h'; cases h'), h⟩
  | ev e =>
    obtain ⟨t, sz, lg⟩ := e
    cases lg with
    | absent => exact ⟨(by intro _ _ _ h'; cases h'), h⟩
    | nonString => exact ⟨(by intro _ _ _ h'; cases h'), h⟩
    | str frag =>
      simp only [quotedItems] at h
      refine ⟨?_, h.2⟩
      intro t' sz' frag' h'
      cases h'
      exact h.1

/-- **refinement**: from related states the calls are answered as the line spec says -/
theorem run_sim (cfg : Cfg) (hl : LimitOK cfg) (items : List In) (st : St) (ln : Line)
    (hr : Rel cfg st ln) (hq : quotedItems items) :
    (run cfg st items).outs = specK cfg ln items ∧
    ∃ st', (run cfg st items).fin = .ok st' ∧ Rel cfg st' (finalLine cfg ln items) := by
  induction items generalizing st ln with
  | nil => exact ⟨rfl, st, rfl, hr⟩
  | cons x r ih =>
    obtain ⟨hqx, hqr⟩ := quotedItems_cons hq
    obtain ⟨st', hstep, hr'⟩ := step_sim cfg hl st ln hr x hqx
    obtain ⟨h1, h2⟩ := ih st' _ hr' hqr
    simp only [run, hstep, specK, finalLine]
    exact ⟨by rw [h1], h2⟩

theorem rel_empty_init {cfg : Cfg} {st : St} (h : Rel cfg st Line.empty) : st = St.init := by
  unfold Rel at h
  simp only [Line.empty, Bool.false_eq_true, ↓reduceIte, Line.content, List.flatten_nil] at h
  obtain ⟨h1, h3, h4, h5, _⟩ := h
  cases st with
  | mk a b c d => simp_all [St.init]

/-! ### "keeps every byte" on the spec level -/

theorem contentOut_cons_nonpass (o : Out) (r : List Out) (h : o.res ≠ .pass) :
    contentOut (o :: r) = contentOut r := by
  obtain ⟨res, log, c, ex⟩ := o
  cases res <;> simp_all [contentOut]

theorem inner_quote (c : Bytes) : inner (quote c) = c := by
  simp [inner, quote]

/-- without a size limit, when no unfinished line is abandoned, what came out plus what is
    still buffered is what went in -/
theorem spec_keeps_bytes (cfg : Cfg) (hm : cfg.maxSize = 0) (items : List In) (ln : Line)
    (hov : ln.over = false) (hab : abandons cfg ln items = false) :
    contentOut (specK cfg ln items) ++ (finalLine cfg ln items).content =
      ln.content ++ contentIn items ∧ (finalLine cfg ln items).over = false := by
  induction items generalizing ln with
  | nil => simp [specK, finalLine, contentOut, contentIn, hov]
  | cons x r ih =>
    simp only [abandons, Bool.or_eq_false_iff] at hab
    obtain ⟨hab1, hab2⟩ := hab
    cases x with
    | timeout t =>
      have hemp : ln.inners = [] := by simpa using hab1
      have := ih Line.empty rfl (by simpa [specStep] using hab2)
      simp only [specK, finalLine, specStep, contentIn]
      rw [contentOut_cons_nonpass _ _ (by simp [SpecC15K8s.discard])]
      simpa [Line.content, hemp, Line.empty] using this
    | ev e =>
      obtain ⟨t, sz, lg⟩ := e
      cases lg with
      | absent =>
        have hemp : ln.inners = [] := by simpa using hab1
        have := ih Line.empty rfl (by simpa [specStep] using hab2)
        simp only [specK, finalLine, specStep, contentIn]
        rw [contentOut_cons_nonpass _ _ (by simp [SpecC15K8s.discard])]
        simpa [Line.content, hemp, Line.empty] using this
      | nonString =>
        have hemp : ln.inners = [] := by simpa using hab1
        have := ih Line.empty rfl (by simpa [specStep] using hab2)
        simp only [specK, finalLine, specStep, contentIn]
        rw [contentOut_cons_nonpass _ _ (by simp [SpecC15K8s.discard])]
        simpa [Line.content, hemp, Line.empty] using this
      | str frag =>
        simp only [specK, finalLine, contentIn]
        simp only [specStep, hov, Bool.false_eq_true, ↓reduceIte, hm, true_or] at hab2 ⊢
        split
        · -- the chunk ends the line
          rename_i hfin
          simp only [hfin, ↓reduceIte] at hab2
          have := ih Line.empty rfl hab2
          simp only [contentOut, inner_quote]
          rw [List.append_assoc, this.1]
          exact ⟨by simp [Line.content, Line.empty], this.2⟩
        · rename_i hfin
          simp only [hfin, ↓reduceIte] at hab2
          have := ih ⟨ln.inners ++ [inner frag], ln.size + sz, false⟩ rfl hab2
          rw [contentOut_cons_nonpass _ _ (by simp [SpecC15K8s.collapse])]
          rw [this.1]
          exact ⟨by simp [Line.content], this.2⟩


theorem quotedItems_append {a b : List In} (h : quotedItems (a ++ b)) : quotedItems a ∧ quotedItems b := by
  induction a with
  | nil => exact ⟨trivial, h⟩
  | cons x r ih =>
    have hx := quotedItems_cons (x := x) (r := r ++ b) h
    obtain ⟨h1, h2⟩ := ih hx.2
    refine ⟨?_, h2⟩
    cases x with
    | timeout t => exact h1
    | ev e =>
      obtain ⟨t, sz, lg⟩ := e
      cases lg with
      | absent => exact h1
      | nonString => exact h1
      | str frag => exact ⟨hx.1 t sz frag rfl, h1⟩

theorem quoted_quote (c : Bytes) : Quoted (quote c) := by
  simp [Quoted, inner_quote]

/-- the spec's answer `pass` / `discard` always closes the line -/
theorem specStep_closes (cfg : Cfg) (ln : Line) (x : In)
    (h : (specStep cfg ln x).2.res = .pass ∨ (specStep cfg ln x).2.res = .discard) :
    (specStep cfg ln x).1 = Line.empty := by
  cases x with
  | timeout t => rfl
  | ev e =>
    obtain ⟨t, sz, lg⟩ := e
    cases lg with
    | absent => rfl
    | nonString => rfl
    | str frag =>
      simp only [specStep] at h ⊢
      by_cases h1 : ln.over = true
      · simp only [h1, ↓reduceIte] at h ⊢
        by_cases h2 : (!endsLine frag) = true
        · simp [h2, SpecC15K8s.collapse] at h
        · simp only [h2, Bool.false_eq_true, ↓reduceIte]
          by_cases h3 : cfg.cutOff = true <;> simp [h3]
      · simp only [h1, Bool.false_eq_true, ↓reduceIte] at h ⊢
        by_cases h2 : (endsLine frag || decide ((((ln.size + sz + lookahead : Nat)) : Int) > cfg.splitSize)) = true
        · simp only [h2, ↓reduceIte]
        · simp only [h2, Bool.false_eq_true, ↓reduceIte] at h ⊢
          by_cases h3 : cfg.maxSize = 0 ∨ 1 + ln.content.length + frag.length < cfg.maxSize
          · simp [h3, SpecC15K8s.collapse] at h
          · simp [h3, SpecC15K8s.collapse] at h

/-- a block of chunks that neither end the line nor trigger a split, without a size limit:
    all collapsed, their contents appended to the line -/
theorem specK_partials (cfg : Cfg) (hm : cfg.maxSize = 0) (cs : List (Nat × Bytes)) (ln : Line)
    (hov : ln.over = false) (rest : List In)
    (hne : ∀ p ∈ cs, contentEndsLine p.2 = false)
    (hsz : ((ln.size + (cs.map (·.1)).sum + lookahead : Nat) : Int) ≤ cfg.splitSize) :
    specK cfg ln (cs.map (fun p => In.ev ⟨0, p.1, .str (quote p.2)⟩) ++ rest) =
      cs.map (fun _ => SpecC15K8s.collapse false) ++
        specK cfg ⟨ln.inners ++ cs.map (·.2), ln.size + (cs.map (·.1)).sum, false⟩ rest := by
  induction cs generalizing ln with
  | nil => cases ln; simp_all
  | cons p r ih =>
    have hp : contentEndsLine p.2 = false := hne p (by simp)
    have hr : ∀ q ∈ r, contentEndsLine q.2 = false := fun q hq => hne q (by simp [hq])
    simp only [List.map_cons, List.sum_cons] at hsz
    have hnosplit : decide ((((ln.size + p.1 + lookahead : Nat)) : Int) > cfg.splitSize) = false := by
      simp; omega
    have hstep : specStep cfg ln (In.ev ⟨0, p.1, .str (quote p.2)⟩) =
        (⟨ln.inners ++ [p.2], ln.size + p.1, false⟩, SpecC15K8s.collapse false) := by
      simp only [specStep, hov, endsLine, inner_quote, hp, hnosplit, hm, Bool.false_eq_true, ↓reduceIte,
        Bool.or_self, true_or]
    simp only [List.map_cons, List.cons_append, specK, hstep]
    rw [ih ⟨ln.inners ++ [p.2], ln.size + p.1, false⟩ rfl hr (by simp only []; omega)]
    simp [Nat.add_assoc]


/-! ### the end-of-line test means "the text ends with a newline" -/

def rEsc (r : Bytes) : Bytes := r.flatMap (fun b => (escByte b).reverse)

theorem esc_reverse (t : Bytes) : (esc t).reverse = rEsc t.reverse := by
  simp [esc, rEsc, List.reverse_flatMap, Function.comp_def]

theorem escByte_bslash : escByte BSLASH = [BSLASH, BSLASH] := by simp [escByte]
theorem escByte_nl : escByte NL = [BSLASH, LOWER_N] := by
  have : NL ≠ BSLASH := by decide
  simp [escByte, this]
theorem escByte_other {b : UInt8} (h1 : b ≠ BSLASH) (h2 : b ≠ NL) : escByte b = [b] := by
  simp [escByte, h1, h2]

theorem rEsc_cons (b : UInt8) (r : Bytes) : rEsc (b :: r) = (escByte b).reverse ++ rEsc r := by
  simp [rEsc]

theorem rEsc_even (r : Bytes) : ((rEsc r).takeWhile (· == BSLASH)).length % 2 = 0 := by
  induction r with
  | nil => simp [rEsc]
  | cons b r ih =>
    rw [rEsc_cons]
    by_cases h1 : b = BSLASH
    · subst h1
      rw [escByte_bslash]
      simp only [List.reverse_cons, List.reverse_nil, List.nil_append, List.cons_append,
        List.takeWhile_cons, beq_self_eq_true, ↓reduceIte, List.length_cons]
      omega
    · by_cases h2 : b = NL
      · subst h2
        rw [escByte_nl]
        have : (LOWER_N == BSLASH) = false := by decide
        simp [List.takeWhile_cons, this]
      · rw [escByte_other h1 h2]
        have : (b == BSLASH) = false := by simpa using h1
        simp [List.takeWhile_cons, this]

/-- on escaped text the test holds exactly when the text ends with a newline -/
theorem contentEndsLine_esc (t : Bytes) : contentEndsLine (esc t) = (t.getLast? == some NL) := by
  unfold contentEndsLine
  rw [esc_reverse]
  have hl : t.getLast? = t.reverse.head? := by simp
  rw [hl]
  cases hr : t.reverse with
  | nil => simp [rEsc]
  | cons b r =>
    rw [rEsc_cons]
    have hev := rEsc_even r
    by_cases h1 : b = BSLASH
    · subst h1
      rw [escByte_bslash]
      have e1 : (BSLASH == LOWER_N) = false := by decide
      have e2 : (BSLASH == NL) = false := by decide
      simp [e1, e2]
    · by_cases h2 : b = NL
      · subst h2
        rw [escByte_nl]
        simp only [List.reverse_cons, List.reverse_nil, List.nil_append, List.cons_append,
          List.head?_cons, beq_self_eq_true, Bool.true_and, List.takeWhile_cons, ↓reduceIte,
          List.length_cons]
        have : ((List.takeWhile (fun x => x == BSLASH) (rEsc r)).length + 1) % 2 = 1 := by omega
        simp [this]
      · rw [escByte_other h1 h2]
        have e3 : (b == NL) = false := by simpa using h2
        simp only [List.reverse_cons, List.reverse_nil, List.nil_append, List.cons_append,
          List.head?_cons]
        by_cases h3 : b = LOWER_N
        · subst h3
          simp [hev, e3]
        · have : (b == LOWER_N) = false := by simpa using h3
          simp [this, e3]

end FileD.K8s
