/-
  Invariants of the Batcher transition system (Model/Batcher.lean).
-/
import FileD.Prelude.TS
import FileD.Model.Batcher
namespace FileD.Batcher

def curEvs (s : State) : List Ev :=
  match s.cur with
  | some b => b.evs
  | none => []

def seqsFrom : Nat → List Batch → Prop
  | _, [] => True
  | n, b :: bs => b.seq = n ∧ seqsFrom (n + 1) bs

/-- the refinement invariant: sealed batches carry consecutive sequence numbers starting at
    commitSeq, and resolved ++ sealed ++ current = added -/
structure BInv (s : State) : Prop where
  seqs : seqsFrom s.commitSeq s.full
  count : s.commitSeq + s.full.length = s.outSeq
  flow : s.resolved.map (·.1) ++ s.full.flatMap (·.evs) ++ curEvs s = s.added
  comm : s.committed = (s.resolved.filter (·.2)).map (·.1)

theorem seqsFrom_append (n : Nat) (l : List Batch) (b : Batch) :
    seqsFrom n (l ++ [b]) ↔ seqsFrom n l ∧ b.seq = n + l.length := by
  induction l generalizing n with
  | nil => simp [seqsFrom]
  | cons x xs ih => simp [seqsFrom, ih, Nat.add_assoc, Nat.add_comm 1, and_assoc]

theorem updBatch_seq (k n : Nat) (f : Batch → Batch) (hf : ∀ b, (f b).seq = b.seq) (l : List Batch) :
    seqsFrom n (updBatch k f l) ↔ seqsFrom n l := by
  induction l generalizing n with
  | nil => simp [updBatch]
  | cons x xs ih =>
    simp only [updBatch]; split <;> simp [seqsFrom, ih, hf]

theorem updBatch_evs (k : Nat) (f : Batch → Batch) (hf : ∀ b, (f b).evs = b.evs) (l : List Batch) :
    (updBatch k f l).flatMap (·.evs) = l.flatMap (·.evs) := by
  induction l with
  | nil => simp [updBatch]
  | cons x xs ih => simp only [updBatch]; split <;> simp [ih, hf]

theorem updBatch_len (k : Nat) (f : Batch → Batch) (l : List Batch) :
    (updBatch k f l).length = l.length := by
  induction l with
  | nil => simp [updBatch]
  | cons x xs ih => simp only [updBatch]; split <;> simp [ih]

theorem getBatch_evs {s : State} {now : Nat} {b : Cur} {free : Nat}
    (h : getBatch s now = some (b, free)) : b.evs = curEvs s := by
  unfold getBatch at h
  cases hc : s.cur with
  | some b0 => simp [hc] at h; simp [curEvs, hc, h.1]
  | none =>
    simp [hc] at h
    obtain ⟨_, h2, _⟩ := h
    simp [curEvs, hc, ← h2]

theorem updateStatus_evs (c : Cfg) (b : Cur) (now : Nat) : (b.updateStatus c now).evs = b.evs := by
  unfold Cur.updateStatus; split <;> rfl

theorem init_inv (c : Cfg) : BInv (init c) := by
  constructor <;> simp [init, seqsFrom, curEvs]

theorem filter_const_true {α} (l : List α) : l.filter (fun _ => true) = l := by
  induction l with
  | nil => rfl
  | cons x xs ih => simp [List.filter, ih]

theorem upd_inv (s : State) (k : Nat) (f : Batch → Batch) (hseq : ∀ b, (f b).seq = b.seq)
    (hevs : ∀ b, (f b).evs = b.evs) (h : BInv s) : BInv { s with full := updBatch k f s.full } := by
  obtain ⟨h1, h2, h3, h4⟩ := h
  refine ⟨(updBatch_seq k _ f hseq _).2 h1, ?_, ?_, h4⟩
  · show s.commitSeq + (updBatch k f s.full).length = s.outSeq
    rw [updBatch_len]; exact h2
  · show s.resolved.map (·.1) ++ (updBatch k f s.full).flatMap (·.evs) ++ curEvs s = s.added
    rw [updBatch_evs k f hevs]; exact h3

theorem step_inv (c : Cfg) (s s' : State) (op : Op) (h : BInv s) (hs : step? c s op = some s') :
    BInv s' := by
  obtain ⟨h1, h2, h3, h4⟩ := h
  cases op with
  | add e t0 now =>
    simp only [step?] at hs
    split at hs; · simp at hs
    split at hs; · simp at hs; subst hs; exact ⟨h1, h2, h3, h4⟩
    split at hs; · simp at hs
    rename_i b free hg
    simp at hs; subst hs
    have hb := getBatch_evs hg
    refine ⟨h1, h2, ?_, h4⟩
    simp [afterStatus, curEvs, updateStatus_evs, Cur.append, hb, ← h3, List.append_assoc]
  | heartbeat t0 now =>
    simp only [step?] at hs
    split at hs; · simp at hs
    split at hs; · simp at hs; subst hs; exact ⟨h1, h2, h3, h4⟩
    split at hs; · simp at hs
    rename_i b free hg
    simp at hs; subst hs
    have hb := getBatch_evs hg
    refine ⟨h1, h2, ?_, h4⟩
    simp [afterStatus, curEvs, updateStatus_evs, hb, ← h3]
  | sealB =>
    simp only [step?] at hs
    split at hs; · simp at hs
    split at hs; · simp at hs
    rename_i b hc
    simp at hs; subst hs
    refine ⟨(seqsFrom_append _ _ _).2 ⟨h1, by simp; omega⟩, by simp; omega, ?_, h4⟩
    simp [curEvs, hc] at h3
    simp [curEvs, ← h3]
  | enqueue k =>
    simp only [step?] at hs
    split at hs; · simp at hs
    split at hs; · simp at hs
    split at hs
    · simp at hs; subst hs; exact ⟨h1, h2, h3, h4⟩
    · simp at hs; subst hs
      exact upd_inv s k _ (fun _ => rfl) (fun _ => rfl) ⟨h1, h2, h3, h4⟩
  | sendStart k =>
    simp only [step?] at hs
    split at hs; · simp at hs
    split at hs
    · simp at hs; subst hs
      exact upd_inv s k _ (fun _ => rfl) (fun _ => rfl) ⟨h1, h2, h3, h4⟩
    · simp at hs
  | sendDone k keep =>
    simp only [step?] at hs
    split at hs; · simp at hs
    split at hs
    · simp at hs; subst hs
      exact upd_inv s k _ (fun b => by split <;> rfl) (fun b => by split <;> rfl) ⟨h1, h2, h3, h4⟩
    · simp at hs
  | commit k =>
    simp only [step?] at hs
    split at hs; · simp at hs
    rename_i b bs hf
    split at hs
    · simp at hs; subst hs
      rw [hf] at h1 h2 h3
      simp [seqsFrom] at h1
      refine ⟨h1.2, by simp at h2 ⊢; omega, ?_, ?_⟩
      · simp [curEvs] at h3 ⊢
        simpa [List.append_assoc, Function.comp_def] using h3
      · simp only [h4, List.filter_append, List.map_append]
        congr 1
        cases b.reset <;> simp [List.filter_map, Function.comp_def, filter_const_true]
    · simp at hs
  | stop =>
    simp only [step?] at hs
    split at hs; · simp at hs
    simp at hs; subst hs; exact ⟨h1, h2, h3, h4⟩

theorem reachable_inv (c : Cfg) (s : State) (hr : TS.Reachable (step? c) (init c) s) : BInv s :=
  TS.invariant_reachable (step? c) BInv (init c) (init_inv c) (fun s op s' => step_inv c s s' op) s hr

end FileD.Batcher

namespace FileD.Batcher

/-! ### lookup / update helpers -/

theorem findBatch_some {k : Nat} {l : List Batch} {b : Batch} (h : findBatch k l = some b) :
    b ∈ l ∧ b.seq = k := by
  induction l with
  | nil => simp [findBatch] at h
  | cons x xs ih =>
    simp only [findBatch] at h
    split at h
    · simp at h; subst h; simp [*]
    · have := ih h; exact ⟨List.mem_cons_of_mem _ this.1, this.2⟩

theorem mem_updBatch {k : Nat} {f : Batch → Batch} {l : List Batch} {b : Batch}
    (h : b ∈ updBatch k f l) : b ∈ l ∨ ∃ b0 ∈ l, b0.seq = k ∧ b = f b0 := by
  induction l with
  | nil => simp [updBatch] at h
  | cons x xs ih =>
    simp only [updBatch] at h
    split at h
    · rename_i hk
      rcases List.mem_cons.1 h with h | h
      · exact Or.inr ⟨x, by simp, hk, h⟩
      · exact Or.inl (List.mem_cons_of_mem _ h)
    · rcases List.mem_cons.1 h with h | h
      · exact Or.inl (by simp [h])
      · rcases ih h with h | ⟨b0, hb0, hk, hb⟩
        · exact Or.inl (List.mem_cons_of_mem _ h)
        · exact Or.inr ⟨b0, List.mem_cons_of_mem _ hb0, hk, hb⟩

/-- a per-batch property is kept by `updBatch` when `f` keeps it for the batches it touches -/
theorem forall_updBatch {P : Batch → Prop} {k : Nat} {f : Batch → Batch} {l : List Batch}
    (hl : ∀ b ∈ l, P b) (hf : ∀ b ∈ l, b.seq = k → P b → P (f b)) : ∀ b ∈ updBatch k f l, P b := by
  intro b hb
  rcases mem_updBatch hb with h | ⟨b0, hb0, hk, rfl⟩
  · exact hl b h
  · exact hf b0 hb0 hk (hl b0 hb0)

theorem mem_updBatch_found {k : Nat} {f : Batch → Batch} {l : List Batch} {b b0 : Batch}
    (hfb : findBatch k l = some b0) (h : b ∈ updBatch k f l) : b ∈ l ∨ b = f b0 := by
  induction l with
  | nil => simp [findBatch] at hfb
  | cons x xs ih =>
    simp only [findBatch] at hfb
    simp only [updBatch] at h
    split at hfb
    · rename_i hk
      simp at hfb; subst hfb
      simp [hk] at h
      rcases h with h | h
      · exact Or.inr h
      · exact Or.inl (List.mem_cons_of_mem _ h)
    · rename_i hk
      simp [hk] at h
      rcases h with h | h
      · exact Or.inl (by simp [h])
      · rcases ih hfb h with h | h
        · exact Or.inl (List.mem_cons_of_mem _ h)
        · exact Or.inr h

theorem forall_updBatch_found {P : Batch → Prop} {k : Nat} {f : Batch → Batch} {l : List Batch}
    {b0 : Batch} (hfb : findBatch k l = some b0) (hl : ∀ b ∈ l, P b) (hf : P b0 → P (f b0)) :
    ∀ b ∈ updBatch k f l, P b := by
  intro b hb
  rcases mem_updBatch_found hfb hb with h | rfl
  · exact hl b h
  · exact hf (hl b0 (findBatch_some hfb).1)

/-! ### size / shape invariant -/

def bytesOf (evs : List Ev) : Nat := (evs.map (·.size)).sum

/-- the size clause of C08 for the content of one batch: at most `maxCount` events, and the
    byte size without the last event is below `maxBytes` (limits equal to 0 are switched off) -/
def SizeOk (c : Cfg) (evs : List Ev) : Prop :=
  (c.maxCount ≠ 0 → evs.length ≤ c.maxCount) ∧
  (c.maxBytes ≠ 0 → ∀ l, evs.getLast? = some l → bytesOf evs - l.size < c.maxBytes)

/-- the first clause of `updateStatus` -/
def SizeReady (c : Cfg) (n bytes : Nat) : Prop :=
  (c.maxCount ≠ 0 ∧ n ≥ c.maxCount) ∨ (c.maxBytes ≠ 0 ∧ c.maxBytes ≤ bytes)

def hasIter (evs : List Ev) : Bool := evs.any (fun e => e.kind != .childParent)

structure CurOk (c : Cfg) (locked : Bool) (b : Cur) : Prop where
  size : b.size = bytesOf b.evs
  ok : SizeOk c b.evs
  iter : b.iter = hasIter b.evs
  notReady : locked = false → ¬ SizeReady c b.evs.length b.size
  nonempty : locked = true → b.evs ≠ []

structure BatchOk (c : Cfg) (b : Batch) : Prop where
  ok : SizeOk c b.evs
  nonempty : b.evs ≠ []
  iter : b.iter = hasIter b.evs

structure SInv (c : Cfg) (s : State) : Prop where
  cur : ∀ b, s.cur = some b → CurOk c s.locked b
  lockedCur : s.locked = true → s.cur ≠ none
  full : ∀ b ∈ s.full, BatchOk c b

theorem bytesOf_append (a : List Ev) (e : Ev) : bytesOf (a ++ [e]) = bytesOf a + e.size := by
  simp [bytesOf]

theorem hasIter_append (a : List Ev) (e : Ev) :
    hasIter (a ++ [e]) = (hasIter a || (e.kind != .childParent)) := by
  simp [hasIter]

theorem readiness_notReady {c : Cfg} {b : Cur} {now : Nat} (h : readiness c b now = .notReady) :
    ¬ SizeReady c b.evs.length b.size ∨ b.evs = [] := by
  unfold readiness at h
  simp only at h
  split at h
  · right; exact List.eq_nil_of_length_eq_zero (by assumption)
  · split at h
    · simp at h
    · left; rename_i hn; exact hn

theorem readiness_ready_nonempty {c : Cfg} {b : Cur} {now : Nat} (h : readiness c b now ≠ .notReady) :
    b.evs ≠ [] := by
  intro he
  apply h
  simp [readiness, he]

theorem curOk_fresh (c : Cfg) (now : Nat) : CurOk c false { start := now } := by
  refine ⟨by simp [bytesOf], ⟨by simp, by simp⟩, by simp [hasIter], ?_, by simp⟩
  intro _ h
  rcases h with ⟨h1, h2⟩ | ⟨h1, h2⟩
  · simp at h2; exact h1 h2
  · simp at h2; exact h1 h2

theorem getBatch_ok {c : Cfg} {s : State} {now : Nat} {b : Cur} {free : Nat}
    (hi : SInv c s) (hl : s.locked = false) (h : getBatch s now = some (b, free)) : CurOk c false b := by
  unfold getBatch at h
  cases hc : s.cur with
  | some b0 =>
    simp [hc] at h
    have := hi.cur b0 hc
    rw [hl] at this; rw [← h.1]; exact this
  | none =>
    simp [hc] at h
    rw [← h.2.1]; exact curOk_fresh c now

theorem curOk_updateStatus {c : Cfg} {l : Bool} {b : Cur} (now : Nat) (h : CurOk c l b) :
    CurOk c l (b.updateStatus c now) := by
  unfold Cur.updateStatus
  split
  · exact h
  · exact ⟨h.size, h.ok, h.iter, h.notReady, h.nonempty⟩

/-- after `updateStatus`: the lock stays held exactly when the batch is ready -/
theorem curOk_afterStatus {c : Cfg} {b : Cur} (now : Nat)
    (hsz : b.size = bytesOf b.evs) (hok : SizeOk c b.evs) (hit : b.iter = hasIter b.evs) :
    CurOk c (readiness c b now != .notReady) (b.updateStatus c now) := by
  apply curOk_updateStatus
  refine ⟨hsz, hok, hit, ?_, ?_⟩
  · intro hl
    have : readiness c b now = .notReady := by
      cases hr : readiness c b now <;> simp [hr] at hl ⊢
    rcases readiness_notReady this with h | h
    · exact h
    · intro hr
      rcases hr with ⟨h1, h2⟩ | ⟨h1, h2⟩
      · simp [h] at h2; exact h1 h2
      · rw [hsz, h] at h2; simp [bytesOf] at h2; exact h1 h2
  · intro hl
    apply readiness_ready_nonempty (c := c) (now := now)
    intro hr; simp [hr] at hl

theorem sizeOk_append {c : Cfg} {b : Cur} (e : Ev) (h : CurOk c false b) : SizeOk c (b.evs ++ [e]) := by
  have hnr := h.notReady rfl
  constructor
  · intro hc
    have : ¬ b.evs.length ≥ c.maxCount := fun hge => hnr (Or.inl ⟨hc, hge⟩)
    simp; omega
  · intro hb l hl
    simp at hl; subst hl
    have : ¬ c.maxBytes ≤ b.size := fun hge => hnr (Or.inr ⟨hb, hge⟩)
    rw [bytesOf_append, ← h.size]; omega

theorem step_sinv (c : Cfg) (s s' : State) (op : Op) (hi : SInv c s) (hs : step? c s op = some s') :
    SInv c s' := by
  cases op with
  | add e t0 now =>
    simp only [step?] at hs
    split at hs; · simp at hs
    rename_i hl
    split at hs; · simp at hs; subst hs; exact hi
    split at hs; · simp at hs
    rename_i b free hg
    simp at hs; subst hs
    have hb : CurOk c false b := getBatch_ok (s := s) hi (by simpa using hl) hg
    have hok := sizeOk_append e hb
    refine ⟨?_, ?_, hi.full⟩
    · intro b' hb'
      simp [afterStatus] at hb'; subst hb'
      exact curOk_afterStatus now (by simp [Cur.append, bytesOf_append, hb.size]) hok
        (by simp [Cur.append, hasIter_append, hb.iter])
    · simp [afterStatus]
  | heartbeat t0 now =>
    simp only [step?] at hs
    split at hs; · simp at hs
    rename_i hl
    split at hs; · simp at hs; subst hs; exact hi
    split at hs; · simp at hs
    rename_i b free hg
    simp at hs; subst hs
    have hb : CurOk c false b := getBatch_ok (s := s) hi (by simpa using hl) hg
    refine ⟨?_, ?_, hi.full⟩
    · intro b' hb'
      simp [afterStatus] at hb'; subst hb'
      exact curOk_afterStatus now hb.size hb.ok hb.iter
    · simp [afterStatus]
  | sealB =>
    simp only [step?] at hs
    split at hs; · simp at hs
    rename_i hl
    split at hs; · simp at hs
    rename_i b hc
    simp at hs; subst hs
    have hb := hi.cur b hc
    refine ⟨by simp, by simp, ?_⟩
    intro x hx
    simp at hx
    rcases hx with hx | hx
    · exact hi.full x hx
    · subst hx
      exact ⟨hb.ok, hb.nonempty (by simpa using hl), hb.iter⟩
  | enqueue k =>
    simp only [step?] at hs
    split at hs; · simp at hs
    split at hs; · simp at hs
    split at hs
    · simp at hs; subst hs; exact ⟨hi.cur, hi.lockedCur, hi.full⟩
    · simp at hs; subst hs
      exact ⟨hi.cur, hi.lockedCur,
        forall_updBatch hi.full (fun b _ _ hb => ⟨hb.ok, hb.nonempty, hb.iter⟩)⟩
  | sendStart k =>
    simp only [step?] at hs
    split at hs; · simp at hs
    split at hs
    · simp at hs; subst hs
      exact ⟨hi.cur, hi.lockedCur,
        forall_updBatch hi.full (fun b _ _ hb => ⟨hb.ok, hb.nonempty, hb.iter⟩)⟩
    · simp at hs
  | sendDone k keep =>
    simp only [step?] at hs
    split at hs; · simp at hs
    split at hs
    · simp at hs; subst hs
      refine ⟨hi.cur, hi.lockedCur, forall_updBatch hi.full (fun b _ _ hb => ?_)⟩
      split <;> exact ⟨hb.ok, hb.nonempty, hb.iter⟩
    · simp at hs
  | commit k =>
    simp only [step?] at hs
    split at hs; · simp at hs
    rename_i b bs hf
    split at hs
    · simp at hs; subst hs
      exact ⟨hi.cur, hi.lockedCur, fun x hx => hi.full x (by rw [hf]; exact List.mem_cons_of_mem _ hx)⟩
    · simp at hs
  | stop =>
    simp only [step?] at hs
    split at hs; · simp at hs
    simp at hs; subst hs; exact ⟨hi.cur, hi.lockedCur, hi.full⟩

theorem init_sinv (c : Cfg) : SInv c (init c) := by
  constructor <;> simp [init]

theorem reachable_sinv (c : Cfg) (s : State) (hr : TS.Reachable (step? c) (init c) s) : SInv c s :=
  TS.invariant_reachable (step? c) (SInv c) (init c) (init_sinv c) (fun s op s' => step_sinv c s s' op) s hr

end FileD.Batcher

namespace FileD.Batcher

/-! ### flags of sealed batches, the Stop race, history -/

structure FlagOk (b : Batch) : Prop where
  sentStarted : b.sent = true → b.started = true
  startedQueued : b.started = true → b.queued = true ∧ b.iter = true
  resetSent : b.reset = true → b.sent = true

/-- in the send-before-unlock shape every sealed batch is already in the channel and nothing panics -/
structure QInv (c : Cfg) (s : State) : Prop where
  flags : ∀ b ∈ s.full, FlagOk b
  queued : c.enqueueLocked = true → ∀ b ∈ s.full, b.queued = true
  noPanic : c.enqueueLocked = true → s.panicked = false

theorem step_qinv (c : Cfg) (s s' : State) (op : Op) (hi : QInv c s) (hs : step? c s op = some s') :
    QInv c s' := by
  cases op with
  | add e t0 now =>
    simp only [step?] at hs
    split at hs; · simp at hs
    split at hs; · simp at hs; subst hs; exact hi
    split at hs; · simp at hs
    simp at hs; subst hs
    exact ⟨hi.flags, hi.queued, hi.noPanic⟩
  | heartbeat t0 now =>
    simp only [step?] at hs
    split at hs; · simp at hs
    split at hs; · simp at hs; subst hs; exact hi
    split at hs; · simp at hs
    simp at hs; subst hs
    exact ⟨hi.flags, hi.queued, hi.noPanic⟩
  | sealB =>
    simp only [step?] at hs
    split at hs; · simp at hs
    split at hs; · simp at hs
    simp at hs; subst hs
    refine ⟨?_, ?_, hi.noPanic⟩
    · intro x hx
      simp at hx
      rcases hx with hx | hx
      · exact hi.flags x hx
      · subst hx; exact ⟨by simp, by simp, by simp⟩
    · intro hc x hx
      simp at hx
      rcases hx with hx | hx
      · exact hi.queued hc x hx
      · subst hx; exact hc
  | enqueue k =>
    simp only [step?] at hs
    split at hs; · simp at hs
    rename_i b hfb
    split at hs; · simp at hs
    rename_i hq
    have hmem := (findBatch_some hfb).1
    have hne : c.enqueueLocked ≠ true := fun hc => hq (hi.queued hc b hmem)
    split at hs
    · simp at hs; subst hs
      exact ⟨hi.flags, fun hc => absurd hc hne, fun hc => absurd hc hne⟩
    · simp at hs; subst hs
      refine ⟨forall_updBatch hi.flags (fun b _ _ hb => ⟨hb.sentStarted, fun h => ⟨rfl, (hb.startedQueued h).2⟩, hb.resetSent⟩),
        fun hc => absurd hc hne, fun hc => absurd hc hne⟩
  | sendStart k =>
    simp only [step?] at hs
    split at hs; · simp at hs
    rename_i b0 hfb
    split at hs
    · rename_i hg
      simp at hg
      simp at hs; subst hs
      refine ⟨forall_updBatch_found hfb hi.flags (fun hb => ?_), ?_, hi.noPanic⟩
      · exact ⟨fun _ => rfl, fun _ => ⟨hg.1.1, hg.1.2⟩, hb.resetSent⟩
      · intro hc
        exact forall_updBatch (hi.queued hc) (fun b _ _ hb => hb)
    · simp at hs
  | sendDone k keep =>
    simp only [step?] at hs
    split at hs; · simp at hs
    rename_i b0 hfb
    split at hs
    · rename_i hg
      simp at hg
      simp at hs; subst hs
      refine ⟨forall_updBatch_found hfb hi.flags (fun hb => ?_), ?_, hi.noPanic⟩
      · split
        · exact ⟨fun _ => hg.1, hb.startedQueued, fun _ => rfl⟩
        · exact ⟨fun _ => hg.1, hb.startedQueued, fun _ => rfl⟩
      · intro hc
        exact forall_updBatch (hi.queued hc) (fun b _ _ hb => by split <;> exact hb)
    · simp at hs
  | commit k =>
    simp only [step?] at hs
    split at hs; · simp at hs
    rename_i b bs hf
    split at hs
    · simp at hs; subst hs
      exact ⟨fun x hx => hi.flags x (by rw [hf]; exact List.mem_cons_of_mem _ hx),
        fun hc x hx => hi.queued hc x (by rw [hf]; exact List.mem_cons_of_mem _ hx), hi.noPanic⟩
    · simp at hs
  | stop =>
    simp only [step?] at hs
    split at hs; · simp at hs
    simp at hs; subst hs; exact ⟨hi.flags, hi.queued, hi.noPanic⟩

end FileD.Batcher

namespace FileD.Batcher

/-! ### history-augmented system: the state together with the ops executed so far -/

def stepH (c : Cfg) (p : State × List Op) (op : Op) : Option (State × List Op) :=
  (step? c p.1 op).map (fun s' => (s', p.2 ++ [op]))

theorem runH_eq (c : Cfg) (s : State) (h ops : List Op) :
    TS.run (stepH c) (s, h) ops = (TS.run (step? c) s ops).map (fun s' => (s', h ++ ops)) := by
  induction ops generalizing s h with
  | nil => simp [TS.run]
  | cons op ops ih =>
    simp only [TS.run, stepH]
    cases hs : step? c s op with
    | none => simp
    | some s1 => simp [ih, List.append_assoc]

/-- what the flags of a sealed batch say about the past -/
structure HB (h : List Op) (b : Batch) : Prop where
  started : b.started = true → Op.sendStart b.seq ∈ h
  sent : b.sent = true → ∃ keep, Op.sendDone b.seq keep ∈ h
  reset : b.reset = true → Op.sendDone b.seq false ∈ h

structure HInv (p : State × List Op) : Prop where
  full : ∀ b ∈ p.1.full, HB p.2 b
  resolved : ∀ q ∈ p.1.resolved, q.2 = false → ∃ k, Op.sendDone k false ∈ p.2

theorem HB_mono {h : List Op} {b : Batch} (op : Op) (hb : HB h b) : HB (h ++ [op]) b :=
  ⟨fun x => List.mem_append_left _ (hb.started x),
   fun x => (hb.sent x).imp (fun _ y => List.mem_append_left _ y),
   fun x => List.mem_append_left _ (hb.reset x)⟩

theorem stepH_inv (c : Cfg) (p p' : State × List Op) (op : Op) (hi : HInv p) (hs : stepH c p op = some p') :
    HInv p' := by
  obtain ⟨s, h⟩ := p
  simp only [stepH, Option.map_eq_some_iff] at hs
  obtain ⟨s', hs, rfl⟩ := hs
  have hfull : ∀ b ∈ s.full, HB (h ++ [op]) b := fun b hb => HB_mono op (hi.full b hb)
  have hres : ∀ q ∈ s.resolved, q.2 = false → ∃ k, Op.sendDone k false ∈ h ++ [op] :=
    fun q hq hf => (hi.resolved q hq hf).imp (fun _ y => List.mem_append_left _ y)
  cases op with
  | add e t0 now =>
    simp only [step?] at hs
    split at hs; · simp at hs
    split at hs; · simp at hs; subst hs; exact ⟨hfull, hres⟩
    split at hs; · simp at hs
    simp at hs; subst hs; exact ⟨hfull, hres⟩
  | heartbeat t0 now =>
    simp only [step?] at hs
    split at hs; · simp at hs
    split at hs; · simp at hs; subst hs; exact ⟨hfull, hres⟩
    split at hs; · simp at hs
    simp at hs; subst hs; exact ⟨hfull, hres⟩
  | sealB =>
    simp only [step?] at hs
    split at hs; · simp at hs
    split at hs; · simp at hs
    simp at hs; subst hs
    refine ⟨?_, hres⟩
    intro x hx
    simp at hx
    rcases hx with hx | hx
    · exact hfull x hx
    · subst hx; exact ⟨by simp, by simp, by simp⟩
  | enqueue k =>
    simp only [step?] at hs
    split at hs; · simp at hs
    split at hs; · simp at hs
    split at hs
    · simp at hs; subst hs; exact ⟨hfull, hres⟩
    · simp at hs; subst hs
      exact ⟨forall_updBatch hfull (fun b _ _ hb => ⟨hb.started, hb.sent, hb.reset⟩), hres⟩
  | sendStart k =>
    simp only [step?] at hs
    split at hs; · simp at hs
    rename_i b0 hfb
    split at hs
    · simp at hs; subst hs
      refine ⟨forall_updBatch_found hfb hfull (fun hb => ?_), hres⟩
      have hk := (findBatch_some hfb).2
      exact ⟨fun _ => by simp [hk], hb.sent, hb.reset⟩
    · simp at hs
  | sendDone k keep =>
    simp only [step?] at hs
    split at hs; · simp at hs
    rename_i b0 hfb
    split at hs
    · simp at hs; subst hs
      refine ⟨forall_updBatch_found hfb hfull (fun hb => ?_), hres⟩
      have hk := (findBatch_some hfb).2
      split
      · rename_i hkeep
        exact ⟨hb.started, fun _ => ⟨keep, by simp [hk]⟩, hb.reset⟩
      · rename_i hkeep
        have : keep = false := by simpa using hkeep
        exact ⟨hb.started, fun _ => ⟨keep, by simp [hk]⟩, fun _ => by simp [hk, this]⟩
    · simp at hs
  | commit k =>
    simp only [step?] at hs
    split at hs; · simp at hs
    rename_i b bs hf
    split at hs
    · simp at hs; subst hs
      refine ⟨fun x hx => hfull x (by rw [hf]; exact List.mem_cons_of_mem _ hx), ?_⟩
      intro q hq hqf
      simp at hq
      rcases hq with hq | ⟨e, _, rfl⟩
      · exact hres q hq hqf
      · simp at hqf
        exact ⟨b.seq, (hfull b (by rw [hf]; simp)).reset hqf⟩
    · simp at hs
  | stop =>
    simp only [step?] at hs
    split at hs; · simp at hs
    simp at hs; subst hs; exact ⟨hfull, hres⟩

theorem run_hinv (c : Cfg) (ops : List Op) (s : State) (hr : TS.run (step? c) (init c) ops = some s) :
    HInv (s, ops) := by
  have h0 : HInv (init c, []) := ⟨by simp [init], by simp [init]⟩
  have := TS.invariant_of_step (stepH c) HInv (fun p op p' => stepH_inv c p p' op) (init c, []) (s, ops) ops h0
    (by rw [runH_eq, hr]; simp)
  exact this

/-! ### commit order -/

def commitsOf : List Op → List Nat
  | [] => []
  | .commit k :: r => k :: commitsOf r
  | _ :: r => commitsOf r

theorem step_commitSeq (c : Cfg) (s s' : State) (op : Op) (hs : step? c s op = some s') :
    (∀ k, op = .commit k → k = s.commitSeq ∧ s'.commitSeq = s.commitSeq + 1) ∧
    ((∀ k, op ≠ .commit k) → s'.commitSeq = s.commitSeq) := by
  cases op with
  | commit k =>
    refine ⟨?_, fun h => absurd rfl (h k)⟩
    intro k' hk'
    injection hk' with hk'; subst hk'
    simp only [step?] at hs
    split at hs; · simp at hs
    split at hs
    · rename_i hg; simp at hs; subst hs; exact ⟨hg.2.1, rfl⟩
    · simp at hs
  | add e t0 now =>
    refine ⟨fun k h => (by cases h), fun _ => ?_⟩
    simp only [step?] at hs
    split at hs; · simp at hs
    split at hs; · simp at hs; subst hs; rfl
    split at hs; · simp at hs
    simp at hs; subst hs; rfl
  | heartbeat t0 now =>
    refine ⟨fun k h => (by cases h), fun _ => ?_⟩
    simp only [step?] at hs
    split at hs; · simp at hs
    split at hs; · simp at hs; subst hs; rfl
    split at hs; · simp at hs
    simp at hs; subst hs; rfl
  | sealB =>
    refine ⟨fun k h => (by cases h), fun _ => ?_⟩
    simp only [step?] at hs
    split at hs; · simp at hs
    split at hs; · simp at hs
    simp at hs; subst hs; rfl
  | enqueue k =>
    refine ⟨fun k h => (by cases h), fun _ => ?_⟩
    simp only [step?] at hs
    split at hs; · simp at hs
    split at hs; · simp at hs
    split at hs <;> (simp at hs; subst hs; rfl)
  | sendStart k =>
    refine ⟨fun k h => (by cases h), fun _ => ?_⟩
    simp only [step?] at hs
    split at hs; · simp at hs
    split at hs
    · simp at hs; subst hs; rfl
    · simp at hs
  | sendDone k keep =>
    refine ⟨fun k h => (by cases h), fun _ => ?_⟩
    simp only [step?] at hs
    split at hs; · simp at hs
    split at hs
    · simp at hs; subst hs; rfl
    · simp at hs
  | stop =>
    refine ⟨fun k h => (by cases h), fun _ => ?_⟩
    simp only [step?] at hs
    split at hs; · simp at hs
    simp at hs; subst hs; rfl

theorem run_commits (c : Cfg) (s0 s : State) (ops : List Op) (hr : TS.run (step? c) s0 ops = some s) :
    commitsOf ops = List.range' s0.commitSeq (commitsOf ops).length ∧
    s.commitSeq = s0.commitSeq + (commitsOf ops).length := by
  induction ops generalizing s0 with
  | nil => simp [TS.run] at hr; subst hr; simp [commitsOf]
  | cons op ops ih =>
    simp only [TS.run] at hr
    cases hs : step? c s0 op with
    | none => simp [hs] at hr
    | some s1 =>
      simp [hs] at hr
      have ⟨h1, h2⟩ := ih s1 hr
      have hc := step_commitSeq c s0 s1 op hs
      cases op with
      | commit k =>
        have ⟨hk, hk'⟩ := hc.1 k rfl
        simp only [commitsOf, List.length_cons, List.range'_succ]
        rw [hk'] at h1 h2
        exact ⟨by rw [← h1, hk], by omega⟩
      | add _ _ _ => simp only [commitsOf]; rw [hc.2 (by intro k h; cases h)] at h1 h2; exact ⟨h1, h2⟩
      | heartbeat _ _ => simp only [commitsOf]; rw [hc.2 (by intro k h; cases h)] at h1 h2; exact ⟨h1, h2⟩
      | sealB => simp only [commitsOf]; rw [hc.2 (by intro k h; cases h)] at h1 h2; exact ⟨h1, h2⟩
      | enqueue _ => simp only [commitsOf]; rw [hc.2 (by intro k h; cases h)] at h1 h2; exact ⟨h1, h2⟩
      | sendStart _ => simp only [commitsOf]; rw [hc.2 (by intro k h; cases h)] at h1 h2; exact ⟨h1, h2⟩
      | sendDone _ _ => simp only [commitsOf]; rw [hc.2 (by intro k h; cases h)] at h1 h2; exact ⟨h1, h2⟩
      | stop => simp only [commitsOf]; rw [hc.2 (by intro k h; cases h)] at h1 h2; exact ⟨h1, h2⟩

end FileD.Batcher
