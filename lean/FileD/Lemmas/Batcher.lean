/-
  Invariants of the Batcher transition system (Model/Batcher.lean).
-/
import FileD.Prelude.TS
import FileD.Model.Batcher
namespace FileD.Batcher

def curEvs (s : State) : List Ev :=
  match s.cur with
  | some b => b.evs
  | none => []

def seqsFrom : Nat → List Batch → Prop
  | _, [] => True
  | n, b :: bs => b.seq = n ∧ seqsFrom (n + 1) bs

/-- the refinement invariant: sealed batches carry consecutive sequence numbers starting at
    commitSeq, and resolved ++ sealed ++ current = added -/
structure BInv (s : State) : Prop where
  seqs : seqsFrom s.commitSeq s.full
  count : s.commitSeq + s.full.length = s.outSeq
  flow : s.resolved.map (·.1) ++ s.full.flatMap (·.evs) ++ curEvs s = s.added
  comm : s.committed = (s.resolved.filter (·.2)).map (·.1)

theorem seqsFrom_append (n : Nat) (l : List Batch) (b : Batch) :
    seqsFrom n (l ++ [b]) ↔ seqsFrom n l ∧ b.seq = n + l.length := by
  induction l generalizing n with
  | nil => simp [seqsFrom]
  | cons x xs ih => simp [seqsFrom, ih, Nat.add_assoc, Nat.add_comm 1, and_assoc]

theorem updBatch_seq (k n : Nat) (f : Batch → Batch) (hf : ∀ b, (f b).seq = b.seq) (l : List Batch) :
    seqsFrom n (updBatch k f l) ↔ seqsFrom n l := by
  induction l generalizing n with
  | nil => simp [updBatch]
  | cons x xs ih =>
    simp only [updBatch]; split <;> simp [seqsFrom, ih, hf]

theorem updBatch_evs (k : Nat) (f : Batch → Batch) (hf : ∀ b, (f b).evs = b.evs) (l : List Batch) :
    (updBatch k f l).flatMap (·.evs) = l.flatMap (·.evs) := by
  induction l with
  | nil => simp [updBatch]
  | cons x xs ih => simp only [updBatch]; split <;> simp [ih, hf]

theorem updBatch_len (k : Nat) (f : Batch → Batch) (l : List Batch) :
    (updBatch k f l).length = l.length := by
  induction l with
  | nil => simp [updBatch]
  | cons x xs ih => simp only [updBatch]; split <;> simp [ih]

theorem getBatch_evs {s : State} {now : Nat} {b : Cur} {free : Nat}
    (h : getBatch s now = some (b, free)) : b.evs = curEvs s := by
  unfold getBatch at h
  cases hc : s.cur with
  | some b0 => simp [hc] at h; simp [curEvs, hc, h.1]
  | none =>
    simp [hc] at h
    obtain ⟨_, h2, _⟩ := h
    simp [curEvs, hc, ← h2]

theorem updateStatus_evs (c : Cfg) (b : Cur) (now : Nat) : (b.updateStatus c now).evs = b.evs := by
  unfold Cur.updateStatus; split <;> rfl

theorem init_inv (c : Cfg) : BInv (init c) := by
  constructor <;> simp [init, seqsFrom, curEvs]

theorem filter_const_true {α} (l : List α) : l.filter (fun _ => true) = l := by
  induction l with
  | nil => rfl
  | cons x xs ih => simp [List.filter, ih]

theorem upd_inv (s : State) (k : Nat) (f : Batch → Batch) (hseq : ∀ b, (f b).seq = b.seq)
    (hevs : ∀ b, (f b).evs = b.evs) (h : BInv s) : BInv { s with full := updBatch k f s.full } := by
  obtain ⟨h1, h2, h3, h4⟩ := h
  refine ⟨(updBatch_seq k _ f hseq _).2 h1, ?_, ?_, h4⟩
  · show s.commitSeq + (updBatch k f s.full).length = s.outSeq
    rw [updBatch_len]; exact h2
  · show s.resolved.map (·.1) ++ (updBatch k f s.full).flatMap (·.evs) ++ curEvs s = s.added
    rw [updBatch_evs k f hevs]; exact h3

theorem step_inv (c : Cfg) (s s' : State) (op : Op) (h : BInv s) (hs : step? c s op = some s') :
    BInv s' := by
  obtain ⟨h1, h2, h3, h4⟩ := h
  cases op with
  | add e now =>
    simp only [step?] at hs
    split at hs; · simp at hs
    split at hs; · simp at hs; subst hs; exact ⟨h1, h2, h3, h4⟩
    split at hs; · simp at hs
    rename_i b free hg
    simp at hs; subst hs
    have hb := getBatch_evs hg
    refine ⟨h1, h2, ?_, h4⟩
    simp [afterStatus, curEvs, updateStatus_evs, Cur.append, hb, ← h3, List.append_assoc]
  | heartbeat now =>
    simp only [step?] at hs
    split at hs; · simp at hs
    split at hs; · simp at hs; subst hs; exact ⟨h1, h2, h3, h4⟩
    split at hs; · simp at hs
    rename_i b free hg
    simp at hs; subst hs
    have hb := getBatch_evs hg
    refine ⟨h1, h2, ?_, h4⟩
    simp [afterStatus, curEvs, updateStatus_evs, hb, ← h3]
  | sealB =>
    simp only [step?] at hs
    split at hs; · simp at hs
    split at hs; · simp at hs
    rename_i b hc
    simp at hs; subst hs
    refine ⟨(seqsFrom_append _ _ _).2 ⟨h1, by simp; omega⟩, by simp; omega, ?_, h4⟩
    simp [curEvs, hc] at h3
    simp [curEvs, ← h3]
  | enqueue k =>
    simp only [step?] at hs
    split at hs; · simp at hs
    split at hs; · simp at hs
    split at hs
    · simp at hs; subst hs; exact ⟨h1, h2, h3, h4⟩
    · simp at hs; subst hs
      exact upd_inv s k _ (fun _ => rfl) (fun _ => rfl) ⟨h1, h2, h3, h4⟩
  | sendStart k =>
    simp only [step?] at hs
    split at hs; · simp at hs
    split at hs
    · simp at hs; subst hs
      exact upd_inv s k _ (fun _ => rfl) (fun _ => rfl) ⟨h1, h2, h3, h4⟩
    · simp at hs
  | sendDone k keep =>
    simp only [step?] at hs
    split at hs; · simp at hs
    split at hs
    · simp at hs; subst hs
      exact upd_inv s k _ (fun b => by split <;> rfl) (fun b => by split <;> rfl) ⟨h1, h2, h3, h4⟩
    · simp at hs
  | commit k =>
    simp only [step?] at hs
    split at hs; · simp at hs
    rename_i b bs hf
    split at hs
    · simp at hs; subst hs
      rw [hf] at h1 h2 h3
      simp [seqsFrom] at h1
      refine ⟨h1.2, by simp at h2 ⊢; omega, ?_, ?_⟩
      · simp [curEvs] at h3 ⊢
        simpa [List.append_assoc, Function.comp_def] using h3
      · simp only [h4, List.filter_append, List.map_append]
        congr 1
        cases b.reset <;> simp [List.filter_map, Function.comp_def, filter_const_true]
    · simp at hs
  | stop =>
    simp only [step?] at hs
    split at hs; · simp at hs
    simp at hs; subst hs; exact ⟨h1, h2, h3, h4⟩

theorem reachable_inv (c : Cfg) (s : State) (hr : TS.Reachable (step? c) (init c) s) : BInv s :=
  TS.invariant_reachable (step? c) BInv (init c) (init_inv c) (fun s op s' => step_inv c s s' op) s hr

end FileD.Batcher
