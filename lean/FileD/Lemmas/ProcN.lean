/-
  M3 with any number of holders (after `fix: processor.Propagate`): the processor keeps the
  discipline of M2 for every chain in which no plain action breaks. Holders further down the
  chain hold older events; an event that passes the whole chain leaves no holder busy.
-/
import FileD.Lemmas.Proc
namespace FileD.Proc
open FileD.StreamProc (Op)

/-! ### shapes -/

def NoBrk (e : EvSpec) : Prop := ∀ i, e.vs.getD i .pass ≠ .brk

/-- positions ascending, sequence numbers descending: downstream holders hold older events -/
def HeldSorted (l : List (Nat × EvSpec)) : Prop :=
  l.Pairwise (fun a b => a.1 < b.1 ∧ b.2.seq < a.2.seq)

structure Shape (acts : List Act) (ps : PS) : Prop where
  busy    : ps.busy = (ps.held.map (·.1)).reverse
  sorted  : HeldSorted ps.held
  holders : ∀ p ∈ ps.held, ∃ f, acts[p.1]? = some (.holder f)
  nobrk   : ∀ p ∈ ps.held, NoBrk p.2

def seqsOf (ps : PS) : List Nat := ps.held.map (·.2.seq)

/-- what is held sits at or after position `idx` and is older than `b` -/
def Below (ps : PS) (idx b : Nat) : Prop := ∀ p ∈ ps.held, idx ≤ p.1 ∧ p.2.seq < b

theorem isBusy_iff {acts : List Act} [NoCol acts] {ps : PS} (hs : Shape acts ps) (i : Nat) :
    isBusy ps i = true ↔ ∃ p ∈ ps.held, p.1 = i := by
  simp [isBusy, hs.busy]

theorem busyTotal_shape {acts : List Act} [NoCol acts] {ps : PS} (hs : Shape acts ps) : busyTotal ps = ps.held.length := by
  simp [busyTotal, hs.busy]

/-- with everything held at or after `i`, holder `i` is busy exactly when it is the head -/
theorem head_cases {acts : List Act} [NoCol acts] {ps : PS} {i b : Nat} (hs : Shape acts ps) (hb : Below ps i b) :
    (heldAt ps i = none ∧ isBusy ps i = false ∧ Below ps (i+1) b) ∨
    (∃ x rest, ps.held = (i, x) :: rest ∧ heldAt ps i = some x ∧ isBusy ps i = true ∧
      (∀ p ∈ rest, i + 1 ≤ p.1 ∧ p.2.seq < x.seq) ∧ x.seq < b) := by
  cases hh : ps.held with
  | nil =>
    left
    refine ⟨by simp [heldAt, hh], ?_, by intro p hp; simp [hh] at hp⟩
    cases hbb : isBusy ps i with
    | false => rfl
    | true => obtain ⟨p, hp, _⟩ := (isBusy_iff hs i).1 hbb; simp [hh] at hp
  | cons p rest =>
    have hsorted := hs.sorted
    rw [hh] at hsorted
    have hp := hb p (by simp [hh])
    have hrest : ∀ q ∈ rest, p.1 < q.1 ∧ q.2.seq < p.2.seq := (List.pairwise_cons.1 hsorted).1
    by_cases hpi : p.1 = i
    · right
      obtain ⟨k, x⟩ := p
      simp only at hpi; subst hpi
      refine ⟨x, rest, rfl, by simp [heldAt, hh], ?_, ?_, hp.2⟩
      · exact (isBusy_iff hs k).2 ⟨(k, x), by simp [hh], rfl⟩
      · intro q hq; have := hrest q hq; exact ⟨by omega, this.2⟩
    · left
      have hlt : i < p.1 := by omega
      have hall : ∀ q ∈ ps.held, i + 1 ≤ q.1 := by
        intro q hq; rw [hh] at hq
        rcases List.mem_cons.1 hq with rfl | hq
        · omega
        · have := (hrest q hq).1; omega
      refine ⟨?_, ?_, fun q hq => ⟨hall q hq, (hb q hq).2⟩⟩
      · simp only [heldAt]
        have : ps.held.find? (fun q => q.1 == i) = none := by
          rw [List.find?_eq_none]; intro q hq; have := hall q hq; simp; omega
        rw [this]; rfl
      · cases hbb : isBusy ps i with
        | false => rfl
        | true => obtain ⟨q, hq, hqi⟩ := (isBusy_iff hs i).1 hbb; have := hall q hq; omega

theorem reset_noop {acts : List Act} [NoCol acts] {ps : PS} (hs : Shape acts ps) {i : Nat} (hne : ∀ p ∈ ps.held, p.1 ≠ i) :
    resetBusy ps i = ps := by
  have hb := hs.busy
  have hf : ps.busy.filter (· != i) = ps.busy := by
    rw [List.filter_eq_self]
    intro a ha; rw [hb] at ha
    simp only [List.mem_reverse, List.mem_map] at ha
    obtain ⟨p, hp, rfl⟩ := ha
    simpa using hne p hp
  cases ps with
  | mk busy held toks ins =>
    simp only [resetBusy] at hf ⊢
    rw [hf]

theorem shape_emit {acts : List Act} [NoCol acts] {ps : PS} (hs : Shape acts ps) (t : Op) : Shape acts (emit ps t) :=
  ⟨hs.busy, hs.sorted, hs.holders, hs.nobrk⟩

theorem shape_fin {acts : List Act} [NoCol acts] {ps : PS} (hs : Shape acts ps) (ev : Ev) (b : Bool) : Shape acts (fin ps ev b) := by
  cases ev <;> simp [fin] <;> first | exact hs | exact shape_emit hs _

theorem fin_held (ps : PS) (ev : Ev) (b : Bool) : (fin ps ev b).held = ps.held := by
  cases ev <;> simp [fin, emit]

theorem filter_keys_gt {rest : List (Nat × EvSpec)} {i : Nat} (h : ∀ p ∈ rest, i + 1 ≤ p.1) :
    rest.filter (fun p => p.1 != i) = rest := by
  rw [List.filter_eq_self]; intro p hp; have := h p hp; simp; omega

/-- the state after the head holder let go of its event -/
theorem flush_shape {acts : List Act} [NoCol acts] {ps : PS} {i : Nat} {x : EvSpec} {rest : List (Nat × EvSpec)}
    (hs : Shape acts ps) (hh : ps.held = (i, x) :: rest) (hrest : ∀ p ∈ rest, i + 1 ≤ p.1) (t : Op) :
    (resetBusy (emit (setHeld ps i none) t) i).held = rest ∧
    Shape acts (resetBusy (emit (setHeld ps i none) t) i) ∧
    (resetBusy (emit (setHeld ps i none) t) i).toks = ps.toks ++ [t] ∧
    (resetBusy (emit (setHeld ps i none) t) i).ins = ps.ins := by
  have hheld : (resetBusy (emit (setHeld ps i none) t) i).held = rest := by
    simp [resetBusy, emit, setHeld, hh, filter_keys_gt hrest]
  refine ⟨hheld, ⟨?_, ?_, ?_, ?_⟩, by simp [resetBusy, emit, setHeld], by simp [resetBusy, emit, setHeld]⟩
  · rw [hheld]
    simp only [resetBusy, emit, setHeld, hs.busy, hh, List.map_cons, List.reverse_cons]
    rw [List.filter_append]
    have h1 : (List.map (fun p : Nat × EvSpec => p.1) rest).reverse.filter (· != i) = (List.map (fun p : Nat × EvSpec => p.1) rest).reverse := by
      rw [List.filter_eq_self]; intro a ha
      simp only [List.mem_reverse, List.mem_map] at ha
      obtain ⟨p, hp, rfl⟩ := ha
      have := hrest p hp; simp; omega
    simp [h1]
  · rw [hheld]; have := hs.sorted; rw [hh] at this; exact (List.pairwise_cons.1 this).2
  · rw [hheld]; intro p hp; exact hs.holders p (by rw [hh]; exact List.mem_cons_of_mem _ hp)
  · rw [hheld]; intro p hp; exact hs.nobrk p (by rw [hh]; exact List.mem_cons_of_mem _ hp)

/-- the state after holder `i` (nothing held at or before it) took event `e` -/
theorem hold_shape {acts : List Act} [NoCol acts] {ps : PS} {i f : Nat} {e : EvSpec}
    (hs : Shape acts ps) (hgt : ∀ p ∈ ps.held, i + 1 ≤ p.1 ∧ p.2.seq < e.seq)
    (hget : acts[i]? = some (.holder f)) (hnb : NoBrk e) :
    (fin (markBusy (setHeld ps i (some e)) i) (.reg e) false).held = (i, e) :: ps.held ∧
    Shape acts (fin (markBusy (setHeld ps i (some e)) i) (.reg e) false) ∧
    (fin (markBusy (setHeld ps i (some e)) i) (.reg e) false).toks = ps.toks ++ [.hold e.seq] ∧
    (fin (markBusy (setHeld ps i (some e)) i) (.reg e) false).ins = ps.ins := by
  have hfil : ps.held.filter (fun p => p.1 != i) = ps.held := filter_keys_gt (fun p hp => (hgt p hp).1)
  have hnotbusy : ps.busy.contains i = false := by
    rw [hs.busy]
    cases hc : ((ps.held.map (·.1)).reverse).contains i with
    | false => rfl
    | true =>
      simp only [List.contains_eq_mem, List.mem_reverse, List.mem_map, decide_eq_true_eq] at hc
      obtain ⟨p, hp, hpi⟩ := hc
      have := (hgt p hp).1; omega
  have hmem : i ∉ ps.busy := by simpa using hnotbusy
  have hheld : (fin (markBusy (setHeld ps i (some e)) i) (.reg e) false).held = (i, e) :: ps.held := by
    simp [fin, emit, markBusy, setHeld, hfil, hmem]
  refine ⟨hheld, ⟨?_, ?_, ?_, ?_⟩, ?_, ?_⟩
  · rw [hheld]
    have hnb2 := hnotbusy
    rw [hs.busy] at hnb2
    simp only [fin, emit, markBusy, setHeld, hs.busy, hnb2, Bool.false_eq_true, ↓reduceIte, List.map_cons, List.reverse_cons]
  · rw [hheld]
    refine List.pairwise_cons.2 ⟨?_, hs.sorted⟩
    intro p hp; have := hgt p hp; exact ⟨by omega, this.2⟩
  · rw [hheld]; intro p hp
    rcases List.mem_cons.1 hp with rfl | hp
    · exact ⟨f, hget⟩
    · exact hs.holders p hp
  · rw [hheld]; intro p hp
    rcases List.mem_cons.1 hp with rfl | hp
    · exact hnb
    · exact hs.nobrk p hp
  · simp [fin, emit, markBusy, setHeld, hmem]
  · simp [fin, emit, markBusy, setHeld, hmem]

theorem markBusy_busy {ps : PS} {i : Nat} (h : isBusy ps i = true) : markBusy ps i = ps := by
  simp [markBusy, isBusy] at *; simp [h]

/-! ### the automaton side -/

/-- `c`: the event in hand; `fl`: re-injected events not yet disposed of (in flight) -/
structure DRel (d : DS) (ps : PS) (c : Option Nat) (fl : List Nat) : Prop where
  inhand : d.inhand = c
  held   : d.held.Perm (seqsOf ps)
  propd  : d.propd.Perm fl

/-- `b` separates what is held (older) from what is in flight or in hand (not older) -/
structure Ord (fl : List Nat) (c : Option Nat) (b : Nat) : Prop where
  fb : ∀ y ∈ fl, b ≤ y
  cb : ∀ q, c = some q → b ≤ q

/-- the role of the event being run through the chain -/
def EvCtx (ev : Ev) (c : Option Nat) (fl : List Nat) (b : Nat) : Prop :=
  match ev with
  | .reg e => NoBrk e ∧ b = e.seq ∧ ((c = some e.seq ∧ e.seq ∉ fl) ∨ (e.seq ∈ fl ∧ c ≠ some e.seq))
  | _ => True

/-- in hand / in flight after event `q` was disposed of -/
def disposedC (c : Option Nat) (q : Nat) : Option Nat := if c = some q then none else c
def disposedF (c : Option Nat) (fl : List Nat) (q : Nat) : List Nat := if c = some q then fl else fl.erase q

theorem drel_same_held {d : DS} {ps ps' : PS} {c : Option Nat} {fl : List Nat}
    (h : DRel d ps c fl) (hh : ps'.held = ps.held) : DRel d ps' c fl :=
  ⟨h.inhand, by simpa [seqsOf, hh] using h.held, h.propd⟩

theorem d_drop_cur {d : DS} {ps : PS} {c : Option Nat} {fl : List Nat} {q : Nat}
    (h : DRel d ps c fl) (hq : (c = some q ∧ q ∉ fl) ∨ (q ∈ fl ∧ c ≠ some q)) :
    ∃ d', drun d [.drop q] = some d' ∧ DRel d' ps (disposedC c q) (disposedF c fl q) := by
  rcases hq with ⟨hc, _⟩ | ⟨hf, hc⟩
  · have hi : d.inhand = some q := by rw [h.inhand, hc]
    refine ⟨{ d with inhand := none }, by simp [drun, dstep?, hi], ?_⟩
    simp only [disposedC, disposedF, hc, ↓reduceIte]
    exact ⟨rfl, h.held, h.propd⟩
  · have hi : d.inhand ≠ some q := by rw [h.inhand]; exact hc
    have hp : q ∈ d.propd := h.propd.symm.subset hf
    refine ⟨{ d with propd := d.propd.erase q }, by simp [drun, dstep?, hi, hp], ?_⟩
    simp only [disposedC, disposedF, hc, ↓reduceIte]
    exact ⟨h.inhand, h.held, h.propd.erase q⟩

theorem d_hold_cur {d : DS} {ps ps' : PS} {c : Option Nat} {fl : List Nat} {q : Nat}
    (h : DRel d ps c fl) (hq : (c = some q ∧ q ∉ fl) ∨ (q ∈ fl ∧ c ≠ some q))
    (hs : seqsOf ps' = q :: seqsOf ps) :
    ∃ d', drun d [.hold q] = some d' ∧ DRel d' ps' (disposedC c q) (disposedF c fl q) := by
  have hperm : (d.held ++ [q]).Perm (seqsOf ps') := by
    rw [hs]; exact (List.perm_append_singleton q d.held).trans (h.held.cons q)
  rcases hq with ⟨hc, _⟩ | ⟨hf, hc⟩
  · have hi : d.inhand = some q := by rw [h.inhand, hc]
    refine ⟨{ d with inhand := none, held := d.held ++ [q] }, by simp [drun, dstep?, hi], ?_⟩
    simp only [disposedC, disposedF, hc, ↓reduceIte]
    exact ⟨rfl, hperm, h.propd⟩
  · have hi : d.inhand ≠ some q := by rw [h.inhand]; exact hc
    have hp : q ∈ d.propd := h.propd.symm.subset hf
    refine ⟨{ d with propd := d.propd.erase q, held := d.held ++ [q] }, by simp [drun, dstep?, hi, hp], ?_⟩
    simp only [disposedC, disposedF, hc, ↓reduceIte]
    exact ⟨h.inhand, hperm, h.propd.erase q⟩

theorem d_out_cur {d : DS} {ps : PS} {c : Option Nat} {fl : List Nat} {q : Nat}
    (h : DRel d ps c fl) (hq : (c = some q ∧ q ∉ fl) ∨ (q ∈ fl ∧ c ≠ some q))
    (hempty : ps.held = []) (ho : Ord fl c q) :
    ∃ d', drun d [.out q] = some d' ∧ DRel d' ps (disposedC c q) (disposedF c fl q) := by
  have hheld : d.held = [] := by
    have := h.held; simp [seqsOf, hempty] at this; exact this
  have hguard : ∀ x ∈ d.propd ++ d.held ++ d.inhand.toList, q ≤ x := by
    intro x hx
    simp only [hheld, List.append_nil, List.mem_append] at hx
    rcases hx with hx | hx
    · exact ho.fb x (h.propd.subset hx)
    · rw [h.inhand] at hx
      cases hc : c with
      | none => simp [hc] at hx
      | some q' => simp [hc] at hx; subst hx; exact ho.cb _ hc
  rcases hq with ⟨hc, hnf⟩ | ⟨hf, hc⟩
  · have hi : d.inhand = some q := by rw [h.inhand, hc]
    have hnp : q ∉ d.propd := fun hp => hnf (h.propd.subset hp)
    refine ⟨{ d with inhand := none }, ?_, ?_⟩
    · simp only [drun, dstep?]; rw [if_pos hguard, if_neg hnp, if_pos hi]; rfl
    · simp only [disposedC, disposedF, hc, ↓reduceIte]
      exact ⟨rfl, h.held, h.propd⟩
  · have hp : q ∈ d.propd := h.propd.symm.subset hf
    refine ⟨{ d with propd := d.propd.erase q }, ?_, ?_⟩
    · simp only [drun, dstep?]; rw [if_pos hguard, if_pos hp]; rfl
    · simp only [disposedC, disposedF, hc, ↓reduceIte]
      exact ⟨h.inhand, h.held, h.propd.erase q⟩

theorem d_prop_head {d : DS} {ps ps0 : PS} {c : Option Nat} {fl : List Nat} {i : Nat} {x : EvSpec}
    {rest : List (Nat × EvSpec)} (h : DRel d ps c fl) (hh : ps.held = (i, x) :: rest) (h0 : ps0.held = rest) :
    ∃ d', drun d [.propagate x.seq] = some d' ∧ DRel d' ps0 c (x.seq :: fl) := by
  have hmem : x.seq ∈ d.held := h.held.symm.subset (by simp [seqsOf, hh])
  refine ⟨{ d with held := d.held.erase x.seq, propd := x.seq :: d.propd }, by simp [drun, dstep?, hmem], ?_⟩
  refine ⟨h.inhand, ?_, h.propd.cons _⟩
  have := h.held.erase x.seq
  simpa [seqsOf, hh, h0] using this

/-! ### one event through the chain -/

def PostN (acts : List Act) (r : Res) (ev : Ev) (ps' : PS) (d' : DS) (idx : Nat) (c : Option Nat)
    (fl : List Nat) (b : Nat) : Prop :=
  match r with
  | .passed => Shape acts ps' ∧ ps'.held = [] ∧ DRel d' ps' c fl
  | .stopped l =>
    idx ≤ l ∧ Shape acts ps' ∧ (∀ p ∈ ps'.held, l ≤ p.1 ∧ (p.2.seq < b ∨ ∃ e, ev = .reg e ∧ p.2.seq = b)) ∧
    (match ev with
     | .reg e => DRel d' ps' (disposedC c e.seq) (disposedF c fl e.seq)
     | .tmo => DRel d' ps' c fl
     | .child _ => False)
  | .halt _ => True

theorem disposed_flight {c : Option Nat} {fl : List Nat} {x : Nat} (hc : c ≠ some x) :
    disposedC c x = c ∧ disposedF c (x :: fl) x = fl := by
  simp [disposedC, disposedF, hc]

theorem below_mono {ps : PS} {idx b b' : Nat} (h : Below ps idx b) (hb : b ≤ b') : Below ps idx b' :=
  fun p hp => ⟨(h p hp).1, Nat.lt_of_lt_of_le (h p hp).2 hb⟩

theorem not_holder_not_key {acts : List Act} [NoCol acts] {ps : PS} (hs : Shape acts ps) {idx : Nat} {a : Act}
    (hget : acts[idx]? = some a) (hna : ∀ g, a ≠ .holder g) : ∀ p ∈ ps.held, p.1 ≠ idx := by
  intro p hp hpi
  obtain ⟨f, hf⟩ := hs.holders p hp
  rw [hpi, hget] at hf; cases hf; exact hna f rfl

theorem below_succ_of_not_key {ps : PS} {idx b : Nat} (h : Below ps idx b) (hne : ∀ p ∈ ps.held, p.1 ≠ idx) :
    Below ps (idx+1) b := by
  intro p hp; have := h p hp; have := hne p hp; exact ⟨by omega, (h p hp).2⟩

theorem runN (acts : List Act) [NoCol acts] :
    ∀ fuel,
      (∀ idx ev ps ps' r d c fl b, Shape acts ps → Below ps idx b → DRel d ps c fl → Ord fl c b →
        EvCtx ev c fl b → doActs fuel acts idx ev ps = (ps', r) →
        ∃ extra d', ps'.toks = ps.toks ++ extra ∧ drun d extra = some d' ∧ ps'.ins = ps.ins ∧
          PostN acts r ev ps' d' idx c fl b) ∧
      (∀ idx sk k ps ps' r d c fl b, Shape acts ps → Below ps (idx+1) b → DRel d ps c fl → Ord fl c b →
        spawnKids fuel acts idx sk k ps = (ps', r) →
        ∃ extra d', ps'.toks = ps.toks ++ extra ∧ drun d extra = some d' ∧ ps'.ins = ps.ins ∧
          (r = none → Shape acts ps' ∧ Below ps' (idx+1) b ∧ DRel d' ps' c fl ∧ (k ≠ 0 → ps'.held = []))) ∧
      (∀ i ps ps' r d c fl b x rest, Shape acts ps → ps.held = (i, x) :: rest →
        (∀ p ∈ rest, i + 1 ≤ p.1 ∧ p.2.seq < x.seq) → x.seq < b → DRel d ps c fl → Ord fl c b →
        flushAt fuel acts i ps = (ps', r) →
        ∃ extra d', ps'.toks = ps.toks ++ extra ∧ drun d extra = some d' ∧ ps'.ins = ps.ins ∧
          (r = none → Shape acts ps' ∧ Below ps' (i+1) b ∧ DRel d' ps' c fl)) := by
  intro fuel
  induction fuel with
  | zero =>
    refine ⟨?_, ?_, ?_⟩
    · intro idx ev ps ps' r d c fl b _ _ _ _ _ hf
      rw [doActs.eq_def] at hf; simp only at hf; cases hf
      exact ⟨[], d, by simp, rfl, rfl, trivial⟩
    · intro idx sk k ps ps' r d c fl b _ _ _ _ hf
      rw [spawnKids.eq_def] at hf; simp only at hf; cases hf
      exact ⟨[], d, by simp, rfl, rfl, fun h0 => by cases h0⟩
    · intro i ps ps' r d c fl b x rest _ _ _ _ _ _ hf
      rw [flushAt.eq_def] at hf; simp only at hf; cases hf
      exact ⟨[], d, by simp, rfl, rfl, fun h0 => by cases h0⟩
  | succ n ih =>
    obtain ⟨ihA, ihK, ihF⟩ := ih
    refine ⟨?_, ?_, ?_⟩
    · -- doActs
      intro idx ev ps ps' r d c fl b hs hb hd ho hev hf
      rw [doActs.eq_def] at hf; simp only at hf
      cases hget : acts[idx]? with
      | none =>
        rw [hget] at hf; simp only at hf; cases hf
        have hlen : acts.length ≤ idx := List.getElem?_eq_none_iff.1 hget
        have hempty : ps.held = [] := by
          cases hh : ps.held with
          | nil => rfl
          | cons p rest =>
            exfalso
            obtain ⟨f, hfh⟩ := hs.holders p (by simp [hh])
            have := (hb p (by simp [hh])).1
            have : acts[p.1]? = none := List.getElem?_eq_none_iff.2 (by omega)
            rw [this] at hfh; cases hfh
        exact ⟨[], d, by simp, rfl, rfl, hs, hempty, hd⟩
      | some a =>
        rw [hget] at hf; simp only at hf
        cases a with
        | collapser ci => exact absurd hget (NoCol.out _ _)
        | plain i =>
          have hnk := not_holder_not_key hs hget (by intro g hg; cases hg)
          have hb1 := below_succ_of_not_key hb hnk
          by_cases hsk : (!isBusy ps idx && skips ev idx) = true
          · rw [if_pos hsk] at hf
            obtain ⟨extra, d', ht, hdr, hin, hp⟩ := ihA _ _ _ _ _ _ _ _ _ hs hb1 hd ho hev hf
            refine ⟨extra, d', ht, hdr, hin, ?_⟩
            cases r with
            | passed => exact hp
            | halt w => trivial
            | stopped l => exact ⟨by have := hp.1; omega, hp.2⟩
          rw [if_neg hsk] at hf; simp only at hf
          rw [reset_noop hs hnk] at hf
          cases hv : plainVerdict ev i with
          | pass =>
            rw [hv] at hf
            obtain ⟨extra, d', ht, hdr, hin, hp⟩ := ihA _ _ _ _ _ _ _ _ _ hs hb1 hd ho hev hf
            refine ⟨extra, d', ht, hdr, hin, ?_⟩
            cases r with
            | passed => exact hp
            | halt w => trivial
            | stopped l => exact ⟨by have := hp.1; omega, hp.2⟩
          | brk =>
            exfalso
            cases ev with
            | reg e => exact hev.1 i (by simpa [plainVerdict] using hv)
            | tmo => simp [plainVerdict] at hv
            | child sk => simp [plainVerdict] at hv
          | discard =>
            rw [hv] at hf; simp only at hf; cases hf
            cases ev with
            | reg e =>
              obtain ⟨d', hdr, hd'⟩ := d_drop_cur hd hev.2.2
              refine ⟨[.drop e.seq], d', by simp [fin_toks], hdr, fin_ins _ _ _, ?_⟩
              refine ⟨Nat.le_refl _, shape_fin hs _ _, ?_, drel_same_held hd' (fin_held _ _ _)⟩
              intro p hp; rw [fin_held] at hp
              exact ⟨(hb1 p hp).1 |> fun h => by omega, Or.inl (hb p hp).2⟩
            | tmo =>
              refine ⟨[], d, by simp [fin_toks], rfl, fin_ins _ _ _, ?_⟩
              refine ⟨Nat.le_refl _, shape_fin hs _ _, ?_, drel_same_held hd (fin_held _ _ _)⟩
              intro p hp; rw [fin_held] at hp
              exact ⟨(hb1 p hp).1 |> fun h => by omega, Or.inl (hb p hp).2⟩
            | child sk => simp [plainVerdict] at hv
        | spawner =>
          have hnk := not_holder_not_key hs hget (by intro g hg; cases hg)
          have hb1 := below_succ_of_not_key hb hnk
          have step : ∀ {ps' r}, doActs n acts (idx+1) ev ps = (ps', r) →
              ∃ extra d', ps'.toks = ps.toks ++ extra ∧ drun d extra = some d' ∧ ps'.ins = ps.ins ∧
                PostN acts r ev ps' d' idx c fl b := by
            intro ps' r hf
            obtain ⟨extra, d', ht, hdr, hin, hp⟩ := ihA _ _ _ _ _ _ _ _ _ hs hb1 hd ho hev hf
            refine ⟨extra, d', ht, hdr, hin, ?_⟩
            cases r with
            | passed => exact hp
            | halt w => trivial
            | stopped l => exact ⟨by have := hp.1; omega, hp.2⟩
          by_cases hsk : (!isBusy ps idx && skips ev idx) = true
          · rw [if_pos hsk] at hf; exact step hf
          rw [if_neg hsk] at hf; simp only at hf
          cases ev with
          | reg e =>
            simp only at hf
            by_cases hk : e.kids = 0
            · rw [if_pos hk, reset_noop hs hnk] at hf; exact step hf
            · rw [if_neg hk] at hf
              cases hsp : spawnKids n acts idx e.kidSkip e.kids ps with
              | mk ps1 r1 =>
                rw [hsp] at hf
                obtain ⟨extra, d1, ht, hdr, hin, hok⟩ := ihK _ _ _ _ _ _ _ _ _ _ hs hb1 hd ho hsp
                cases r1 with
                | some why => simp only at hf; cases hf; exact ⟨extra, d1, ht, hdr, hin, trivial⟩
                | none =>
                  obtain ⟨hs1, _, hd1, hempty⟩ := hok rfl
                  have hempty := hempty hk
                  have hbt : busyTotal ps1 = 0 := by rw [busyTotal_shape hs1, hempty]; rfl
                  simp only [hbt, ↓reduceIte] at hf
                  rw [reset_noop hs1 (by intro p hp; rw [hempty] at hp; cases hp)] at hf
                  cases hf
                  exact ⟨extra, d1, ht, hdr, hin, hs1, hempty, hd1⟩
          | tmo => simp only at hf; rw [reset_noop hs hnk] at hf; exact step hf
          | child sk => simp only at hf; rw [reset_noop hs hnk] at hf; exact step hf
        | holder f =>
          -- what the holder does after it has (or has not) let go of its event
          have cont : ∀ {ps1 d1 extra1 ps' r}, Shape acts ps1 → Below ps1 (idx+1) b → DRel d1 ps1 c fl →
              ps1.toks = ps.toks ++ extra1 → drun d extra1 = some d1 → ps1.ins = ps.ins →
              doActs n acts (idx+1) ev (resetBusy ps1 idx) = (ps', r) →
              ∃ extra d', ps'.toks = ps.toks ++ extra ∧ drun d extra = some d' ∧ ps'.ins = ps.ins ∧
                PostN acts r ev ps' d' idx c fl b := by
            intro ps1 d1 extra1 ps' r hs1 hb1 hd1 ht1 hdr1 hin1 hf
            rw [reset_noop hs1 (by intro p hp; have := (hb1 p hp).1; omega)] at hf
            obtain ⟨extra, d', ht, hdr, hin, hp⟩ := ihA _ _ _ _ _ _ _ _ _ hs1 hb1 hd1 ho hev hf
            refine ⟨extra1 ++ extra, d', by simp [ht, ht1], drun_two hdr1 hdr, by rw [hin, hin1], ?_⟩
            cases r with
            | passed => exact hp
            | halt w => trivial
            | stopped l => exact ⟨by have := hp.1; omega, hp.2⟩
          -- the flush, when the holder is joining
          have mflush : ∀ {ps1 r1}, (if (heldAt ps idx).isSome = true then flushAt n acts idx ps else (ps, none)) = (ps1, r1) →
              ∃ extra1 d1, ps1.toks = ps.toks ++ extra1 ∧ drun d extra1 = some d1 ∧ ps1.ins = ps.ins ∧
                (r1 = none → Shape acts ps1 ∧ Below ps1 (idx+1) b ∧ DRel d1 ps1 c fl) := by
            intro ps1 r1 hm
            rcases head_cases hs hb with ⟨hnone, _, hb1⟩ | ⟨x, rest, hh, hsome, _, hrest, hxb⟩
            · rw [hnone] at hm; simp only [Option.isSome_none, Bool.false_eq_true, ↓reduceIte] at hm
              cases hm
              exact ⟨[], d, by simp, rfl, rfl, fun _ => ⟨hs, hb1, hd⟩⟩
            · rw [hsome] at hm; simp only [Option.isSome_some, ↓reduceIte] at hm
              exact ihF _ _ _ _ _ _ _ _ _ _ hs hh hrest hxb hd ho hm
          by_cases hsk : (!isBusy ps idx && skips ev idx) = true
          · rw [if_pos hsk] at hf
            rcases head_cases hs hb with ⟨_, _, hb1⟩ | ⟨x, rest, _, _, hbusy, _, _⟩
            · obtain ⟨extra, d', ht, hdr, hin, hp⟩ := ihA _ _ _ _ _ _ _ _ _ hs hb1 hd ho hev hf
              refine ⟨extra, d', ht, hdr, hin, ?_⟩
              cases r with
              | passed => exact hp
              | halt w => trivial
              | stopped l => exact ⟨by have := hp.1; omega, hp.2⟩
            · simp [hbusy] at hsk
          rw [if_neg hsk] at hf; simp only at hf
          cases ev with
          | tmo =>
            simp only at hf
            rcases head_cases hs hb with ⟨hnone, _, _⟩ | ⟨x, rest, hh, hsome, _, hrest, hxb⟩
            · rw [hnone] at hf
              simp only [Option.isSome_none, Bool.not_false, ↓reduceIte] at hf
              cases hf; exact ⟨[], d, by simp, rfl, rfl, trivial⟩
            · rw [hsome] at hf
              simp only [Option.isSome_some, Bool.not_true, Bool.false_eq_true, ↓reduceIte] at hf
              cases hfl : flushAt n acts idx ps with
              | mk ps1 r1 =>
                rw [hfl] at hf
                obtain ⟨extra, d1, ht, hdr, hin, hok⟩ := ihF _ _ _ _ _ _ _ _ _ _ hs hh hrest hxb hd ho hfl
                cases r1 with
                | some why => simp only at hf; cases hf; exact ⟨extra, d1, ht, hdr, hin, trivial⟩
                | none =>
                  obtain ⟨hs1, hb1, hd1⟩ := hok rfl
                  simp only at hf
                  rw [reset_noop hs1 (by intro p hp; have := (hb1 p hp).1; omega)] at hf
                  cases hf
                  refine ⟨extra, d1, ht, hdr, hin, Nat.le_refl _, hs1, ?_, hd1⟩
                  intro p hp; have := hb1 p hp; exact ⟨by omega, Or.inl this.2⟩
          | reg e =>
            simp only at hf
            cases hcls : joinCls (.reg e) f with
            | cont =>
              rw [hcls] at hf; simp only at hf
              rcases head_cases hs hb with ⟨hnone, _, hb1⟩ | ⟨x, rest, hh, hsome, hbusy, hrest, hxb⟩
              · rw [hnone] at hf
                simp only [Option.isSome_none, Bool.false_eq_true, ↓reduceIte] at hf
                exact cont (extra1 := []) hs hb1 hd (by simp) rfl rfl hf
              · rw [hsome] at hf
                simp only [Option.isSome_some, ↓reduceIte, markBusy_busy hbusy] at hf
                cases hf
                obtain ⟨d', hdr, hd'⟩ := d_drop_cur hd hev.2.2
                refine ⟨[.drop e.seq], d', by simp [fin_toks], hdr, fin_ins _ _ _, ?_⟩
                refine ⟨Nat.le_refl _, shape_fin hs _ _, ?_, drel_same_held hd' (fin_held _ _ _)⟩
                intro p hp; rw [fin_held] at hp
                exact ⟨(hb p hp).1, Or.inl (hb p hp).2⟩
            | start =>
              rw [hcls] at hf; simp only at hf
              cases hmf : (if (heldAt ps idx).isSome = true then flushAt n acts idx ps else (ps, none)) with
              | mk ps1 r1 =>
                rw [hmf] at hf
                obtain ⟨extra, d1, ht, hdr, hin, hok⟩ := mflush hmf
                cases r1 with
                | some why => simp only at hf; cases hf; exact ⟨extra, d1, ht, hdr, hin, trivial⟩
                | none =>
                  obtain ⟨hs1, hb1, hd1⟩ := hok rfl
                  simp only at hf; cases hf
                  have hbe : b = e.seq := hev.2.1
                  obtain ⟨hheld, hshape, htoks, hins⟩ := hold_shape hs1
                    (fun p hp => ⟨(hb1 p hp).1, by rw [← hbe]; exact (hb1 p hp).2⟩) hget hev.1
                  obtain ⟨d', hdr', hd'⟩ := d_hold_cur (ps' := fin (markBusy (setHeld ps1 idx (some e)) idx) (.reg e) false)
                    hd1 hev.2.2 (by simp [seqsOf, hheld])
                  refine ⟨extra ++ [.hold e.seq], d', by simp [htoks, ht], drun_two hdr hdr', by rw [hins, hin], ?_⟩
                  refine ⟨Nat.le_refl _, hshape, ?_, hd'⟩
                  intro p hp; rw [hheld] at hp
                  rcases List.mem_cons.1 hp with rfl | hp
                  · exact ⟨Nat.le_refl _, Or.inr ⟨e, rfl, by simp [hbe]⟩⟩
                  · have := hb1 p hp; exact ⟨by omega, Or.inl this.2⟩
            | other =>
              rw [hcls] at hf; simp only at hf
              cases hmf : (if (heldAt ps idx).isSome = true then flushAt n acts idx ps else (ps, none)) with
              | mk ps1 r1 =>
                rw [hmf] at hf
                obtain ⟨extra, d1, ht, hdr, hin, hok⟩ := mflush hmf
                cases r1 with
                | some why => simp only at hf; cases hf; exact ⟨extra, d1, ht, hdr, hin, trivial⟩
                | none =>
                  obtain ⟨hs1, hb1, hd1⟩ := hok rfl
                  simp only at hf
                  exact cont hs1 hb1 hd1 ht hdr hin hf
            | absent =>
              rw [hcls] at hf; simp only at hf
              cases hmf : (if (heldAt ps idx).isSome = true then flushAt n acts idx ps else (ps, none)) with
              | mk ps1 r1 =>
                rw [hmf] at hf
                obtain ⟨extra, d1, ht, hdr, hin, hok⟩ := mflush hmf
                cases r1 with
                | some why => simp only at hf; cases hf; exact ⟨extra, d1, ht, hdr, hin, trivial⟩
                | none =>
                  obtain ⟨hs1, hb1, hd1⟩ := hok rfl
                  simp only at hf
                  exact cont hs1 hb1 hd1 ht hdr hin hf
          | child sk =>
            have hcls : joinCls (.child sk) f = .absent := rfl
            simp only [hcls] at hf
            cases hmf : (if (heldAt ps idx).isSome = true then flushAt n acts idx ps else (ps, none)) with
            | mk ps1 r1 =>
              rw [hmf] at hf
              obtain ⟨extra, d1, ht, hdr, hin, hok⟩ := mflush hmf
              cases r1 with
              | some why => simp only at hf; cases hf; exact ⟨extra, d1, ht, hdr, hin, trivial⟩
              | none =>
                obtain ⟨hs1, hb1, hd1⟩ := hok rfl
                simp only at hf
                exact cont hs1 hb1 hd1 ht hdr hin hf
    · -- spawnKids
      intro idx sk k ps ps' r d c fl b hs hb hd ho hf
      cases k with
      | zero =>
        rw [spawnKids.eq_def] at hf; simp only at hf; cases hf
        exact ⟨[], d, by simp, rfl, rfl, fun _ => ⟨hs, hb, hd, fun h0 => absurd rfl h0⟩⟩
      | succ k =>
        rw [spawnKids.eq_def] at hf; simp only at hf
        cases hdo : doActs n acts (idx+1) (.child sk) ps with
        | mk ps1 r1 =>
          rw [hdo] at hf
          obtain ⟨extra, d1, ht, hdr, hin, hpost⟩ := ihA _ _ _ _ _ _ _ _ _ hs hb hd ho (by simp [EvCtx]) hdo
          cases r1 with
          | halt why => simp only at hf; cases hf; exact ⟨extra, d1, ht, hdr, hin, fun h0 => by cases h0⟩
          | stopped l => exact absurd hpost.2.2.2 (by simp)
          | passed =>
            simp only at hf
            obtain ⟨hs1, hempty, hd1⟩ := hpost
            have hb1 : Below ps1 (idx+1) b := by intro p hp; rw [hempty] at hp; cases hp
            obtain ⟨extra2, d2, ht2, hdr2, hin2, hok2⟩ := ihK _ _ _ _ _ _ _ _ _ _ hs1 hb1 hd1 ho hf
            refine ⟨extra ++ extra2, d2, by simp [ht2, ht], drun_two hdr hdr2, by rw [hin2, hin], fun h0 => ?_⟩
            obtain ⟨hs2, hb2, hd2, hk2⟩ := hok2 h0
            refine ⟨hs2, hb2, hd2, fun _ => ?_⟩
            by_cases hk0 : k = 0
            · subst hk0
              rw [spawnKids.eq_def] at hf
              cases n with
              | zero => simp only at hf; cases hf; cases h0
              | succ n => simp only at hf; cases hf; exact hempty
            · exact hk2 hk0
    · -- flushAt
      intro i ps ps' r d c fl b x rest hs hh hrest hxb hd ho hf
      rw [flushAt.eq_def] at hf; simp only at hf
      have hsome : heldAt ps i = some x := by simp [heldAt, hh]
      rw [hsome] at hf; simp only at hf
      obtain ⟨h0held, h0shape, h0toks, h0ins⟩ := flush_shape hs hh (fun p hp => (hrest p hp).1) (.propagate x.seq)
      obtain ⟨d0, hdr0, hd0⟩ := d_prop_head hd hh h0held
      generalize resetBusy (emit (setHeld ps i none) (.propagate x.seq)) i = ps0 at hf h0held h0shape h0toks h0ins hd0
      have hb0 : Below ps0 (i+1) x.seq := by intro p hp; rw [h0held] at hp; exact hrest p hp
      have ho0 : Ord (x.seq :: fl) c x.seq := by
        refine ⟨?_, ?_⟩
        · intro y hy; rcases List.mem_cons.1 hy with rfl | hy
          · exact Nat.le_refl _
          · exact Nat.le_of_lt (Nat.lt_of_lt_of_le hxb (ho.fb y hy))
        · intro q hq; exact Nat.le_of_lt (Nat.lt_of_lt_of_le hxb (ho.cb q hq))
      have hcne : c ≠ some x.seq := by
        intro hc; have := ho.cb _ hc; omega
      have hev0 : EvCtx (.reg x) c (x.seq :: fl) x.seq :=
        ⟨hs.nobrk (i, x) (by simp [hh]), rfl, Or.inr ⟨by simp, hcne⟩⟩
      cases hdo : doActs n acts (i+1) (.reg x) ps0 with
      | mk ps1 r1 =>
        rw [hdo] at hf
        obtain ⟨extra, d1, ht, hdr, hin, hpost⟩ := ihA _ _ _ _ _ _ _ _ _ h0shape hb0 hd0 ho0 hev0 hdo
        obtain ⟨hdc, hdf⟩ := disposed_flight (fl := fl) hcne
        cases r1 with
        | halt why =>
          simp only at hf; cases hf
          exact ⟨[.propagate x.seq] ++ extra, d1, by simp [ht, h0toks], drun_two hdr0 hdr, by rw [hin, h0ins], fun h0 => by cases h0⟩
        | passed =>
          simp only at hf; cases hf
          obtain ⟨hs1, hempty, hd1⟩ := hpost
          obtain ⟨d2, hdr2, hd2⟩ := d_out_cur hd1 (Or.inr ⟨by simp, hcne⟩) hempty ho0
          rw [hdc, hdf] at hd2
          refine ⟨[.propagate x.seq] ++ extra ++ [.out x.seq], d2, by simp [emit, ht, h0toks],
            drun_two (drun_two hdr0 hdr) hdr2, by simp [emit, hin, h0ins], fun _ => ?_⟩
          refine ⟨shape_emit hs1 _, ?_, drel_same_held hd2 (by simp [emit])⟩
          intro p hp; simp [emit, hempty] at hp
        | stopped l =>
          simp only at hf; cases hf
          obtain ⟨hl, hs1, hbl, hd1⟩ := hpost
          simp only at hd1
          rw [hdc, hdf] at hd1
          refine ⟨[.propagate x.seq] ++ extra, d1, by simp [ht, h0toks], drun_two hdr0 hdr, by rw [hin, h0ins], fun _ => ?_⟩
          refine ⟨hs1, ?_, hd1⟩
          intro p hp; have := hbl p hp
          refine ⟨by omega, ?_⟩
          rcases this.2 with h | ⟨e, _, h⟩ <;> omega

/-! ### the loops -/

def ItemsNoBrk (ins : List Item) : Prop := ∀ e, Item.ev e ∈ ins → NoBrk e

theorem drel_empty {d : DS} {ps : PS} (h : DRel d ps none []) (he : ps.held = []) : d = {} := by
  have h1 := h.inhand
  have h2 : d.held = [] := by have := h.held; simpa [seqsOf, he] using this
  have h3 : d.propd = [] := by have := h.propd; simpa using this
  cases d; simp_all

theorem drel_propd_nil {d : DS} {ps : PS} {c : Option Nat} (h : DRel d ps c []) : d.propd = [] := by
  have := h.propd; simpa using this

/-- the time-out event goes to the first busy holder -/
theorem timeoutAction_head {acts : List Act} [NoCol acts] {ps : PS} {k l : Nat} {x : EvSpec} {rest : List (Nat × EvSpec)}
    (hs : Shape acts ps) (hh : ps.held = (k, x) :: rest) (hl : ∀ p ∈ ps.held, l ≤ p.1) :
    timeoutAction ps l = k := by
  have hsorted := hs.sorted; rw [hh] at hsorted
  have hmin : ∀ p ∈ ps.held, k ≤ p.1 := by
    intro p hp; rw [hh] at hp
    rcases List.mem_cons.1 hp with rfl | hp
    · exact Nat.le_refl _
    · exact Nat.le_of_lt ((List.pairwise_cons.1 hsorted).1 p hp).1
  unfold timeoutAction
  by_cases hb : isBusy ps l = true
  · rw [if_pos hb]
    obtain ⟨p, hp, hpl⟩ := (isBusy_iff hs l).1 hb
    have h1 := hmin p hp
    have h2 := hl (k, x) (by simp [hh])
    simp only at h2; omega
  · rw [if_neg hb]
    have : ps.busy.min? = some k := by
      rw [List.min?_eq_some_iff]
      refine ⟨by rw [hs.busy]; simp [hh], ?_⟩
      intro a ha; rw [hs.busy] at ha
      simp only [List.mem_reverse, List.mem_map] at ha
      obtain ⟨p, hp, rfl⟩ := ha
      exact hmin p hp
    rw [this]; rfl

theorem procEvN (acts : List Act) [NoCol acts] :
    ∀ fuel ev idx ps ps' r d c b m, Shape acts ps → Below ps idx b → DRel d ps c [] → Ord [] c b →
      EvCtx ev c [] b → (∀ sk, ev ≠ .child sk) → (ev = .tmo → c = none ∧ b = m + 1) →
      (∀ q, c = some q → q ≤ m) → Above m ps.ins → ItemsNoBrk ps.ins →
      procEv fuel acts ev idx ps = (ps', r) →
      ∃ extra d', ps'.toks = ps.toks ++ extra ∧ drun d extra = some d' ∧
        ((∀ w, r ≠ .halt w) → ps'.held = [] ∧ Shape acts ps' ∧ d' = {} ∧ ∃ m', Above m' ps'.ins ∧ ItemsNoBrk ps'.ins) := by
  intro fuel
  induction fuel with
  | zero =>
    intro ev idx ps ps' r d c b m _ _ _ _ _ _ _ _ _ _ hf
    rw [procEv.eq_def] at hf; simp only at hf; cases hf
    exact ⟨[], d, by simp, rfl, fun h0 => absurd rfl (h0 _)⟩
  | succ n ih =>
    intro ev idx ps ps' r d c b m hs hb hd ho hev hnc htm hcm hab hio hf
    rw [procEv.eq_def] at hf; simp only at hf
    cases hdo : doActs n acts idx ev ps with
    | mk ps1 r1 =>
      rw [hdo] at hf
      obtain ⟨extra, d1, ht, hdr, hin, hpost⟩ := (runN acts n).1 _ _ _ _ _ _ _ _ _ hs hb hd ho hev hdo
      cases r1 with
      | halt why => simp only at hf; cases hf; exact ⟨extra, d1, ht, hdr, fun h0 => absurd rfl (h0 _)⟩
      | passed =>
        simp only at hf
        obtain ⟨hs1, hempty, hd1⟩ := hpost
        cases ev with
        | reg e =>
          simp only at hf; cases hf
          have hce : c = some e.seq := by
            rcases hev.2.2 with ⟨h, _⟩ | ⟨h, _⟩
            · exact h
            · simp at h
          have hbe : b = e.seq := hev.2.1
          obtain ⟨d2, hdr2, hd2⟩ := d_out_cur hd1 (Or.inl ⟨hce, by simp⟩) hempty (by rw [← hbe]; exact ho)
          simp only [disposedC, disposedF, hce, ↓reduceIte] at hd2
          refine ⟨extra ++ [.out e.seq], d2, by simp [emit, ht], drun_two hdr hdr2, fun _ => ?_⟩
          have hd2' : DRel d2 (emit ps1 (.out e.seq)) none [] := drel_same_held hd2 (by simp [emit])
          exact ⟨by simp [emit, hempty], shape_emit hs1 _, drel_empty hd2' (by simp [emit, hempty]),
            m, by simpa [emit, hin] using hab, by simpa [emit, hin] using hio⟩
        | tmo => simp only at hf; cases hf; exact ⟨extra, d1, ht, hdr, fun h0 => absurd rfl (h0 _)⟩
        | child sk => exact absurd rfl (hnc sk)
      | stopped last =>
        simp only at hf
        obtain ⟨_, hs1, hbl, hdpost⟩ := hpost
        -- nothing in hand any more, what is held is not newer than `m`
        have hd1 : DRel d1 ps1 none [] := by
          cases ev with
          | reg e =>
            have hce : c = some e.seq := by
              rcases hev.2.2 with ⟨h, _⟩ | ⟨h, _⟩
              · exact h
              · simp at h
            simp only [disposedC, disposedF, hce, ↓reduceIte] at hdpost
            exact hdpost
          | tmo => have := (htm rfl).1; subst this; exact hdpost
          | child sk => exact absurd rfl (hnc sk)
        have hle : ∀ p ∈ ps1.held, last ≤ p.1 ∧ p.2.seq ≤ m := by
          intro p hp
          refine ⟨(hbl p hp).1, ?_⟩
          cases ev with
          | reg e =>
            have hce : c = some e.seq := by
              rcases hev.2.2 with ⟨h, _⟩ | ⟨h, _⟩
              · exact h
              · simp at h
            have hbe : b = e.seq := hev.2.1
            have := hcm _ hce
            rcases (hbl p hp).2 with h | ⟨_, _, h⟩ <;> omega
          | tmo =>
            have := (htm rfl).2
            rcases (hbl p hp).2 with h | ⟨e, he, _⟩
            · omega
            · cases he
          | child sk => exact absurd rfl (hnc sk)
        by_cases hbt : busyTotal ps1 = 0
        · rw [if_pos hbt] at hf
          have hempty : ps1.held = [] := by
            rw [busyTotal_shape hs1] at hbt; exact List.eq_nil_of_length_eq_zero hbt
          cases hf
          exact ⟨extra, d1, ht, hdr, fun _ => ⟨hempty, hs1, drel_empty hd1 hempty, m, by simpa [hin] using hab, by simpa [hin] using hio⟩⟩
        · rw [if_neg hbt] at hf
          rw [hin] at hf
          cases hins : ps.ins with
          | nil => rw [hins] at hf; simp only at hf; cases hf; exact ⟨extra, d1, ht, hdr, fun h0 => absurd rfl (h0 _)⟩
          | cons it rest =>
            rw [hins] at hf hab hio
            have hio' : ItemsNoBrk rest := fun e he => hio e (List.mem_cons_of_mem _ he)
            cases it with
            | gap => simp only at hf; cases hf; exact ⟨extra, d1, ht, hdr, fun h0 => absurd rfl (h0 _)⟩
            | ev e' =>
              simp only at hf
              obtain ⟨hlt', hab'⟩ := (hab : m < e'.seq ∧ Above e'.seq rest)
              have hget : drun d1 [.get e'.seq] = some { d1 with inhand := some e'.seq } :=
                d_get (drel_propd_nil hd1) hd1.inhand
              have hs2 : Shape acts (emit { ps1 with ins := rest } (.get e'.seq)) := ⟨hs1.busy, hs1.sorted, hs1.holders, hs1.nobrk⟩
              have hb2 : Below (emit { ps1 with ins := rest } (.get e'.seq)) 0 e'.seq := by
                intro p hp; have := hle p (by simpa [emit] using hp); exact ⟨Nat.zero_le _, by omega⟩
              have hd2 : DRel { d1 with inhand := some e'.seq } (emit { ps1 with ins := rest } (.get e'.seq)) (some e'.seq) [] :=
                ⟨rfl, by simpa [seqsOf, emit] using hd1.held, hd1.propd⟩
              have hev2 : EvCtx (.reg e') (some e'.seq) [] e'.seq := ⟨hio e' (List.mem_cons_self ..), rfl, Or.inl ⟨rfl, by simp⟩⟩
              obtain ⟨extra2, d2, ht2, hdr2, hok2⟩ := ih (.reg e') 0 _ _ _ _ (some e'.seq) e'.seq e'.seq hs2 hb2 hd2
                ⟨by simp, by intro q hq; cases hq; exact Nat.le_refl _⟩ hev2 (by simp) (by simp)
                (by intro q hq; cases hq; exact Nat.le_refl _) (by simpa [emit] using hab') (by simpa [emit] using hio') hf
              refine ⟨extra ++ [.get e'.seq] ++ extra2, d2, by simp [ht2, emit, ht], ?_, hok2⟩
              exact drun_two (drun_two hdr hget) hdr2
            | tmo =>
              simp only at hf
              have hab2 : Above m rest := hab
              have hgt : drun d1 [.getTimeout] = some d1 := d_getTimeout (drel_propd_nil hd1) hd1.inhand
              -- something is held: the time-out goes to the head holder
              cases hh : ps1.held with
              | nil => rw [busyTotal_shape hs1, hh] at hbt; exact absurd rfl hbt
              | cons p0 rest0 =>
                obtain ⟨k, x⟩ := p0
                have hk : timeoutAction ps1 last = k := timeoutAction_head hs1 hh (fun p hp => (hle p hp).1)
                rw [hk] at hf
                have hs2 : Shape acts (emit { ps1 with ins := rest } .getTimeout) := ⟨hs1.busy, hs1.sorted, hs1.holders, hs1.nobrk⟩
                have hsorted := hs1.sorted; rw [hh] at hsorted
                have hb2 : Below (emit { ps1 with ins := rest } .getTimeout) k (m+1) := by
                  intro p hp
                  have hp' : p ∈ ps1.held := by simpa [emit] using hp
                  have := hle p hp'
                  refine ⟨?_, by omega⟩
                  rw [hh] at hp'
                  rcases List.mem_cons.1 hp' with rfl | hp'
                  · exact Nat.le_refl _
                  · exact Nat.le_of_lt ((List.pairwise_cons.1 hsorted).1 p hp').1
                have hd2 : DRel d1 (emit { ps1 with ins := rest } .getTimeout) none [] :=
                  ⟨hd1.inhand, by simpa [seqsOf, emit] using hd1.held, hd1.propd⟩
                obtain ⟨extra2, d2, ht2, hdr2, hok2⟩ := ih .tmo k _ _ _ _ none (m+1) m hs2 hb2 hd2
                  ⟨by simp, by simp⟩ (by simp [EvCtx]) (by simp) (by simp) (by simp)
                  (by simpa [emit] using hab2) (by simpa [emit] using hio') hf
                refine ⟨extra ++ [.getTimeout] ++ extra2, d2, by simp [ht2, emit, ht], ?_, hok2⟩
                exact drun_two (drun_two hdr hgt) hdr2

theorem shape_init (acts : List Act) [NoCol acts] (ins : List Item) : Shape acts (PS.init ins) := by
  refine ⟨rfl, List.Pairwise.nil, ?_, ?_⟩ <;> (intro p hp; simp [PS.init] at hp)

theorem dischargeN (acts : List Act) [NoCol acts] :
    ∀ fuel ps ps' r m, Shape acts ps → ps.held = [] → Above m ps.ins → ItemsNoBrk ps.ins →
      discharge fuel acts ps = (ps', r) →
      ∃ extra d', ps'.toks = ps.toks ++ extra ∧ drun {} extra = some d' := by
  intro fuel
  induction fuel with
  | zero =>
    intro ps ps' r m _ _ _ _ hf
    rw [discharge] at hf; cases hf; exact ⟨[], {}, by simp, rfl⟩
  | succ n ih =>
    intro ps ps' r m hs hempty hab hio hf
    rw [discharge] at hf
    cases hins : ps.ins with
    | nil => rw [hins] at hf; simp only at hf; cases hf; exact ⟨[], {}, by simp, rfl⟩
    | cons it rest =>
      rw [hins] at hf hab hio
      have hio' : ItemsNoBrk rest := fun e he => hio e (List.mem_cons_of_mem _ he)
      -- taking an item leaves the action state alone
      have hsT : ∀ t, Shape acts (emit { ps with ins := rest } t) := fun t => ⟨hs.busy, hs.sorted, hs.holders, hs.nobrk⟩
      have hbT : ∀ t b, Below (emit { ps with ins := rest } t) 0 b := by
        intro t b p hp; simp [emit, hempty] at hp
      cases it with
      | gap =>
        simp only at hf
        have hab2 : Above m rest := hab
        obtain ⟨extra2, d2, ht2, hdr2⟩ := ih _ _ _ m (hsT _) (by simp [emit, hempty]) (by simpa [emit] using hab2) (by simpa [emit] using hio') hf
        refine ⟨[.leave] ++ extra2, d2, by simp [ht2, emit], ?_⟩
        exact drun_two (by simp [drun, dstep?]) hdr2
      | ev e =>
        simp only at hf
        obtain ⟨hlt, hab2⟩ := (hab : m < e.seq ∧ Above e.seq rest)
        rw [procSeq.eq_def] at hf
        cases n with
        | zero => simp only at hf; cases hf; exact ⟨[.get e.seq], _, by simp [emit], d_get rfl rfl⟩
        | succ n =>
          simp only at hf
          cases hp : procEv n acts (.reg e) 0 (emit { ps with ins := rest } (.get e.seq)) with
          | mk ps1 r1 =>
            rw [hp] at hf
            have hd2 : DRel ({ ({} : DS) with inhand := some e.seq }) (emit { ps with ins := rest } (.get e.seq)) (some e.seq) [] :=
              ⟨rfl, by simp [seqsOf, emit, hempty], by simp⟩
            have hev2 : EvCtx (.reg e) (some e.seq) [] e.seq := ⟨hio e (List.mem_cons_self ..), rfl, Or.inl ⟨rfl, by simp⟩⟩
            obtain ⟨extra, d1, ht, hdr, hok⟩ := procEvN acts n (.reg e) 0 _ _ _ _ (some e.seq) e.seq e.seq (hsT _) (hbT _ _) hd2
              ⟨by simp, by intro q hq; cases hq; exact Nat.le_refl _⟩ hev2 (by simp) (by simp)
              (by intro q hq; cases hq; exact Nat.le_refl _) (by simpa [emit] using hab2) (by simpa [emit] using hio') hp
            have hget : drun ({} : DS) [.get e.seq] = some { ({} : DS) with inhand := some e.seq } := d_get rfl rfl
            cases r1 with
            | halt why =>
              simp only at hf; cases hf
              exact ⟨[.get e.seq] ++ extra, d1, by simp [ht, emit], drun_two hget hdr⟩
            | passed =>
              simp only at hf
              obtain ⟨he1, hs1, hd1, m', hab1, hio1⟩ := hok (by intro w hw; cases hw)
              subst hd1
              obtain ⟨extra2, d2, ht2, hdr2⟩ := ih _ _ _ m' hs1 he1 hab1 hio1 hf
              exact ⟨[.get e.seq] ++ extra ++ extra2, d2, by simp [ht2, ht, emit], drun_two (drun_two hget hdr) hdr2⟩
            | stopped l =>
              simp only at hf
              obtain ⟨he1, hs1, hd1, m', hab1, hio1⟩ := hok (by intro w hw; cases hw)
              subst hd1
              obtain ⟨extra2, d2, ht2, hdr2⟩ := ih _ _ _ m' hs1 he1 hab1 hio1 hf
              exact ⟨[.get e.seq] ++ extra ++ extra2, d2, by simp [ht2, ht, emit], drun_two (drun_two hget hdr) hdr2⟩
      | tmo =>
        simp only at hf
        have hab2 : Above m rest := hab
        rw [procSeq.eq_def] at hf
        cases n with
        | zero => simp only at hf; cases hf; exact ⟨[.getTimeout], _, by simp [emit], d_getTimeout rfl rfl⟩
        | succ n =>
          simp only at hf
          cases hp : procEv n acts .tmo 0 (emit { ps with ins := rest } .getTimeout) with
          | mk ps1 r1 =>
            rw [hp] at hf
            have hd2 : DRel ({} : DS) (emit { ps with ins := rest } .getTimeout) none [] :=
              ⟨rfl, by simp [seqsOf, emit, hempty], by simp⟩
            obtain ⟨extra, d1, ht, hdr, hok⟩ := procEvN acts n .tmo 0 _ _ _ _ none (m+1) m (hsT _) (hbT _ _) hd2
              ⟨by simp, by simp⟩ (by simp [EvCtx]) (by simp) (by simp) (by simp)
              (by simpa [emit] using hab2) (by simpa [emit] using hio') hp
            have hget : drun ({} : DS) [.getTimeout] = some ({} : DS) := d_getTimeout rfl rfl
            cases r1 with
            | halt why =>
              simp only at hf; cases hf
              exact ⟨[.getTimeout] ++ extra, d1, by simp [ht, emit], drun_two hget hdr⟩
            | passed =>
              simp only at hf
              obtain ⟨he1, hs1, hd1, m', hab1, hio1⟩ := hok (by intro w hw; cases hw)
              subst hd1
              obtain ⟨extra2, d2, ht2, hdr2⟩ := ih _ _ _ m' hs1 he1 hab1 hio1 hf
              exact ⟨[.getTimeout] ++ extra ++ extra2, d2, by simp [ht2, ht, emit], drun_two (drun_two hget hdr) hdr2⟩
            | stopped l =>
              simp only at hf
              obtain ⟨he1, hs1, hd1, m', hab1, hio1⟩ := hok (by intro w hw; cases hw)
              subst hd1
              obtain ⟨extra2, d2, ht2, hdr2⟩ := ih _ _ _ m' hs1 he1 hab1 hio1 hf
              exact ⟨[.getTimeout] ++ extra ++ extra2, d2, by simp [ht2, ht, emit], drun_two (drun_two hget hdr) hdr2⟩

end FileD.Proc
