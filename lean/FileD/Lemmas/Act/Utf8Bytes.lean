/- Helper lemmas for the convert_utf8_bytes scanner model (C13): every slice is in bounds. -/
import FileD.Model.Act.Utf8Bytes
import FileD.Lemmas.Act.Subst
namespace FileD.Act.Utf8Bytes
open FileD GoSlice
open FileD.Act.Subst (slice?_ok sliceTo?_ok sliceFrom?_ok)

theorem indexByte_bounds (s : Bytes) (c : UInt8) :
    indexByte s c = -1 ∨ (0 ≤ indexByte s c ∧ indexByte s c < s.length) := by
  unfold indexByte
  cases h : s.findIdx? (· == c) with
  | none => left; rfl
  | some i =>
    right
    have := (List.findIdx?_eq_some_iff_getElem.mp h).1
    simp
    omega

theorem hexRun_ok (s : Bytes) (fuel : Nat) (sb : Bytes) (pos : Nat) (h : pos ≤ s.length) :
    ∃ sb' pos', hexRun s fuel sb pos = .ok (sb', pos') ∧ pos' ≤ s.length := by
  induction fuel generalizing sb pos with
  | zero => exact ⟨sb, pos, rfl, h⟩
  | succ n ih =>
    unfold hexRun
    by_cases hc : (s.length : Int) - pos ≥ 4
    · rw [if_pos hc]
      rw [slice?_ok s pos (pos + 2) (by omega) (by omega) (by omega)]
      simp only [bind, Except.bind]
      split
      · rw [slice?_ok s (pos + 2) (pos + 4) (by omega) (by omega) (by omega)]
        exact ih _ (pos + 4) (by omega)
      · exact ⟨sb, pos, rfl, h⟩
    · rw [if_neg hc]
      exact ⟨sb, pos, rfl, h⟩

/-- normalise list lengths and close the arithmetic goal -/
macro "len_omega" : tactic =>
  `(tactic| ((try simp only [List.length_drop, List.length_take, List.length_cons, List.length_append,
      List.length_nil, Int.toNat_natCast, Int.reduceToNat] at *); omega))

macro "done_ok" : tactic => `(tactic| (refine ⟨_, _, rfl, ?_⟩; len_omega))

/-- walk through every branch: rewrite in-bounds slices, split conditionals, close leaves -/
macro "walk" : tactic =>
  `(tactic| repeat (first
      | done_ok
      | simp (disch := len_omega) only [sliceTo?_ok, sliceFrom?_ok, slice?_ok]
      | split))

/-- one `switch` execution on a non-empty string succeeds and never lengthens the string -/
theorem switchStep_ok (cfg : Cfg) (s : Bytes) (hne : s ≠ []) :
    ∃ out s', switchStep cfg s = .ok (out, s') ∧ s'.length ≤ s.length := by
  obtain ⟨c, t, rfl⟩ : ∃ c t, s = c :: t := by
    cases s with
    | nil => exact absurd rfl hne
    | cons c t => exact ⟨c, t, rfl⟩
  have h0 : idx? (c :: t) 0 = .ok c := by simp [idx?]
  have hs1 : sliceFrom? (c :: t) 1 = .ok t := by
    rw [sliceFrom?_ok (c :: t) 1 (by omega) (by len_omega)]
    simp
  unfold switchStep
  simp only [h0, hs1, bind, Except.bind, pure, Except.pure]
  by_cases hbs : c = BS
  · rw [if_pos hbs]
    done_ok
  · rw [if_neg hbs]
    by_cases hu : c = 117 ∨ c = 85
    · rw [if_pos hu]
      generalize (if c = 85 then 8 else 4 : Nat) = size
      walk
    · rw [if_neg hu]
      by_cases hx : c = 120
      · rw [if_pos hx]
        by_cases hl2 : t.length < 2
        · rw [if_pos hl2]
          done_ok
        · rw [if_neg hl2]
          rw [sliceTo?_ok t 2 (by omega) (by omega)]
          simp only []
          obtain ⟨sb', pos', hrun, hpos⟩ := hexRun_ok t t.length (List.take (2 : Int).toNat t) 2 (by omega)
          rw [hrun]
          simp only []
          walk
      · rw [if_neg hx]
        walk

/-- the scanning loop ends in a value whenever the fuel exceeds the length of the rest -/
theorem loop_ok (cfg : Cfg) (fuel : Nat) (s buf : Bytes) (h : s.length < fuel) :
    ∃ out, loop cfg fuel s buf = .ok out := by
  induction fuel generalizing s buf with
  | zero => omega
  | succ n ih =>
    unfold loop
    by_cases he : s = []
    · rw [if_pos he]; exact ⟨_, rfl⟩
    · rw [if_neg he]
      obtain ⟨out, s1, hstep, hlen⟩ := switchStep_ok cfg s he
      simp only [hstep, bind, Except.bind]
      rcases indexByte_bounds s1 BS with hi | ⟨hi0, hi1⟩
      · rw [if_pos (by omega)]; exact ⟨_, rfl⟩
      · rw [if_neg (by omega)]
        rw [sliceTo?_ok s1 _ hi0 (by omega), sliceFrom?_ok s1 _ (by omega) (by omega)]
        simp only []
        apply ih
        len_omega

theorem convert_ok (cfg : Cfg) (s : Bytes) : ∃ out, convert cfg s = .ok out := by
  unfold convert
  rcases indexByte_bounds s BS with hi | ⟨hi0, hi1⟩
  · simp only [hi]; exact ⟨_, rfl⟩
  · simp only []
    rw [if_neg (by omega)]
    rw [sliceTo?_ok s _ hi0 (by omega), sliceFrom?_ok s _ (by omega) (by omega)]
    simp only [bind, Except.bind]
    obtain ⟨r, hr⟩ := loop_ok cfg ((List.drop (indexByte s BS + 1).toNat s).length + 1)
      (List.drop (indexByte s BS + 1).toNat s) (List.take (indexByte s BS).toNat s) (by omega)
    rw [hr]
    exact ⟨_, rfl⟩

end FileD.Act.Utf8Bytes
