/- Helper lemmas for the hash normalizer tokenizer model (C13): every index / slice is in bounds. -/
import FileD.Model.Act.HashTok
import FileD.Lemmas.Act.Subst
namespace FileD.Act.HashTok
open FileD GoSlice
open FileD.Act.Subst (slice?_ok sliceFrom?_ok)

theorem runLen_le (data : Bytes) (s : Nat) (c : UInt8) : runLen data s c ≤ data.length - s := by
  unfold runLen
  have h := (List.takeWhile_prefix (fun x => x == c) (l := data.drop s)).length_le
  simpa using h

theorem idx?_lt {α} (b : List α) (i : Nat) (h : i < b.length) : ∃ x, idx? b (i : Int) = .ok x := by
  unfold idx?
  have : ¬ ((i : Int) < 0) := by omega
  rw [if_neg this]
  simp [List.getElem?_eq_getElem h]

/-- what the scan loop maintains: `pos0` is where the scan started -/
def Inv (pos0 : Nat) (data : Bytes) (i : Nat) (st : St) : Prop :=
  pos0 ≤ i ∧ (st.cur ≠ 0 → 1 ≤ st.counter ∧ pos0 ≤ st.start ∧ st.start < i ∧ st.start < data.length)

/-- what a returned token satisfies -/
def Good (pos0 : Nat) (data : Bytes) : Option (Nat × Nat × Nat) → Prop
  | none => True
  | some (_, b, e) => pos0 ≤ b ∧ b ≤ data.length ∧ e ≤ data.length ∧ pos0 < e

theorem scan_ok (has : Nat → Bool) (data : Bytes) (pos0 : Nat) (fuel i : Nat) (st : St)
    (hinv : Inv pos0 data i st) (hf : data.length - i < fuel) :
    ∃ r, scan has data fuel i st = .ok r ∧ Good pos0 data r := by
  induction fuel generalizing i st with
  | zero => omega
  | succ n ih =>
    obtain ⟨hpi, hst⟩ := hinv
    unfold scan
    by_cases hlt : i < data.length
    · rw [if_pos hlt]
      obtain ⟨b, hb⟩ := idx?_lt data i hlt
      simp only [hb, bind, Except.bind]
      have hf' : data.length - (i + 1) < n := by omega
      cases hc : classify has b with
      | other =>
        simp only []
        exact ih (i + 1) st ⟨by omega, fun h => by have := hst h; omega⟩ hf'
      | opn p =>
        simp only []
        apply ih (i + 1) _ _ hf'
        refine ⟨by omega, ?_⟩
        by_cases h0 : st.cur = 0
        · simp only [h0, if_true]
          intro _
          exact ⟨by omega, hpi, by omega, hlt⟩
        · simp only [h0, if_false]
          by_cases hp : st.cur = p
          · simp only [hp, if_true]
            intro _
            have := hst h0
            exact ⟨by omega, this.2.1, by omega, this.2.2.2⟩
          · simp only [hp, if_false]
            intro _
            have := hst h0
            exact ⟨this.1, this.2.1, by omega, this.2.2.2⟩
      | cls p =>
        simp only []
        by_cases hp : st.cur ≠ p
        · rw [if_pos hp]
          exact ih (i + 1) st ⟨by omega, fun h => by have := hst h; omega⟩ hf'
        · rw [if_neg hp]
          by_cases hcnt : st.counter - 1 > 0
          · rw [if_pos hcnt]
            apply ih (i + 1) _ _ hf'
            refine ⟨by omega, fun h => ?_⟩
            have := hst h
            exact ⟨by simp only []; omega, this.2.1, by simp only []; omega, this.2.2.2⟩
          · rw [if_neg hcnt]
            refine ⟨_, rfl, ?_⟩
            by_cases h0 : st.cur = 0
            · -- cur = 0 = p: start is whatever it is; still need the bounds
              -- this case returns (p, st.start, i+1); with cur = 0 nothing is known about start,
              -- but classify never yields p = 0; we keep the proof honest by deriving p ≠ 0
              exfalso
              have hp0 : p = 0 := by
                have : st.cur = p := by
                  by_cases h : st.cur = p
                  · exact h
                  · exact absurd h hp
                omega
              subst hp0
              unfold classify at hc
              repeat (first | split at hc | cases hc)
            · have := hst h0
              exact ⟨this.2.1, by omega, by omega, by omega⟩
      | quote p =>
        simp only []
        by_cases h0 : st.cur = 0
        · rw [if_pos h0]
          have hk := runLen_le data (i + 1) b
          apply ih _ _ _ (by omega)
          refine ⟨by omega, fun _ => ⟨by simp only []; omega, hpi, by simp only []; omega, hlt⟩⟩
        · rw [if_neg h0]
          have hs := hst h0
          by_cases hp : st.cur = p
          · rw [if_pos hp]
            have hesc : ∃ e, escaped data i = .ok e := by
              unfold escaped
              by_cases hi : i > 0
              · rw [if_pos hi]
                obtain ⟨x, hx⟩ := idx?_lt data (i - 1) (by omega)
                have : ((i - 1 : Nat) : Int) = (i : Int) - 1 := by omega
                rw [this] at hx
                simp only [hx, bind, Except.bind, pure, Except.pure]
                exact ⟨_, rfl⟩
              · rw [if_neg hi]; exact ⟨_, rfl⟩
            obtain ⟨e, he⟩ := hesc
            simp only [he]
            cases e with
            | true =>
              simp only [if_true]
              exact ih (i + 1) st ⟨by omega, fun h => by have := hst h; omega⟩ hf'
            | false =>
              simp only [Bool.false_eq_true, if_false]
              have hk := runLen_le data (i + 1) b
              by_cases htmp : (st.counter : Int) - 1 - (runLen data (i + 1) b : Nat) > 0
              · rw [if_pos htmp]
                apply ih _ _ _ (by omega)
                exact ⟨by omega, fun h => by have := hst h; omega⟩
              · rw [if_neg htmp]
                refine ⟨_, rfl, ?_⟩
                exact ⟨hs.2.1, by omega, by omega, by omega⟩
          · rw [if_neg hp]
            exact ih (i + 1) st ⟨by omega, fun h => by have := hst h; omega⟩ hf'
    · rw [if_neg hlt]
      by_cases h0 : st.cur ≠ 0
      · rw [if_pos h0]
        have := hst h0
        exact ⟨_, rfl, this.2.1, by omega, by omega, by omega⟩
      · rw [if_neg h0]
        exact ⟨_, rfl, trivial⟩

theorem nextToken_ok (has : Nat → Bool) (data : Bytes) (pos : Nat) :
    ∃ r, nextToken has data pos = .ok r ∧ Good pos data r := by
  unfold nextToken
  exact scan_ok has data pos _ pos ⟨0, 0, 0⟩ ⟨Nat.le_refl _, fun h => absurd rfl h⟩ (by omega)

theorem norm_ok (has : Nat → Bool) (data : Bytes) (fuel pos : Nat) (out : Bytes)
    (hp : pos ≤ data.length) (hf : data.length - pos + 1 < fuel) :
    ∃ r, norm has data fuel pos out = .ok r := by
  induction fuel generalizing pos out with
  | zero => omega
  | succ n ih =>
    unfold norm
    obtain ⟨r, hr, hg⟩ := nextToken_ok has data pos
    simp only [hr, bind, Except.bind]
    cases r with
    | none =>
      simp only []
      rw [sliceFrom?_ok data pos (by omega) (by omega)]
      exact ⟨_, rfl⟩
    | some t =>
      obtain ⟨p, b, e⟩ := t
      simp only [Good] at hg
      simp only []
      rw [slice?_ok data pos b (by omega) (by omega) (by omega)]
      simp only []
      exact ih e _ hg.2.2.1 (by omega)

theorem normalize_ok (has : Nat → Bool) (data : Bytes) : ∃ r, normalize has data = .ok r := by
  unfold normalize
  exact norm_ok has data _ 0 [] (by omega) (by omega)

end FileD.Act.HashTok
