/- Helper lemmas for the substitution-filter model (C13). -/
import FileD.Model.Act.Subst
namespace FileD.Act.Subst
open FileD GoSlice

theorem slice?_ok {α} (b : List α) (lo hi : Int) (h1 : 0 ≤ lo) (h2 : lo ≤ hi) (h3 : hi ≤ b.length) :
    slice? b lo hi = .ok ((b.drop lo.toNat).take (hi.toNat - lo.toNat)) := by
  simp [slice?, h1, h2, h3]

theorem sliceTo?_ok {α} (b : List α) (hi : Int) (h1 : 0 ≤ hi) (h3 : hi ≤ b.length) :
    sliceTo? b hi = .ok (b.take hi.toNat) := by
  simp [sliceTo?, slice?, h1, h3]

theorem sliceFrom?_ok {α} (b : List α) (lo : Int) (h1 : 0 ≤ lo) (h3 : lo ≤ b.length) :
    sliceFrom? b lo = .ok (b.drop lo.toNat) := by
  unfold sliceFrom? slice?
  rw [if_pos ⟨h1, h3, Int.le_refl _⟩]
  congr 1
  apply List.take_of_length_le
  simp

theorem isPrefixOf_length {sub l : Bytes} (h : sub.isPrefixOf l = true) : sub.length ≤ l.length := by
  have := List.isPrefixOf_iff_prefix.mp h
  exact this.length_le

/-- a found index lies inside the slice and leaves room for the needle -/
theorem indexFrom_bounds (sub : Bytes) (s : Bytes) (i : Nat) :
    indexFrom sub s i = -1 ∨
      ((i : Int) ≤ indexFrom sub s i ∧ indexFrom sub s i + sub.length ≤ (i : Int) + s.length) := by
  induction s generalizing i with
  | nil =>
    by_cases h : sub = []
    · simp [indexFrom, h]
    · simp [indexFrom, h]
  | cons c cs ih =>
    simp only [indexFrom]
    split
    · rename_i hp
      right
      have := isPrefixOf_length hp
      simp at this ⊢
      omega
    · rcases ih (i + 1) with h | ⟨h1, h2⟩
      · left; exact h
      · right
        simp at h1 h2 ⊢
        omega

theorem index_bounds (s sub : Bytes) :
    index s sub = -1 ∨ (0 ≤ index s sub ∧ index s sub + sub.length ≤ s.length) := by
  have := indexFrom_bounds sub s 0
  simpa [index] using this

theorem lastIndexFrom_bounds (sub : Bytes) (s : Bytes) (i : Nat) :
    lastIndexFrom sub s i = -1 ∨
      ((i : Int) ≤ lastIndexFrom sub s i ∧ lastIndexFrom sub s i + sub.length ≤ (i : Int) + s.length) := by
  induction s generalizing i with
  | nil =>
    by_cases h : sub = []
    · simp [lastIndexFrom, h]
    · simp [lastIndexFrom, h]
  | cons c cs ih =>
    simp only [lastIndexFrom]
    split
    · rename_i hne
      rcases ih (i + 1) with h | ⟨h1, h2⟩
      · exact absurd h hne
      · right
        simp at h1 h2 ⊢
        omega
    · split
      · rename_i hp
        right
        have := isPrefixOf_length hp
        simp at this ⊢
        omega
      · left; rfl

theorem lastIndex_bounds (s sub : Bytes) :
    lastIndex s sub = -1 ∨ (0 ≤ lastIndex s sub ∧ lastIndex s sub + sub.length ≤ s.length) := by
  have := lastIndexFrom_bounds sub s 0
  simpa [lastIndex] using this

theorem applyCut_ok (m : CutMode) (c : Nat) (src : Bytes) : ∃ out, applyCut m c src = .ok out := by
  unfold applyCut
  split
  · exact ⟨_, rfl⟩
  · rename_i h
    cases m with
    | first => exact ⟨_, sliceTo?_ok src c (by omega) (by omega)⟩
    | last => exact ⟨_, sliceFrom?_ok src _ (by omega) (by omega)⟩

theorem trimToLeft_ok (cutset src : Bytes) : ∃ out, trimToLeft cutset src = .ok out := by
  unfold trimToLeft
  rcases index_bounds src cutset with h | ⟨h1, h2⟩
  · simp [h]
  · split
    · exact ⟨_, sliceFrom?_ok src _ h1 (by omega)⟩
    · exact ⟨_, rfl⟩

theorem trimToRight_ok (cutset src : Bytes) : ∃ out, trimToRight cutset src = .ok out := by
  unfold trimToRight
  rcases lastIndex_bounds src cutset with h | ⟨h1, h2⟩
  · simp [h]
  · split
    · exact ⟨_, sliceTo?_ok src _ (by omega) h2⟩
    · exact ⟨_, rfl⟩

theorem applyTrimTo_ok (m : TrimMode) (cutset src : Bytes) : ∃ out, applyTrimTo m cutset src = .ok out := by
  cases m with
  | left => exact trimToLeft_ok cutset src
  | right => exact trimToRight_ok cutset src
  | all =>
    obtain ⟨s1, h1⟩ := trimToLeft_ok cutset src
    simp only [applyTrimTo, h1, bind, Except.bind]
    exact trimToRight_ok cutset s1

/-- shape of one row of `FindAllSubmatchIndex` for group `g`: both ends present, and either a
    -1 (group did not participate) or a range inside `src` -/
def GroupOk (src : Bytes) (ix : List Int) (g : Nat) : Prop :=
  ∃ a b, idx? ix ((g * 2 : Nat) : Int) = .ok a ∧ idx? ix ((g * 2 + 1 : Nat) : Int) = .ok b ∧
    (a = -1 ∨ b = -1 ∨ (0 ≤ a ∧ a ≤ b ∧ b ≤ src.length))

def ReShape (src : Bytes) (groups : List Nat) (matchIdx : List (List Int)) : Prop :=
  ∀ ix ∈ matchIdx, ∀ g ∈ groups, GroupOk src ix g

theorem reGroups_ok (src sep : Bytes) (ix : List Int) (gs : List Nat) (buf : Bytes)
    (h : ∀ g ∈ gs, GroupOk src ix g) : ∃ out, reGroups src sep ix gs buf = .ok out := by
  induction gs generalizing buf with
  | nil => exact ⟨_, rfl⟩
  | cons g gs ih =>
    obtain ⟨a, b, ha, hb, hab⟩ := h g (by simp)
    have ih' := fun buf => ih buf (fun g' hg' => h g' (by simp [hg']))
    simp only [reGroups, ha, hb, bind, Except.bind]
    by_cases hm : a = -1 ∨ b = -1
    · simp only [hm, if_true]
      exact ih' buf
    · simp only [hm, if_false]
      have hr : 0 ≤ a ∧ a ≤ b ∧ b ≤ src.length := by
        rcases hab with h1 | h1 | h1
        · exact absurd (Or.inl h1) hm
        · exact absurd (Or.inr h1) hm
        · exact h1
      rw [slice?_ok src a b hr.1 hr.2.1 hr.2.2]
      exact ih' _

theorem reMatches_ok (src sep : Bytes) (groups : List Nat) (ms : List (List Int)) (buf : Bytes)
    (h : ReShape src groups ms) : ∃ out, reMatches src sep groups ms buf = .ok out := by
  induction ms generalizing buf with
  | nil => exact ⟨_, rfl⟩
  | cons ix rest ih =>
    obtain ⟨b1, h1⟩ := reGroups_ok src sep ix groups buf (h ix (by simp))
    simp only [reMatches, h1, bind, Except.bind]
    exact ih b1 (fun ix' hix' => h ix' (by simp [hix']))

theorem applyRe_ok (groups : List Nat) (sep : Bytes) (e : Bool) (ms : List (List Int)) (src : Bytes)
    (h : ReShape src groups ms) : ∃ out, applyRe groups sep e ms src = .ok out := by
  unfold applyRe
  split
  · exact ⟨_, rfl⟩
  · split
    · split <;> exact ⟨_, rfl⟩
    · exact reMatches_ok src sep groups ms [] h

end FileD.Act.Subst
