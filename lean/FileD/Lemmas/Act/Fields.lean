/- Helper lemmas for the rename / move tree model (C13): well-formedness is preserved. -/
import FileD.Model.Act.Fields
import FileD.Spec.C13
namespace FileD.Act.Fields
open FileD JTree SpecC13

theorem wfKVs_iff (kvs : KVs) : wfKVs kvs = true ↔ ∀ kv ∈ kvs, wf kv.2 = true := by
  induction kvs with
  | nil => simp [wfKVs]
  | cons kv r ih =>
    obtain ⟨k, v⟩ := kv
    simp [wfKVs, ih]

theorem wfKVs_set {kvs : KVs} (h : wfKVs kvs = true) (i : Nat) (k : Bytes) {v : JTree} (hv : wf v = true) :
    wfKVs (kvs.set i (k, v)) = true := by
  rw [wfKVs_iff] at h ⊢
  intro kv hkv
  rcases List.mem_or_eq_of_mem_set hkv with h1 | h1
  · exact h kv h1
  · subst h1; exact hv

theorem wfKVs_append {a b : KVs} (ha : wfKVs a = true) (hb : wfKVs b = true) : wfKVs (a ++ b) = true := by
  rw [wfKVs_iff] at ha hb ⊢
  intro kv hkv
  rcases List.mem_append.mp hkv with h | h
  · exact ha kv h
  · exact hb kv h

theorem wfKVs_dropLast {kvs : KVs} (h : wfKVs kvs = true) : wfKVs kvs.dropLast = true := by
  rw [wfKVs_iff] at h ⊢
  intro kv hkv
  exact h kv (List.dropLast_subset kvs hkv)

theorem wfKVs_take {kvs : KVs} (h : wfKVs kvs = true) (n : Nat) : wfKVs (kvs.take n) = true := by
  rw [wfKVs_iff] at h ⊢
  intro kv hkv
  exact h kv (List.take_subset n kvs hkv)

theorem wf_of_lookup {kvs : KVs} (h : wfKVs kvs = true) {k : Bytes} {v : JTree} (hl : lookup k kvs = some v) :
    wf v = true := by
  induction kvs with
  | nil => simp [lookup] at hl
  | cons kv r ih =>
    obtain ⟨k', v'⟩ := kv
    simp only [wfKVs, Bool.and_eq_true] at h
    simp only [lookup] at hl
    split at hl
    · simp at hl; subst hl; exact h.1
    · exact ih h.2 hl

theorem wf_of_getElem? {kvs : KVs} (h : wfKVs kvs = true) {i : Nat} {kv : Bytes × JTree} (hl : kvs[i]? = some kv) :
    wf kv.2 = true := by
  rw [wfKVs_iff] at h
  exact h kv (List.mem_of_getElem? hl)

theorem wf_of_getLast? {kvs : KVs} (h : wfKVs kvs = true) {kv : Bytes × JTree} (hl : kvs.getLast? = some kv) :
    wf kv.2 = true := by
  rw [wfKVs_iff] at h
  exact h kv (List.mem_of_getLast? hl)

theorem wfKVs_swapRemove {kvs : KVs} (h : wfKVs kvs = true) (i : Nat) : wfKVs (swapRemove i kvs) = true := by
  unfold swapRemove
  split
  · exact h
  · rename_i last hl
    obtain ⟨k, v⟩ := last
    exact wfKVs_dropLast (wfKVs_set h i k (wf_of_getLast? h hl))

theorem wfKVs_setField {kvs : KVs} (h : wfKVs kvs = true) (name : Bytes) {v : JTree} (hv : wf v = true) :
    wfKVs (setField kvs name v) = true := by
  unfold setField
  split
  · exact wfKVs_set h _ name hv
  · exact wfKVs_append h (by simp [wfKVs, hv])

theorem wf_dig {t v : JTree} (path : List Bytes) (h : wf t = true) (hd : dig t path = some v) : wf v = true := by
  induction path generalizing t with
  | nil => simp [dig] at hd; subst hd; exact h
  | cons k ks ih =>
    cases t with
    | obj kvs =>
      simp only [dig] at hd
      split at hd
      · rename_i v' hl
        exact ih (wf_of_lookup (by simpa [wf] using h) hl) hd
      · simp at hd
    | null => simp [dig] at hd
    | bool b => simp [dig] at hd
    | num r => simp [dig] at hd
    | str s => simp [dig] at hd
    | arr xs => simp [dig] at hd

theorem wf_removeAt (path : List Bytes) {t : JTree} (h : wf t = true) : wf (removeAt path t) = true := by
  induction path generalizing t with
  | nil => simpa [removeAt] using h
  | cons k ks ih =>
    cases t with
    | obj kvs =>
      have hk : wfKVs kvs = true := by simpa [wf] using h
      cases ks with
      | nil =>
        simp only [removeAt]
        split
        · simpa [wf] using wfKVs_swapRemove hk _
        · exact h
      | cons k2 ks' =>
        simp only [removeAt]
        split
        · rename_i i v hi hl
          simp only [wf]
          exact wfKVs_set hk i k (ih (wf_of_lookup hk hl))
        · exact h
    | null => simpa [removeAt] using h
    | bool b => simpa [removeAt] using h
    | num r => simpa [removeAt] using h
    | str s => simpa [removeAt] using h
    | arr xs => simpa [removeAt] using h

theorem wf_updateAt (f : JTree → JTree) (hf : ∀ t, wf t = true → wf (f t) = true) (path : List Bytes)
    {t : JTree} (h : wf t = true) : wf (updateAt f path t) = true := by
  induction path generalizing t with
  | nil => simpa [updateAt] using hf t h
  | cons k ks ih =>
    cases t with
    | obj kvs =>
      have hk : wfKVs kvs = true := by simpa [wf] using h
      simp only [updateAt]
      split
      · rename_i i v hi hl
        simp only [wf]
        exact wfKVs_set hk i k (ih (wf_of_lookup hk hl))
      · exact h
    | null => simpa [updateAt] using h
    | bool b => simpa [updateAt] using h
    | num r => simpa [updateAt] using h
    | str s => simpa [updateAt] using h
    | arr xs => simpa [updateAt] using h

theorem wf_createNested (path : List Bytes) {t : JTree} (h : wf t = true) : wf (createNested path t) = true := by
  induction path generalizing t with
  | nil => simpa [createNested] using h
  | cons k ks ih =>
    cases t with
    | obj kvs =>
      have hk : wfKVs kvs = true := by simpa [wf] using h
      simp only [createNested, wf]
      apply wfKVs_setField hk
      apply ih
      split
      · rename_i c hl
        exact wf_of_lookup hk hl
      · simp [wf, wfKVs]
    | null => simpa [createNested] using h
    | bool b => simpa [createNested] using h
    | num r => simpa [createNested] using h
    | str s => simpa [createNested] using h
    | arr xs => simpa [createNested] using h

theorem wf_renameOne (preserve : Bool) {root : JTree} (h : wf root = true) (path : List Bytes) (name : Bytes) :
    wf (renameOne preserve root path name) = true := by
  unfold renameOne
  split
  · rename_i kvs
    split
    · exact h
    · split
      · exact h
      · exact h
      · rename_i ph pt v hd
        have hv := wf_dig _ h hd
        have hr := wf_removeAt (ph :: pt) h
        split
        · rename_i kvs' he
          rw [he] at hr
          simp only [wf] at hr ⊢
          exact wfKVs_setField hr name hv
        · exact hr
  · exact h

theorem wf_rename (preserve : Bool) (pairs : List (List Bytes × Bytes)) {root : JTree} (h : wf root = true) :
    wf (rename preserve pairs root) = true := by
  unfold rename
  induction pairs generalizing root with
  | nil => simpa using h
  | cons pn r ih => simp only [List.foldl_cons]; exact ih (wf_renameOne preserve h pn.1 pn.2)

theorem lastElem_ok (path : List Bytes) (h : path ≠ []) : ∃ x, lastElem path = .ok x := by
  unfold lastElem GoSlice.idx?
  have hl : 0 < path.length := List.length_pos_iff.mpr h
  have h1 : ¬ ((path.length : Int) - 1 < 0) := by omega
  rw [if_neg h1]
  have h2 : ((path.length : Int) - 1).toNat < path.length := by omega
  rw [List.getElem?_eq_getElem h2]
  exact ⟨_, rfl⟩

theorem moveAllowOne_ok (target : List Bytes) (st : MoveSt) (field : List Bytes)
    (h : wf st.root = true) (hf : field ≠ []) :
    ∃ st', moveAllowOne target st field = .ok st' ∧ wf st'.root = true := by
  unfold moveAllowOne
  split
  · exact ⟨st, rfl, h⟩
  · rename_i v hd
    have hv := wf_dig _ h hd
    split
    · exact ⟨st, rfl, h⟩
    · obtain ⟨name, hn⟩ := lastElem_ok field hf
      simp only [hn, bind, Except.bind]
      have hr := wf_removeAt field h
      split
      · exact ⟨_, rfl, hr⟩
      · split
        · exact ⟨_, rfl, hr⟩
        · refine ⟨_, rfl, ?_⟩
          apply wf_updateAt _ _ target hr
          intro t ht
          cases t with
          | obj kvs => simp only [wf] at ht ⊢; exact wfKVs_setField ht name hv
          | null => exact ht
          | bool b => exact ht
          | num r => exact ht
          | str s => exact ht
          | arr xs => exact ht

theorem foldlM_moveAllow_ok (target : List Bytes) (fields : List (List Bytes)) (st : MoveSt)
    (h : wf st.root = true) (hf : ∀ f ∈ fields, f ≠ []) :
    ∃ st', fields.foldlM (moveAllowOne target) st = .ok st' ∧ wf st'.root = true := by
  induction fields generalizing st with
  | nil => exact ⟨st, rfl, h⟩
  | cons f r ih =>
    obtain ⟨st1, h1, hw1⟩ := moveAllowOne_ok target st f h (hf f (by simp))
    simp only [List.foldlM_cons, h1, bind, Except.bind]
    exact ih st1 hw1 (fun f' hf' => hf f' (by simp [hf']))

theorem moveAllow_ok (target : List Bytes) (fields : List (List Bytes)) (root : JTree)
    (h : wf root = true) (hf : ∀ f ∈ fields, f ≠ []) :
    ∃ r, moveAllow target fields root = .ok r ∧ wf r = true := by
  unfold moveAllow
  split
  · rename_i kvs
    obtain ⟨st', h1, hw⟩ := foldlM_moveAllow_ok target fields ⟨createNested target (.obj kvs), false⟩
      (wf_createNested target h) hf
    simp only [h1, bind, Except.bind, pure, Except.pure]
    exact ⟨_, rfl, hw⟩
  · exact ⟨_, rfl, h⟩

/-- invariant of the block-mode loop -/
def BlockWf (st : BlockSt) : Prop := wfKVs st.mem = true ∧ wfKVs st.tgt = true

theorem blockStep_wf (tkey : Bytes) (blocked : List Bytes) (st : BlockSt) (i : Nat) (h : BlockWf st) :
    BlockWf (blockStep tkey blocked st i) := by
  unfold blockStep
  split
  · exact h
  · rename_i name value hget
    have hval : wf value = true := wf_of_getElem? h.1 hget
    split
    · exact h
    · split
      · exact h
      · have hst1 : BlockWf (match findKey name (st.mem.take st.live) with
            | none => st
            | some j =>
              match st.mem[st.live - 1]? with
              | none => st
              | some lastKV => { st with mem := st.mem.set j lastKV, live := st.live - 1 }) := by
          split
          · exact h
          · split
            · exact h
            · rename_i lastKV hl
              obtain ⟨lk, lv⟩ := lastKV
              exact ⟨wfKVs_set h.1 _ lk (wf_of_getElem? h.1 hl), h.2⟩
        exact ⟨hst1.1, wfKVs_setField hst1.2 name hval⟩

theorem foldl_blockStep_wf (tkey : Bytes) (blocked : List Bytes) (is : List Nat) (st : BlockSt) (h : BlockWf st) :
    BlockWf (is.foldl (blockStep tkey blocked) st) := by
  induction is generalizing st with
  | nil => exact h
  | cons i r ih => simp only [List.foldl_cons]; exact ih _ (blockStep_wf tkey blocked st i h)

theorem wf_moveBlock (tkey : Bytes) (blocked : List Bytes) {root : JTree} (h : wf root = true) :
    wf (moveBlock tkey blocked root) = true := by
  unfold moveBlock
  have hc := wf_createNested [tkey] h
  split
  · rename_i kvs he
    rw [he] at hc
    have hk : wfKVs kvs = true := by simpa [wf] using hc
    have ht0 : wfKVs (match lookup tkey kvs with | some (.obj c) => c | _ => []) = true := by
      split
      · rename_i c hl
        have := wf_of_lookup hk hl
        simpa [wf] using this
      · simp [wfKVs]
    have hinv := foldl_blockStep_wf tkey blocked (List.range kvs.length) ⟨kvs, kvs.length, _⟩ ⟨hk, ht0⟩
    simp only [wf]
    rw [wfKVs_iff]
    intro kv hkv
    obtain ⟨kv0, hkv0, rfl⟩ := List.mem_map.mp hkv
    have h0 := (wfKVs_iff _).mp (wfKVs_take hinv.1 _) kv0 hkv0
    split
    · simp only [wf]; exact hinv.2
    · exact h0
  · exact hc

end FileD.Act.Fields
