/-
  Helper lemmas for C20, antispam part: int32 wrapping, the finite-map state, invariants of
  `IsSpam` / `Maintenance` over arbitrary op lists.
-/
import FileD.Model.Antispam
namespace FileD.Antispam

/-! ### int32 -/

/-- the value fits an `int32` -/
def InR (c : Int) : Prop := -2147483648 ≤ c ∧ c < 2147483648

theorem wrap32_inR (x : Int) : InR (wrap32 x) := by
  unfold InR wrap32; omega

theorem wrap32_id {x : Int} (h : InR x) : wrap32 x = x := by
  unfold InR at h; unfold wrap32; omega

theorem wrap32_succ_le {c : Int} (h : InR c) : wrap32 (c + 1) ≤ c + 1 := by
  unfold InR at h; unfold wrap32; omega

/-! ### the state as a finite map -/

@[simp] theorem set_m_same (st : State) (id : Bytes) (s : Src) : (st.set id s).m id = some s := by
  simp [State.set]

theorem set_m_other (st : State) (id k : Bytes) (s : Src) (h : k ≠ id) : (st.set id s).m k = st.m k := by
  simp [State.set, h]

theorem maint_m (cfg : Cfg) (st : State) (k : Bytes) :
    (maintenance cfg st).m k = (st.m k).bind (maintSrc cfg.unban) := rfl

theorem isSpam_pass {cfg : Cfg} {st : State} {e : Ev} (h : verdict cfg e = .pass) :
    isSpam cfg st e = (false, st) := by
  simp [isSpam, h]

theorem isSpam_block {cfg : Cfg} {st : State} {e : Ev} (h : verdict cfg e = .block) :
    isSpam cfg st e = (true, st) := by
  simp [isSpam, h]

theorem isSpam_count {cfg : Cfg} {st : State} {e : Ev} {T : Int} (h : verdict cfg e = .count T) :
    isSpam cfg st e = ((hit cfg T e (st.m e.id)).1, st.set e.id (hit cfg T e (st.m e.id)).2) := by
  simp [isSpam, h]

/-- an event of another source does not touch this source's entry -/
theorem isSpam_m_other (cfg : Cfg) (st : State) (e : Ev) (sid : Bytes) (h : sid ≠ e.id) :
    (isSpam cfg st e).2.m sid = st.m sid := by
  cases hv : verdict cfg e with
  | pass => rw [isSpam_pass hv]
  | block => rw [isSpam_block hv]
  | count T => rw [isSpam_count hv]; exact set_m_other _ _ _ _ h

theorem run_append (cfg : Cfg) (st : State) (a b : List Op) :
    run cfg st (a ++ b) = run cfg (run cfg st a) b := by
  induction a generalizing st with
  | nil => rfl
  | cons op ops ih => simp [run, ih]

/-! ### which thresholds can be stored -/

def CfgValid (cfg : Cfg) : Prop := -1 ≤ cfg.threshold ∧ ∀ t ∈ cfg.rules, -1 ≤ t

theorem ruleVerdict_count {rules : List Int} {ms : List Bool} {d t : Int}
    (h : ruleVerdict rules ms d = .count t) : t = d ∨ t ∈ rules := by
  induction rules generalizing ms with
  | nil => simp [ruleVerdict] at h; exact Or.inl h.symm
  | cons r rs ih =>
    cases ms with
    | nil => simp [ruleVerdict] at h; exact Or.inl h.symm
    | cons mt ms =>
      simp only [ruleVerdict] at h
      split at h
      · split at h
        · cases h
        · split at h
          · cases h
          · injection h with h; exact Or.inr (by simp [h])
      · rcases ih h with h | h
        · exact Or.inl h
        · exact Or.inr (List.mem_cons_of_mem _ h)

theorem finalSwitch_count {v : Verdict} {t : Int} (h : finalSwitch v = .count t) :
    v = .count t ∧ t ≠ -1 ∧ t ≠ 0 := by
  cases v with
  | pass => cases h
  | block => cases h
  | count t' =>
    simp only [finalSwitch] at h
    split at h
    · cases h
    · split at h
      · cases h
      · rename_i h1 h0
        injection h with h; subst h; exact ⟨rfl, h1, h0⟩

theorem preVerdict_count {cfg : Cfg} {e : Ev} {t : Int} (h : preVerdict cfg e = .count t) :
    t = cfg.threshold ∨ t ∈ cfg.rules := by
  unfold preVerdict at h
  split at h
  · split at h
    · cases h
    · injection h with h; exact Or.inl h.symm
  · exact ruleVerdict_count h

/-- a threshold that gets as far as the counter is neither -1 nor 0 and comes from the config -/
theorem verdict_count {cfg : Cfg} {e : Ev} {t : Int} (h : verdict cfg e = .count t) :
    t ≠ -1 ∧ t ≠ 0 ∧ (t = cfg.threshold ∨ t ∈ cfg.rules) := by
  unfold verdict at h
  split at h
  · cases h
  · obtain ⟨hv, h1, h0⟩ := finalSwitch_count h
    exact ⟨h1, h0, preVerdict_count hv⟩

theorem verdict_count_pos {cfg : Cfg} {e : Ev} {t : Int} (hc : CfgValid cfg)
    (h : verdict cfg e = .count t) : 1 ≤ t := by
  obtain ⟨h1, h0, hm⟩ := verdict_count h
  rcases hm with hm | hm
  · have := hc.1; omega
  · have := hc.2 t hm; omega

/-! ### global invariants -/

/-- every stored counter fits an int32 -/
def AllInR (st : State) : Prop := ∀ id s, st.m id = some s → InR s.counter

theorem allInR_init : AllInR init := by
  intro id s h; simp [init] at h

theorem hitSrc_inR (cfg : Cfg) (T : Int) (e : Ev) (src : Src) (h : InR src.counter) :
    InR (hitSrc cfg T e src).2.counter := by
  have h0 : InR 0 := by unfold InR; omega
  unfold hitSrc
  split
  · exact h0
  · dsimp only
    repeat' split
    all_goals first | exact wrap32_inR _ | exact h

theorem fresh_inR (T : Int) (e : Ev) : InR (fresh T e).counter := by
  unfold InR fresh; simp

theorem hit_inR (cfg : Cfg) (T : Int) (e : Ev) (old : Option Src)
    (h : ∀ s, old = some s → InR s.counter) : InR (hit cfg T e old).2.counter := by
  unfold hit
  cases old with
  | none => exact hitSrc_inR _ _ _ _ (fresh_inR T e)
  | some s => exact hitSrc_inR _ _ _ _ (h s rfl)

theorem maintSrc_inR {U : Int} {s s' : Src} (h : maintSrc U s = some s') : InR s'.counter := by
  unfold maintSrc at h
  split at h
  · cases h
  · injection h with h; subst h; exact wrap32_inR _

theorem allInR_step (cfg : Cfg) (st : State) (op : Op) (h : AllInR st) : AllInR (step cfg st op) := by
  cases op with
  | maint =>
    intro id s hs
    simp only [step, maint_m] at hs
    cases hm : st.m id with
    | none => simp [hm] at hs
    | some s0 => simp [hm] at hs; exact maintSrc_inR hs
  | event e =>
    intro id s hs
    simp only [step] at hs
    by_cases hid : id = e.id
    · subst hid
      cases hv : verdict cfg e with
      | pass => rw [isSpam_pass hv] at hs; exact h _ _ hs
      | block => rw [isSpam_block hv] at hs; exact h _ _ hs
      | count T =>
        rw [isSpam_count hv] at hs
        simp at hs; subst hs
        exact hit_inR cfg T e _ (fun s hs => h _ _ hs)
    · rw [isSpam_m_other cfg st e id hid] at hs; exact h _ _ hs

theorem allInR_run (cfg : Cfg) (st : State) (ops : List Op) (h : AllInR st) : AllInR (run cfg st ops) := by
  induction ops generalizing st with
  | nil => exact h
  | cons op ops ih => exact ih _ (allInR_step cfg st op h)

/-- stored thresholds satisfy `P` when every threshold the config can produce does -/
def AllThr (P : Int → Prop) (st : State) : Prop := ∀ id s, st.m id = some s → P s.thr

theorem hitSrc_thr (cfg : Cfg) (T : Int) (e : Ev) (src : Src) : (hitSrc cfg T e src).2.thr = src.thr := by
  unfold hitSrc
  split <;> rfl

theorem hit_thr (cfg : Cfg) (T : Int) (e : Ev) (old : Option Src) :
    (hit cfg T e old).2.thr = (match old with | some s => s.thr | none => T) := by
  unfold hit
  rw [hitSrc_thr]
  cases old <;> rfl

theorem maintSrc_thr {U : Int} {s s' : Src} (h : maintSrc U s = some s') : s'.thr = s.thr := by
  unfold maintSrc at h
  split at h
  · cases h
  · injection h with h; subst h; rfl

theorem allThr_step (P : Int → Prop) (cfg : Cfg) (hP : ∀ e t, verdict cfg e = .count t → P t)
    (st : State) (op : Op) (h : AllThr P st) : AllThr P (step cfg st op) := by
  cases op with
  | maint =>
    intro id s hs
    simp only [step, maint_m] at hs
    cases hm : st.m id with
    | none => simp [hm] at hs
    | some s0 => simp [hm] at hs; rw [maintSrc_thr hs]; exact h _ _ hm
  | event e =>
    intro id s hs
    simp only [step] at hs
    by_cases hid : id = e.id
    · subst hid
      cases hv : verdict cfg e with
      | pass => rw [isSpam_pass hv] at hs; exact h _ _ hs
      | block => rw [isSpam_block hv] at hs; exact h _ _ hs
      | count T =>
        rw [isSpam_count hv] at hs
        simp at hs; subst hs
        rw [hit_thr]
        cases hm : st.m e.id with
        | none => exact hP e T hv
        | some s0 => exact h _ _ hm
    · rw [isSpam_m_other cfg st e id hid] at hs; exact h _ _ hs

theorem allThr_run (P : Int → Prop) (cfg : Cfg) (hP : ∀ e t, verdict cfg e = .count t → P t)
    (st : State) (ops : List Op) (h : AllThr P st) : AllThr P (run cfg st ops) := by
  induction ops generalizing st with
  | nil => exact h
  | cons op ops ih => exact ih _ (allThr_step P cfg hP st op h)

theorem allThr_init (P : Int → Prop) : AllThr P init := by
  intro id s h; simp [init] at h

/-! ### counting the events of a source that get as far as the counter -/

def isMaint : Op → Bool
  | .maint => true
  | .event _ => false

/-- the op is an event of source `sid` that is not short-circuited (exception, unlimited / blocked
    rule, isNewSource) before the counter -/
def reaches (cfg : Cfg) (sid : Bytes) : Op → Bool
  | .maint => false
  | .event e =>
    decide (e.id = sid) && !e.isNew &&
      (match verdict cfg e with | .count _ => true | _ => false)

def reached (cfg : Cfg) (sid : Bytes) (ops : List Op) : Nat := (ops.filter (reaches cfg sid)).length

theorem reached_cons (cfg : Cfg) (sid : Bytes) (op : Op) (ops : List Op) :
    reached cfg sid (op :: ops) = (if reaches cfg sid op then 1 else 0) + reached cfg sid ops := by
  unfold reached
  by_cases h : reaches cfg sid op = true <;> simp [List.filter, h] <;> omega

theorem reached_append (cfg : Cfg) (sid : Bytes) (a b : List Op) :
    reached cfg sid (a ++ b) = reached cfg sid a + reached cfg sid b := by
  simp [reached, List.filter_append]

/-- all events of `sid` in `ops` that get as far as the counter do so with threshold `T` -/
def Uniform (cfg : Cfg) (sid : Bytes) (T : Int) (ops : List Op) : Prop :=
  ∀ e, Op.event e ∈ ops → e.id = sid → ∀ t, verdict cfg e = .count t → t = T

/-- the counter is bounded by the number `k` of counted events, unless `k` reached the threshold -/
def Bnd (sid : Bytes) (T : Int) (k : Int) (st : State) : Prop :=
  ∀ s, st.m sid = some s → (k ≥ T ∨ s.counter ≤ k)

/-- one `IsSpam` call on the counter path, for the source entry at hand -/
theorem hitSrc_bound (cfg : Cfg) (T : Int) (e : Ev) (src : Src) (k : Int)
    (hT : 0 < T) (hT32 : T < 2147483648) (hk : 0 ≤ k)
    (hR : InR src.counter) (hB : k ≥ T ∨ src.counter ≤ k) :
    ((if e.isNew then k else k + 1) ≥ T ∨ (hitSrc cfg T e src).2.counter ≤ (if e.isNew then k else k + 1)) ∧
    ((hitSrc cfg T e src).1 = true → (if e.isNew then k else k + 1) ≥ T) := by
  have hwT : wrap32 T = T := wrap32_id (by unfold InR; omega)
  have hle := wrap32_succ_le hR
  unfold hitSrc
  by_cases hn : e.isNew = true
  · simp only [hn, ↓reduceIte]
    exact ⟨by omega, by intro h; cases h⟩
  · simp only [hn, Bool.false_eq_true, ↓reduceIte, hwT]
    generalize wrap32 (src.counter + 1) = w at hle ⊢
    generalize wrap32 (cfg.unban * T) = u
    by_cases hcnt : wrap64 (e.time - src.ts) < cfg.interval
    · simp only [hcnt, ↓reduceIte]
      constructor
      · by_cases hx : w = T
        · left; omega
        · simp only [hx, ↓reduceIte]; omega
      · intro ha; have := of_decide_eq_true ha; omega
    · simp only [hcnt, ↓reduceIte]
      constructor
      · by_cases hx : src.counter = T
        · left; omega
        · simp only [hx, ↓reduceIte]; omega
      · intro ha; have := of_decide_eq_true ha; omega

theorem hit_bound (cfg : Cfg) (T : Int) (e : Ev) (old : Option Src) (k : Int)
    (hT : 0 < T) (hT32 : T < 2147483648) (hk : 0 ≤ k)
    (hR : ∀ s, old = some s → InR s.counter)
    (hB : ∀ s, old = some s → (k ≥ T ∨ s.counter ≤ k)) :
    ((if e.isNew then k else k + 1) ≥ T ∨ (hit cfg T e old).2.counter ≤ (if e.isNew then k else k + 1)) ∧
    ((hit cfg T e old).1 = true → (if e.isNew then k else k + 1) ≥ T) := by
  unfold hit
  cases old with
  | none => exact hitSrc_bound cfg T e _ k hT hT32 hk (fresh_inR T e) (Or.inr (by simp [fresh]; exact hk))
  | some s => exact hitSrc_bound cfg T e _ k hT hT32 hk (hR s rfl) (hB s rfl)

/-! ### ban_needs_threshold: the counter since the last maintenance round -/

theorem bnd_event (cfg : Cfg) (sid : Bytes) (T : Int) (hT : 0 < T) (hT32 : T < 2147483648)
    (st : State) (k : Nat) (e : Ev) (hR : AllInR st) (hB : Bnd sid T k st)
    (hu : e.id = sid → ∀ t, verdict cfg e = .count t → t = T) :
    Bnd sid T ((k + (if reaches cfg sid (.event e) then 1 else 0) : Nat) : Int) (isSpam cfg st e).2 := by
  by_cases hid : e.id = sid
  · cases hv : verdict cfg e with
    | pass =>
      have : reaches cfg sid (.event e) = false := by simp [reaches, hv]
      rw [isSpam_pass hv, this]; simpa using hB
    | block =>
      have : reaches cfg sid (.event e) = false := by simp [reaches, hv]
      rw [isSpam_block hv, this]; simpa using hB
    | count t =>
      have ht := hu hid t hv
      subst ht
      have hr : reaches cfg sid (.event e) = !e.isNew := by simp [reaches, hv, hid]
      rw [isSpam_count hv, hr]
      intro s hs
      subst hid
      simp at hs
      subst hs
      have := (hit_bound cfg t e (st.m e.id) k hT hT32 (by omega) (fun s hs => hR _ _ hs) (fun s hs => hB s hs)).1
      cases hn : e.isNew <;> simp [hn] at this ⊢ <;> omega
  · have : reaches cfg sid (.event e) = false := by simp [reaches, hid]
    rw [this]
    intro s hs
    rw [isSpam_m_other cfg st e sid (fun h => hid h.symm)] at hs
    simpa using hB s hs

theorem bnd_suffix (cfg : Cfg) (sid : Bytes) (T : Int) (hT : 0 < T) (hT32 : T < 2147483648) :
    ∀ (suf : List Op) (st : State) (k : Nat), AllInR st → Bnd sid T k st →
      (∀ op ∈ suf, isMaint op = false) → Uniform cfg sid T suf →
      Bnd sid T ((k + reached cfg sid suf : Nat) : Int) (run cfg st suf) := by
  intro suf
  induction suf with
  | nil => intro st k _ hB _ _; simpa [reached, run] using hB
  | cons op ops ih =>
    intro st k hR hB hnm hu
    cases op with
    | maint => have := hnm .maint (by simp); simp [isMaint] at this
    | event e =>
      have h1 := bnd_event cfg sid T hT hT32 st k e hR hB (fun hid t hv => hu e (by simp) hid t hv)
      have h2 := ih (isSpam cfg st e).2 _ (allInR_step cfg st (.event e) hR) h1
        (fun op hop => hnm op (List.mem_cons_of_mem _ hop))
        (fun e' he' => hu e' (List.mem_cons_of_mem _ he'))
      rw [reached_cons]
      simp only [run, step]
      have heq : k + ((if reaches cfg sid (Op.event e) = true then 1 else 0) + reached cfg sid ops)
          = k + (if reaches cfg sid (Op.event e) = true then 1 else 0) + reached cfg sid ops := by omega
      rw [heq]; exact h2

/-- after a maintenance round a source is either at counter ≤ 0 or it was banned when the round ran -/
theorem maint_bnd (cfg : Cfg) (st : State) (sid : Bytes) (T : Int) (hU : 0 ≤ cfg.unban)
    (hthr : AllThr (fun t => 1 ≤ t) st) :
    (∃ s, st.m sid = some s ∧ s.counter ≥ s.thr) ∨ Bnd sid T 0 (maintenance cfg st) := by
  cases hm : st.m sid with
  | none => right; intro s hs; simp [maint_m, hm] at hs
  | some s =>
    by_cases hb : s.counter ≥ s.thr
    · exact Or.inl ⟨s, rfl, hb⟩
    · right
      intro s' hs
      simp only [maint_m, hm, Option.bind_some] at hs
      unfold maintSrc at hs
      split at hs
      · cases hs
      · injection hs with hs; subst hs
        have h1 : 1 ≤ s.thr := hthr _ _ hm
        have hmul : 0 ≤ cfg.unban * s.thr := Int.mul_nonneg hU (by omega)
        right
        have hx1 : s.counter - s.thr < 0 := by omega
        simp only [hx1, ↓reduceIte]
        have : ¬ (0 > cfg.unban * s.thr) := by omega
        simp only [this, ↓reduceIte]
        simp [wrap32]

/-- the ops of a history: everything up to and including the last maintenance round -/
def histOps : Option (List Op) → List Op
  | none => []
  | some pre => pre ++ [.maint]

/-- from a state in which the source's counter is ≤ 0 (or it has no entry), through events only:
    a true answer needs `T` events of the source that reached the counter -/
theorem ban_no_residue (cfg : Cfg) (st0 : State) (suf : List Op) (e : Ev) (T : Int)
    (hT : 0 < T) (hT32 : T < 2147483648)
    (hR0 : AllInR st0) (hB0 : Bnd e.id T 0 st0)
    (hsuf : ∀ op ∈ suf, isMaint op = false)
    (huni : Uniform cfg e.id T suf)
    (hv : verdict cfg e = .count T)
    (ha : (isSpam cfg (run cfg st0 suf) e).1 = true) :
    (reached cfg e.id (suf ++ [.event e]) : Int) ≥ T := by
  have hB := bnd_suffix cfg e.id T hT hT32 suf st0 0 hR0 hB0 hsuf huni
  have hR := allInR_run cfg st0 suf hR0
  rw [isSpam_count hv] at ha
  have h2 := (hit_bound cfg T e ((run cfg st0 suf).m e.id) ((0 + reached cfg e.id suf : Nat) : Int)
    hT hT32 (by omega) (fun s hs => hR _ _ hs) (fun s hs => hB s hs)).2 ha
  have hr : reaches cfg e.id (.event e) = !e.isNew := by simp [reaches, hv]
  rw [reached_append]
  simp only [reached_cons, hr]
  cases hn : e.isNew <;> simp [hn, reached] at h2 ⊢ <;> omega

theorem ban_core (cfg : Cfg) (hist : Option (List Op)) (suf : List Op) (e : Ev) (T : Int)
    (hvalid : CfgValid cfg) (hU : 0 ≤ cfg.unban) (hT : 0 < T) (hT32 : T < 2147483648)
    (hsuf : ∀ op ∈ suf, isMaint op = false)
    (huni : Uniform cfg e.id T suf)
    (hv : verdict cfg e = .count T)
    (hans : (isSpam cfg (run cfg init (histOps hist ++ suf)) e).1 = true) :
    (reached cfg e.id (suf ++ [.event e]) : Int) ≥ T ∨
    ∃ pre s, hist = some pre ∧ (run cfg init pre).m e.id = some s ∧ s.counter ≥ s.thr := by
  cases hist with
  | none =>
    left
    apply ban_no_residue cfg init suf e T hT hT32 allInR_init _ hsuf huni hv
    · simpa [histOps] using hans
    · intro s hs; simp [init] at hs
  | some pre =>
    have hrun : run cfg init (histOps (some pre) ++ suf) = run cfg (maintenance cfg (run cfg init pre)) suf := by
      simp [histOps, run_append, run, step]
    rw [hrun] at hans
    have hthr : AllThr (fun t => 1 ≤ t) (run cfg init pre) :=
      allThr_run _ cfg (fun e t h => verdict_count_pos hvalid h) init pre (allThr_init _)
    rcases maint_bnd cfg (run cfg init pre) e.id T hU hthr with ⟨s, hs, hb⟩ | hB0
    · exact Or.inr ⟨pre, s, rfl, hs, hb⟩
    · left
      exact ban_no_residue cfg _ suf e T hT hT32
        (allInR_step cfg _ .maint (allInR_run cfg init pre allInR_init)) hB0 hsuf huni hv hans

/-! ### silent_source_unbanned: decay of a source that gets no events -/

/-- the counter is at most `r` thresholds -/
def Bd (r : Nat) (s : Src) : Prop := 0 ≤ s.counter ∧ s.counter ≤ (r : Int) * s.thr

/-- the threshold is positive and the ban value `unban * t` fits an int32 -/
def ThrFit (U : Int) (t : Int) : Prop := 1 ≤ t ∧ U * t < 2147483648

theorem maintSrc_first {U : Int} {s s' : Src} (hU : 0 ≤ U) (hf : ThrFit U s.thr)
    (h : maintSrc U s = some s') : Bd U.toNat s' ∧ s'.thr = s.thr := by
  unfold maintSrc at h
  split at h
  · cases h
  · injection h with h; subst h
    have hmul : 0 ≤ U * s.thr := Int.mul_nonneg hU (by have := hf.1; omega)
    have hUn : ((U.toNat : Nat) : Int) = U := by omega
    refine ⟨?_, rfl⟩
    unfold Bd
    dsimp only
    rw [hUn]
    have hf2 := hf.2
    generalize U * s.thr = p at *
    split <;> split <;> (rw [wrap32_id (by unfold InR; omega)]; omega)

theorem maintSrc_next {U : Int} {s s' : Src} {r : Nat} (hU : 0 ≤ U) (hf : ThrFit U s.thr)
    (hb : Bd (r + 1) s) (h : maintSrc U s = some s') : Bd r s' ∧ s'.thr = s.thr := by
  unfold maintSrc at h
  split at h
  · cases h
  · injection h with h; subst h
    have hmul : 0 ≤ U * s.thr := Int.mul_nonneg hU (by have := hf.1; omega)
    have hr : 0 ≤ (r : Int) * s.thr := Int.mul_nonneg (by omega) (by have := hf.1; omega)
    refine ⟨?_, rfl⟩
    unfold Bd at hb ⊢
    dsimp only
    have hb2 : s.counter ≤ (r : Int) * s.thr + s.thr := by
      have := hb.2
      rw [show ((r + 1 : Nat) : Int) = (r : Int) + 1 by omega, Int.add_mul, Int.one_mul] at this
      exact this
    have hf1 := hf.1
    have hf2 := hf.2
    have hb1 := hb.1
    generalize U * s.thr = p at *
    generalize (r : Int) * s.thr = q at *
    split <;> split <;> (rw [wrap32_id (by unfold InR; omega)]; omega)

theorem maintSrc_zero {U : Int} {s : Src} (hb : Bd 0 s) : maintSrc U s = none := by
  unfold Bd at hb
  have : s.counter = 0 := by
    have := hb.2; simp at this; omega
  simp [maintSrc, this]

/-- what is known of source `sid` after some rounds: `none` = no round yet -/
def Phase (U : Int) (sid : Bytes) (ph : Option Nat) (st : State) : Prop :=
  ∀ s, st.m sid = some s → ThrFit U s.thr ∧ ∀ r, ph = some r → Bd r s

def nextPhase (U : Int) : Option Nat → Option Nat
  | none => some U.toNat
  | some r => some (r - 1)

def phaseAfter (U : Int) : Option Nat → List Op → Option Nat
  | ph, [] => ph
  | ph, .maint :: ops => phaseAfter U (nextPhase U ph) ops
  | ph, .event _ :: ops => phaseAfter U ph ops

def countMaint (ops : List Op) : Nat := (ops.filter isMaint).length

theorem phase_maint (cfg : Cfg) (sid : Bytes) (ph : Option Nat) (st : State) (hU : 0 ≤ cfg.unban)
    (h : Phase cfg.unban sid ph st) : Phase cfg.unban sid (nextPhase cfg.unban ph) (maintenance cfg st) := by
  intro s' hs'
  cases hm : st.m sid with
  | none => simp [maint_m, hm] at hs'
  | some s =>
    simp only [maint_m, hm, Option.bind_some] at hs'
    obtain ⟨hf, hb⟩ := h s hm
    cases ph with
    | none =>
      obtain ⟨h1, h2⟩ := maintSrc_first hU hf hs'
      refine ⟨by rw [h2]; exact hf, ?_⟩
      intro r hr; simp [nextPhase] at hr; subst hr; exact h1
    | some r =>
      cases r with
      | zero => rw [maintSrc_zero (hb 0 rfl)] at hs'; cases hs'
      | succ r =>
        obtain ⟨h1, h2⟩ := maintSrc_next hU hf (hb (r + 1) rfl) hs'
        refine ⟨by rw [h2]; exact hf, ?_⟩
        intro r' hr; simp [nextPhase] at hr; subst hr; exact h1

/-- no event of `sid` in `ops` gets as far as the counter -/
def Silent (cfg : Cfg) (sid : Bytes) (ops : List Op) : Prop :=
  ∀ e, Op.event e ∈ ops → e.id = sid → ∀ t, verdict cfg e ≠ .count t

theorem phase_run (cfg : Cfg) (sid : Bytes) (hU : 0 ≤ cfg.unban) :
    ∀ (ops : List Op) (ph : Option Nat) (st : State), Phase cfg.unban sid ph st → Silent cfg sid ops →
      Phase cfg.unban sid (phaseAfter cfg.unban ph ops) (run cfg st ops) := by
  intro ops
  induction ops with
  | nil => intro ph st h _; exact h
  | cons op ops ih =>
    intro ph st h hs
    have hs' : Silent cfg sid ops := fun e he => hs e (List.mem_cons_of_mem _ he)
    cases op with
    | maint => exact ih _ _ (phase_maint cfg sid ph st hU h) hs'
    | event e =>
      simp only [run, step, phaseAfter]
      apply ih _ _ _ hs'
      intro s hm
      by_cases hid : e.id = sid
      · cases hv : verdict cfg e with
        | pass => rw [isSpam_pass hv] at hm; exact h s hm
        | block => rw [isSpam_block hv] at hm; exact h s hm
        | count t => exact absurd hv (hs e (by simp) hid t)
      · rw [isSpam_m_other cfg st e sid (fun h => hid h.symm)] at hm; exact h s hm

theorem phaseAfter_some (U : Int) (r : Nat) (ops : List Op) :
    phaseAfter U (some r) ops = some (r - countMaint ops) := by
  induction ops generalizing r with
  | nil => simp [phaseAfter, countMaint]
  | cons op ops ih =>
    cases op with
    | maint =>
      simp only [phaseAfter, nextPhase, ih, countMaint, List.filter, isMaint, List.length_cons]
      congr 1; omega
    | event e => simp only [phaseAfter, ih, countMaint, List.filter, isMaint]

theorem phaseAfter_none (U : Int) (ops : List Op) (h : countMaint ops ≥ 1) :
    phaseAfter U none ops = some (U.toNat - (countMaint ops - 1)) := by
  induction ops with
  | nil => simp [countMaint] at h
  | cons op ops ih =>
    cases op with
    | maint =>
      simp only [phaseAfter, nextPhase, phaseAfter_some, countMaint, List.filter, isMaint, List.length_cons]
      congr 1
    | event e =>
      have h' : countMaint ops ≥ 1 := by simpa [countMaint, List.filter, isMaint] using h
      simp only [phaseAfter, ih h', countMaint, List.filter, isMaint]

/-- the config's thresholds: valid (≥ -1) and their ban values fit an int32 -/
def CfgFit (cfg : Cfg) : Prop :=
  0 ≤ cfg.unban ∧ CfgValid cfg ∧ cfg.unban * cfg.threshold < 2147483648 ∧
    ∀ t ∈ cfg.rules, cfg.unban * t < 2147483648

theorem verdict_count_fit {cfg : Cfg} {e : Ev} {t : Int} (hc : CfgFit cfg)
    (h : verdict cfg e = .count t) : ThrFit cfg.unban t := by
  refine ⟨verdict_count_pos hc.2.1 h, ?_⟩
  obtain ⟨_, _, hm⟩ := verdict_count h
  rcases hm with hm | hm
  · rw [hm]; exact hc.2.2.1
  · exact hc.2.2.2 t hm

theorem silent_core (cfg : Cfg) (hc : CfgFit cfg) (pre ops : List Op) (sid : Bytes)
    (hs : Silent cfg sid ops) (hr : (countMaint ops : Int) ≥ cfg.unban + 1) :
    ∀ s, (run cfg (run cfg init pre) ops).m sid = some s → s.counter = 0 := by
  have hU := hc.1
  have hthr : AllThr (ThrFit cfg.unban) (run cfg init pre) :=
    allThr_run _ cfg (fun e t h => verdict_count_fit hc h) init pre (allThr_init _)
  have h0 : Phase cfg.unban sid none (run cfg init pre) := by
    intro s hm; exact ⟨hthr _ _ hm, by intro r hr; cases hr⟩
  have h1 := phase_run cfg sid hU ops none _ h0 hs
  have hcm : countMaint ops ≥ 1 := by omega
  rw [phaseAfter_none _ _ hcm] at h1
  have hz : cfg.unban.toNat - (countMaint ops - 1) = 0 := by omega
  rw [hz] at h1
  intro s hm
  have := (h1 s hm).2 0 rfl
  unfold Bd at this
  have h2 := this.2; simp at h2; omega

end FileD.Antispam

