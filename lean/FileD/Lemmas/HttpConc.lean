/- helper lemmas for C11: source-id free list and interleaved requests -/
import FileD.Model.HttpConc
import FileD.Lemmas.HttpBulk
namespace FileD.HttpConc
open FileD FileD.HttpBulk FileD.SpecC11

end FileD.HttpConc
