/- helper lemmas for C11: source-id free list and interleaved requests -/
import FileD.Prelude.TS
import FileD.Model.HttpConc
import FileD.Lemmas.HttpBulk
namespace FileD.HttpConc
open FileD FileD.HttpBulk FileD.SpecC11

/-- the controller's log restricted to request r -/
def logOf (s : Sys) (r : Nat) : List (Nat × Nat × Bytes) := s.log.filter (fun e => e.1 == r)

def tag (r sid : Nat) (b : Bytes) : Nat × Nat × Bytes := (r, sid, b)

structure BInv (s : Sys) : Prop where
  nodup : s.ids.free.Nodup
  freeLt : ∀ x, x ∈ s.ids.free → x < s.ids.seq
  liveId : ∀ r l, s.live r = some l → l.sid < s.ids.seq ∧ l.sid ∉ s.ids.free
  excl : ∀ r1 r2 l1 l2, s.live r1 = some l1 → s.live r2 = some l2 → l1.sid = l2.sid → r1 = r2
  prog : ∀ r l, s.live r = some l → bulkLoop ⟨[], []⟩ l.all = bulkLoop l.st l.todo
  liveLog : ∀ r l, s.live r = some l → logOf s r = l.st.out.map (tag r l.sid)
  doneOk : ∀ r all outs ok, s.done r = some (all, outs, ok) →
    (outs, ok) = processBulk all ∧ ∃ sid, logOf s r = outs.map (tag r sid)
  fresh : ∀ r, s.live r = none → s.done r = none → logOf s r = []
  notBoth : ∀ r l, s.live r = some l → s.done r = none

theorem BInv.init : BInv init := by
  refine ⟨by simp [HttpConc.init], by simp [HttpConc.init], ?_, ?_, ?_, ?_, ?_, ?_, ?_⟩ <;>
    simp [HttpConc.init, logOf]

/-! #### the free list -/

theorem getId_props (i : Ids) (hn : i.free.Nodup) (hlt : ∀ x, x ∈ i.free → x < i.seq) :
    (getId i).2.free.Nodup ∧ (∀ x, x ∈ (getId i).2.free → x < (getId i).2.seq) ∧
    (getId i).1 < (getId i).2.seq ∧ (getId i).1 ∉ (getId i).2.free ∧
    i.seq ≤ (getId i).2.seq ∧ (∀ x, x ∈ (getId i).2.free → x ∈ i.free) ∧
    ((getId i).1 = i.seq ∨ (getId i).1 ∈ i.free) := by
  unfold getId
  cases hr : i.free.reverse with
  | nil =>
    simp only
    refine ⟨by simp, by simp, by omega, by simp, by omega, by simp, by simp⟩
  | cons x rest =>
    have hf : i.free = rest.reverse ++ [x] := List.reverse_eq_cons_iff.mp hr
    rw [hf, List.nodup_append] at hn
    obtain ⟨h1, _, h3⟩ := hn
    simp only
    refine ⟨h1, fun y hy => hlt y (by rw [hf]; simp [hy]), hlt x (by rw [hf]; simp), ?_, Nat.le_refl _,
      fun y hy => by rw [hf]; simp [hy], Or.inr (by rw [hf]; simp)⟩
    intro hx
    exact h3 x hx x (by simp) rfl

/-- the pop of seeded change C11-e: first element handed out, last element dropped -/
def getIdMixed (i : Ids) : Nat × Ids :=
  match i.free with
  | [] => (i.seq, { free := [], seq := i.seq + 1 })
  | x :: _ => (x, { i with free := i.free.dropLast })

/-! #### effect of the steps on the log -/

theorem logOf_append_same (s : Sys) (r sid : Nat) (l : List Bytes) :
    (s.log ++ l.map (tag r sid)).filter (fun e => e.1 == r) = logOf s r ++ l.map (tag r sid) := by
  rw [List.filter_append]
  congr 1
  induction l with
  | nil => rfl
  | cons x xs ih => simp [tag, ih]

theorem logOf_append_other (s : Sys) (r r0 sid : Nat) (l : List Bytes) (h : r0 ≠ r) :
    (s.log ++ l.map (tag r sid)).filter (fun e => e.1 == r0) = logOf s r0 := by
  rw [List.filter_append]
  have : (l.map (tag r sid)).filter (fun e => e.1 == r0) = [] := by
    induction l with
    | nil => rfl
    | cons x xs ih =>
      have hne : ¬ r = r0 := fun e => h e.symm
      simp [tag, hne]
  rw [this]; simp [logOf]

theorem newOut_append (a : St) (b : St) (x : List Bytes) (h : b.out = a.out ++ x) : newOut a b = x := by
  simp [newOut, h]

/-- `advance` preserves the invariant -/
theorem BInv.advance {s : Sys} (hi : BInv s) {r : Nat} {l : Live} (hl : s.live r = some l)
    {b : Bytes} {rs : List Rd}
    (hstep : bulkLoop l.st l.todo = bulkLoop (processChunk l.st b false) rs) :
    BInv (HttpConc.advance s r l b rs) := by
  obtain ⟨p1, _⟩ := processChunk_more l.st b
  have hnew := newOut_append l.st (processChunk l.st b false) _ p1
  refine ⟨hi.nodup, hi.freeLt, ?_, ?_, ?_, ?_, ?_, ?_, ?_⟩
  · intro r0 l0 h0
    simp only [HttpConc.advance, setLive] at h0
    split at h0
    · rename_i e; subst e; simp at h0; subst h0; exact hi.liveId _ l hl
    · exact hi.liveId r0 l0 h0
  · intro r1 r2 l1 l2 h1 h2 he
    simp only [HttpConc.advance, setLive] at h1 h2
    split at h1 <;> split at h2
    · rename_i e1 e2; rw [e1, e2]
    · rename_i e1 e2; simp at h1; subst h1
      have := hi.excl r r2 l l2 hl h2 he; exact e1.trans this
    · rename_i e1 e2; simp at h2; subst h2
      have := hi.excl r1 r l1 l h1 hl he; exact this.trans e2.symm
    · exact hi.excl r1 r2 l1 l2 h1 h2 he
  · intro r0 l0 h0
    simp only [HttpConc.advance, setLive] at h0
    split at h0
    · rename_i e; subst e; simp at h0; subst h0
      simp only; rw [hi.prog r0 l hl, hstep]
    · exact hi.prog r0 l0 h0
  · intro r0 l0 h0
    simp only [HttpConc.advance, setLive] at h0
    split at h0
    · rename_i e; subst e; simp at h0; subst h0
      simp only [logOf, HttpConc.advance, hnew]
      rw [show (fun p => (r0, l.sid, p)) = tag r0 l.sid from rfl, logOf_append_same, hi.liveLog r0 l hl, p1]
      simp
    · rename_i e
      simp only [logOf, HttpConc.advance, hnew]
      rw [show (fun p => (r, l.sid, p)) = tag r l.sid from rfl, logOf_append_other s r r0 l.sid _ e]
      exact hi.liveLog r0 l0 h0
  · intro r0 all outs ok h0
    have hne : r0 ≠ r := by
      intro e; subst e; have := hi.notBoth r0 l hl; simp [HttpConc.advance] at h0; rw [this] at h0; cases h0
    obtain ⟨d1, sid, d2⟩ := hi.doneOk r0 all outs ok h0
    refine ⟨d1, sid, ?_⟩
    simp only [logOf, HttpConc.advance, hnew]
    rw [show (fun p => (r, l.sid, p)) = tag r l.sid from rfl, logOf_append_other s r r0 l.sid _ hne]
    exact d2
  · intro r0 h0 h1
    simp only [HttpConc.advance, setLive] at h0
    split at h0
    · simp at h0
    · rename_i e
      simp only [logOf, HttpConc.advance, hnew]
      rw [show (fun p => (r, l.sid, p)) = tag r l.sid from rfl, logOf_append_other s r r0 l.sid _ e]
      exact hi.fresh r0 h0 h1
  · intro r0 l0 h0
    simp only [HttpConc.advance, setLive] at h0
    split at h0
    · rename_i e; subst e; exact hi.notBoth r0 l hl
    · exact hi.notBoth r0 l0 h0

/-- leaving `processBulk` preserves the invariant -/
theorem BInv.finish {s : Sys} (hi : BInv s) {r : Nat} {l : Live} (hl : s.live r = some l) {ok : Bool}
    (hres : bulkLoop l.st l.todo = (l.st, ok)) : BInv (HttpConc.finish s r l ok) := by
  -- the state after the optional flush and what it adds
  let fin : St := if ok && decide (l.st.eventBuff.length > 0) then processChunk l.st [] true else l.st
  have hfin : ∃ x, fin.out = l.st.out ++ x := by
    simp only [fin]; split
    · exact ⟨_, processChunk_last l.st⟩
    · exact ⟨[], by simp⟩
  obtain ⟨x, hx⟩ := hfin
  have hnew : newOut l.st fin = x := newOut_append _ _ _ hx
  have hres' : (fin.out, ok) = processBulk l.all := by
    unfold processBulk
    rw [hi.prog r l hl, hres]
    simp only [fin]
    cases ok <;> simp
    split <;> simp
  obtain ⟨hlt, hnf⟩ := hi.liveId r l hl
  refine ⟨?_, ?_, ?_, ?_, ?_, ?_, ?_, ?_, ?_⟩
  · simp only [HttpConc.finish, putId]
    rw [List.nodup_append]
    exact ⟨hi.nodup, by simp, fun a ha b hb => by simp at hb; subst hb; intro e; subst e; exact hnf ha⟩
  · intro y hy
    simp only [HttpConc.finish, putId, List.mem_append, List.mem_singleton] at hy
    rcases hy with hy | hy
    · exact hi.freeLt y hy
    · subst hy; exact hlt
  · intro r0 l0 h0
    simp only [HttpConc.finish, setLive] at h0
    split at h0
    · simp at h0
    · rename_i e
      obtain ⟨a1, a2⟩ := hi.liveId r0 l0 h0
      refine ⟨a1, ?_⟩
      simp only [HttpConc.finish, putId, List.mem_append, List.mem_singleton, not_or]
      exact ⟨a2, fun es => e (hi.excl r0 r l0 l h0 hl es)⟩
  · intro r1 r2 l1 l2 h1 h2 he
    simp only [HttpConc.finish, setLive] at h1 h2
    split at h1
    · simp at h1
    · split at h2
      · simp at h2
      · exact hi.excl r1 r2 l1 l2 h1 h2 he
  · intro r0 l0 h0
    simp only [HttpConc.finish, setLive] at h0
    split at h0
    · simp at h0
    · exact hi.prog r0 l0 h0
  · intro r0 l0 h0
    simp only [HttpConc.finish, setLive] at h0
    split at h0
    · simp at h0
    · rename_i e
      show List.filter _ (s.log ++ List.map _ (newOut l.st fin)) = _
      rw [hnew, show (fun b => (r, l.sid, b)) = tag r l.sid from rfl, logOf_append_other s r r0 l.sid _ e]
      exact hi.liveLog r0 l0 h0
  · intro r0 all outs ok0 h0
    simp only [HttpConc.finish] at h0
    split at h0
    · rename_i e; subst e
      simp only [Option.some.injEq, Prod.mk.injEq] at h0
      obtain ⟨rfl, rfl, rfl⟩ := h0
      refine ⟨hres', l.sid, ?_⟩
      show List.filter _ (s.log ++ List.map _ (newOut l.st fin)) = _
      rw [hnew, show (fun b => (r0, l.sid, b)) = tag r0 l.sid from rfl, logOf_append_same, hi.liveLog r0 l hl]
      show _ = List.map _ fin.out
      rw [hx]; simp
    · rename_i e
      obtain ⟨d1, sid, d2⟩ := hi.doneOk r0 all outs ok0 h0
      refine ⟨d1, sid, ?_⟩
      show List.filter _ (s.log ++ List.map _ (newOut l.st fin)) = _
      rw [hnew, show (fun b => (r, l.sid, b)) = tag r l.sid from rfl, logOf_append_other s r r0 l.sid _ e]
      exact d2
  · intro r0 h0 h1
    simp only [HttpConc.finish] at h1
    split at h1
    · simp at h1
    · rename_i e
      simp only [HttpConc.finish, setLive, e, ↓reduceIte] at h0
      show List.filter _ (s.log ++ List.map _ (newOut l.st fin)) = _
      rw [hnew, show (fun b => (r, l.sid, b)) = tag r l.sid from rfl, logOf_append_other s r r0 l.sid _ e]
      exact hi.fresh r0 h0 h1
  · intro r0 l0 h0
    simp only [HttpConc.finish, setLive] at h0
    split at h0
    · simp at h0
    · rename_i e
      simp only [HttpConc.finish, e, ↓reduceIte]
      exact hi.notBoth r0 l0 h0

theorem BInv.step {s s' : Sys} {op : Op} (hi : BInv s) (h : step? s op = some s') : BInv s' := by
  cases op with
  | start r reads =>
    simp only [step?] at h
    split at h
    · rename_i hlive hdone
      simp only [Option.some.injEq] at h; subst h
      obtain ⟨g1, g2, g3, g4, g5, g6, g7⟩ := getId_props s.ids hi.nodup hi.freeLt
      have hfreshId : ∀ r0 l0, s.live r0 = some l0 → l0.sid ≠ (getId s.ids).1 := by
        intro r0 l0 h0 e
        obtain ⟨a1, a2⟩ := hi.liveId r0 l0 h0
        rcases g7 with g | g
        · omega
        · exact a2 (e ▸ g)
      refine ⟨g1, g2, ?_, ?_, ?_, ?_, ?_, ?_, ?_⟩
      · intro r0 l0 h0
        simp only [setLive] at h0
        split at h0
        · simp at h0; subst h0; exact ⟨g3, g4⟩
        · obtain ⟨a1, a2⟩ := hi.liveId r0 l0 h0
          exact ⟨Nat.lt_of_lt_of_le a1 g5, fun hm => a2 (g6 _ hm)⟩
      · intro r1 r2 l1 l2 h1 h2 he
        simp only [setLive] at h1 h2
        split at h1 <;> split at h2
        · rename_i e1 e2; rw [e1, e2]
        · simp at h1; subst h1; exact absurd he.symm (hfreshId r2 l2 h2)
        · simp at h2; subst h2; exact absurd he (hfreshId r1 l1 h1)
        · exact hi.excl r1 r2 l1 l2 h1 h2 he
      · intro r0 l0 h0
        simp only [setLive] at h0
        split at h0
        · simp at h0; subst h0; rfl
        · exact hi.prog r0 l0 h0
      · intro r0 l0 h0
        simp only [setLive] at h0
        split at h0
        · rename_i e; subst e; simp at h0; subst h0
          have := hi.fresh r0 hlive hdone
          simpa [logOf] using this
        · exact hi.liveLog r0 l0 h0
      · exact hi.doneOk
      · intro r0 h0 h1
        simp only [setLive] at h0
        split at h0
        · simp at h0
        · exact hi.fresh r0 h0 h1
      · intro r0 l0 h0
        simp only [setLive] at h0
        split at h0
        · rename_i e; subst e; exact hdone
        · exact hi.notBoth r0 l0 h0
    · simp at h
  | read r =>
    simp only [step?] at h
    split at h
    · simp at h
    · rename_i l hl
      split at h
      · rename_i ht
        simp only [Option.some.injEq] at h; subst h
        exact hi.finish hl (by rw [ht]; rfl)
      · rename_i b rs ht
        simp only [Option.some.injEq] at h; subst h
        exact hi.finish hl (by rw [ht]; rfl)
      · rename_i b rs ht
        split at h
        · rename_i hb
          simp only [Option.some.injEq] at h; subst h
          exact hi.finish hl (by rw [ht]; simp [bulkLoop, hb])
        · rename_i hb
          simp only [Option.some.injEq] at h; subst h
          exact hi.advance hl (by rw [ht]; simp [bulkLoop, hb])
      · rename_i b rs ht
        simp only [Option.some.injEq] at h; subst h
        exact hi.advance hl (by rw [ht]; simp [bulkLoop])

theorem BInv.reachable {s : Sys} (h : TS.Reachable step? HttpConc.init s) : BInv s :=
  TS.invariant_reachable step? BInv HttpConc.init BInv.init (fun _ _ _ hi hs => hi.step hs) s h

end FileD.HttpConc
