/-
  Helper lemmas for C03, part 4: a worker turn (`readTurn`) preserves `Inv` when the file was not
  truncated. The `In` calls of the turn are folded one by one over an intermediate invariant
  `MidInv` in which the list of lines consumed by the reading job is explicit.
-/
import FileD.Lemmas.FileRestartInv
namespace FileD.FileRestart
open FileD FileD.SpecC06 FileD.SpecC03

theorem specLines_pairwise (a : Bytes) (off : Nat) (cur : Bytes) :
    (specLines a off cur).Pairwise (fun x y => x.1 < y.1) := by
  induction a generalizing off cur with
  | nil => simp [specLines]
  | cons x xs ih =>
    by_cases hx : x = NL
    · simp only [specLines, hx, ↓reduceIte]
      refine List.pairwise_cons.2 ⟨?_, ih _ _⟩
      intro y hy; have := (specLines_off hy).1; simpa using this
    · simp only [specLines, hx, ↓reduceIte]; exact ih _ _

section
variable {cfg : Cfg} {G : Ev → Prop} {Ex : Nat → Prop}

structure MidInv (cfg : Cfg) (G : Ev → Prop) (Ex : Nat → Prop) (s : State) (i : Nat) (hl : List (Nat × Bytes)) : Prop where
  glob : Glob cfg G Ex s.files s.acked s.persisted s.loaded s.up
  jobs : ∀ k j, s.jobs k = some j → ∃ f, s.files k = some f ∧
      JobInv cfg G Ex s k j f.content (if k = i then hl else specLines (f.content.take j.w.curOffset) 0 [])
  infl_job : ∀ e ∈ s.inflight, (s.jobs e.ino).isSome
  sorted : Sorted G s.inflight
  down : s.up = false → (∀ i, s.jobs i = none) ∧ s.inflight = []
  skipped : ∀ e ∈ s.skipped, ¬ Ex e.ino → CoversG G s.acked e.ino (e.off, e.data)
  bad : ∀ e ∈ s.inflight, ¬ G e → ∃ j, s.jobs e.ino = some j ∧ e.seq ≤ j.ignoreLE
  fresh : ∀ i off data, G ⟨i, cfg.streamOf data, off, s.seqs i (cfg.streamOf data) + 1, data⟩
  exJob : ∀ i, Ex i → (s.jobs i).isSome

theorem Inv.toMid {s : State} {i : Nat} {j : JobSt} {f : FileSt}
    (hj : s.jobs i = some j) (hf : s.files i = some f) (h : Inv cfg G Ex s) :
    MidInv cfg G Ex s i (specLines (f.content.take j.w.curOffset) 0 []) := by
  refine ⟨h.glob, ?_, h.infl_job, h.sorted, h.down, h.skipped, h.bad, h.fresh, h.exJob⟩
  intro k jk hk
  obtain ⟨g, hg, hjk⟩ := h.jobs k jk hk
  refine ⟨g, hg, ?_⟩
  by_cases hki : k = i
  · subst hki
    rw [hj] at hk; cases hk; rw [hf] at hg; cases hg
    simpa using hjk
  · simpa [hki] using hjk

theorem JobInv.hl_mono {s : State} {i : Nat} {j : JobSt} {c : Bytes} {hl hl' : List (Nat × Bytes)}
    (h : JobInv cfg G Ex s i j c hl) (hsub : ∀ x ∈ hl, x ∈ hl')
    (hnew : ∀ l ∈ hl', l ∉ hl → cfg.accept l.2 = true → Handled G s i l) : JobInv cfg G Ex s i j c hl' := by
  refine ⟨h.skip, h.le, h.tail, ?_, h.offs, h.wit,
    fun e he hg hei => ⟨hsub _ (h.infl e he hg hei).1, (h.infl e he hg hei).2⟩⟩
  intro l hl1 hacc
  by_cases hin : l ∈ hl
  · exact h.handled l hin hacc
  · exact hnew l hl1 hin hacc

/-- one `In` call -/
theorem mid_inOne (hgu : GoodUp G) {s : State} {i : Nat} {hl : List (Nat × Bytes)} {j : JobSt} {f : FileSt}
    (hj : s.jobs i = some j) (hf : s.files i = some f) (l : Nat × Bytes)
    (hline : l ∈ specLines f.content 0 []) (hlt : ∀ x ∈ hl, x.1 < l.1)
    (h : MidInv cfg G Ex s i hl) :
    MidInv cfg G Ex (inOne cfg i s l) i (hl ++ [l]) ∧ (inOne cfg i s l).files = s.files ∧
      ((inOne cfg i s l).jobs i).isSome := by
  have hsub : ∀ x ∈ hl, x ∈ hl ++ [l] := fun x hx => List.mem_append_left _ hx
  obtain ⟨f', hf', hji⟩ := h.jobs i j hj
  rw [hf] at hf'; cases hf'
  simp only [↓reduceIte] at hji
  have hup : s.up = true := by
    cases hu : s.up with
    | true => rfl
    | false => have := (h.down hu).1 i; rw [hj] at this; cases this
  unfold inOne
  simp only [hj]
  split
  · rename_i hacc
    split
    · -- passed: a new in-flight event, good because it is the next of its pipeline stream
      rename_i hpass
      have hgnew : G ⟨i, cfg.streamOf l.2, l.1, s.seqs i (cfg.streamOf l.2) + 1, l.2⟩ := h.fresh i l.1 l.2
      refine ⟨⟨h.glob, ?_, ?_, ?_, ?_, h.skipped, ?_, ?_, ?_⟩, rfl, by simp⟩
      · intro k jk hk
        by_cases hki : k = i
        · subst hki
          simp only [upd_same] at hk; cases hk
          refine ⟨f, hf, ?_⟩
          simp only [↓reduceIte]
          refine ⟨hji.skip, hji.le, hji.tail, ?_, hji.offs, hji.wit, ?_⟩
          · intro x hx hxa
            rcases List.mem_append.1 hx with hx | hx
            · exact (hji.handled x hx hxa).mono (fun _ h => h) (fun e he _ => Or.inl (List.mem_append_left _ he))
            · simp at hx; subst hx
              exact Or.inr ⟨_, List.mem_append_right _ (List.mem_singleton.2 rfl), hgnew, rfl, rfl, rfl⟩
          · intro e he hge hei
            rcases List.mem_append.1 he with he | he
            · exact ⟨hsub _ (hji.infl e he hge hei).1, (hji.infl e he hge hei).2⟩
            · simp at he; subst he; exact ⟨by simp, rfl⟩
        · simp only [upd_other _ _ hki] at hk
          obtain ⟨g, hg, hjk⟩ := h.jobs k jk hk
          refine ⟨g, hg, ?_⟩
          simp only [hki, ↓reduceIte] at hjk ⊢
          refine hjk.transfer (fun _ h => h) (fun e he _ => Or.inl (List.mem_append_left _ he)) ?_
          intro e he _ hek
          rcases List.mem_append.1 he with he | he
          · exact he
          · simp at he; subst he; exact absurd hek.symm hki
      · intro e he
        rcases List.mem_append.1 he with he | he
        · by_cases hei : e.ino = i
          · simp [hei]
          · simp only [upd_other _ _ hei]; exact h.infl_job e he
        · simp at he; subst he; simp
      · refine List.pairwise_append.2 ⟨h.sorted, by simp, ?_⟩
        intro a ha b hb hga _ hab
        simp at hb; subst hb
        exact hlt _ (hji.infl a ha hga hab).1
      · intro hdown; simp [hup] at hdown
      · intro e he hge
        rcases List.mem_append.1 he with he | he
        · obtain ⟨je, hje, hle⟩ := h.bad e he hge
          by_cases hei : e.ino = i
          · rw [hei, hj] at hje; cases hje
            exact ⟨{ j with lastSeq := s.seqs i (cfg.streamOf l.2) + 1 }, by rw [hei]; simp, hle⟩
          · exact ⟨je, by simp only [upd_other _ _ hei]; exact hje, hle⟩
        · simp at he; subst he; exact absurd hgnew hge
      · intro k off data
        by_cases hk : k = i ∧ cfg.streamOf data = cfg.streamOf l.2
        · obtain ⟨rfl, hst⟩ := hk
          simp only [hst, and_self, ↓reduceIte]
          have := h.fresh k off data
          rw [hst] at this
          exact hgu _ _ _ _ _ _ _ _ (Nat.le_succ _) this
        · simp only [hk, ↓reduceIte]; exact h.fresh k off data
      · intro k hk
        by_cases hki : k = i
        · simp [hki]
        · simp only [upd_other _ _ hki]; exact h.exJob k hk
    · -- skipped by PassEvent: the line is below its stream's committed offset, hence acked
      rename_i hpass
      have hcov : CoversG G s.acked i l := by
        unfold passEvent at hpass
        split at hpass
        · simp at hpass
        · rename_i o ho
          have hle : l.1 ≤ o := by simpa using hpass
          have hso := hji.offs _ (oget_mem ho)
          exact hso.covered l (specLines_mem_take hline hle hso.le) hacc rfl
      refine ⟨⟨h.glob, ?_, h.infl_job, h.sorted, h.down, ?_, h.bad, h.fresh, h.exJob⟩, rfl, by simp [hj]⟩
      · intro k jk hk
        obtain ⟨g, hg, hjk⟩ := h.jobs k jk hk
        refine ⟨g, hg, ?_⟩
        by_cases hki : k = i
        · subst hki
          rw [hf] at hg; cases hg
          simp only [↓reduceIte] at hjk ⊢
          refine (hjk.hl_mono hsub ?_).same rfl rfl
          intro x hx hnx _
          rcases List.mem_append.1 hx with hx | hx
          · exact absurd hx hnx
          · simp at hx; subst hx; exact Or.inl hcov
        · simp only [hki, ↓reduceIte] at hjk ⊢
          exact hjk.same rfl rfl
      · intro e he hge
        rcases List.mem_append.1 he with he | he
        · exact h.skipped e he hge
        · simp at he; subst he; exact hcov
  · -- not admitted by the pipeline: nothing happens
    rename_i hacc
    refine ⟨⟨h.glob, ?_, h.infl_job, h.sorted, h.down, h.skipped, h.bad, h.fresh, h.exJob⟩, rfl, by simp [hj]⟩
    intro k jk hk
    obtain ⟨g, hg, hjk⟩ := h.jobs k jk hk
    refine ⟨g, hg, ?_⟩
    by_cases hki : k = i
    · subst hki
      simp only [↓reduceIte] at hjk ⊢
      refine hjk.hl_mono hsub ?_
      intro x hx hnx hxa
      rcases List.mem_append.1 hx with hx | hx
      · exact absurd hx hnx
      · simp at hx; subst hx; exact absurd hxa hacc
    · simpa [hki] using hjk

/-- all the `In` calls of a turn -/
theorem mid_fold (hgu : GoodUp G) {i : Nat} {f : FileSt} :
    ∀ (todo : List (Nat × Bytes)) (s : State) (hl : List (Nat × Bytes)),
      MidInv cfg G Ex s i hl → s.files i = some f → (s.jobs i).isSome →
      (∀ y ∈ todo, y ∈ specLines f.content 0 []) →
      (∀ x ∈ hl, ∀ y ∈ todo, x.1 < y.1) → todo.Pairwise (fun x y => x.1 < y.1) →
      MidInv cfg G Ex (todo.foldl (inOne cfg i) s) i (hl ++ todo) ∧
        (todo.foldl (inOne cfg i) s).files = s.files ∧ ((todo.foldl (inOne cfg i) s).jobs i).isSome := by
  intro todo
  induction todo with
  | nil => intro s hl h _ hj _ _ _; simpa using ⟨h, hj⟩
  | cons y ys ih =>
    intro s hl h hf hj hlines hlt hpw
    obtain ⟨j, hj'⟩ := Option.isSome_iff_exists.1 hj
    obtain ⟨h1, hfiles, hj1⟩ := mid_inOne hgu hj' hf y (hlines y (by simp)) (fun x hx => hlt x hx y (by simp)) h
    have hpw' := List.pairwise_cons.1 hpw
    have := ih (inOne cfg i s y) (hl ++ [y]) h1 (by rw [hfiles]; exact hf) hj1
      (fun z hz => hlines z (List.mem_cons_of_mem _ hz))
      (by
        intro x hx z hz
        rcases List.mem_append.1 hx with hx | hx
        · exact hlt x hx z (List.mem_cons_of_mem _ hz)
        · simp at hx; subst hx; exact hpw'.1 z hz)
      hpw'.2
    simp only [List.foldl_cons]
    refine ⟨by simpa [List.append_assoc] using this.1, by rw [this.2.1, hfiles], this.2.2⟩

/-- **a worker turn preserves the invariant** (the file was not truncated: the job's offset is
    within the file, so `processEOF` finds nothing) -/
theorem inv_readTurn (hgu : GoodUp G) {s : State} {i : Nat} {f : FileSt} {j : JobSt} {reads : List Bytes}
    (hf : s.files i = some f) (hj : s.jobs i = some j)
    (hpre : reads.flatten <+: f.content.drop j.w.curOffset) (h : Inv cfg G Ex s) :
    Inv cfg G Ex (readTurn cfg s i f j reads) := by
  obtain ⟨f', hf', hji⟩ := h.jobs i j hj
  rw [hf] at hf'; cases hf'
  obtain ⟨rest, hrest⟩ := hpre
  have hcur := hji.le
  -- the bytes consumed by the turn
  have hsplit : f.content = f.content.take j.w.curOffset ++ (reads.flatten ++ rest) := by
    rw [hrest, List.take_append_drop]
  have hlen : j.w.curOffset + reads.flatten.length ≤ f.content.length := by
    have := congrArg List.length hsplit
    rw [List.length_append, List.length_append, List.length_take, Nat.min_eq_left hcur] at this; omega
  have htake : f.content.take (j.w.curOffset + reads.flatten.length)
      = f.content.take j.w.curOffset ++ reads.flatten := by
    conv => lhs; rw [hsplit]
    rw [List.take_append, List.length_take, Nat.min_eq_left hcur]
    simp [List.take_take]
  have hlines : specLines (f.content.take (j.w.curOffset + reads.flatten.length)) 0 []
      = specLines (f.content.take j.w.curOffset) 0 [] ++ specLines reads.flatten j.w.curOffset j.w.tail := by
    rw [htake, specLines_append, hji.tail]; simp [List.length_take, Nat.min_eq_left hcur]
  have htail : specTail (f.content.take (j.w.curOffset + reads.flatten.length)) []
      = specTail reads.flatten j.w.tail := by
    rw [htake, specTail_append, hji.tail]
  unfold readTurn
  rw [turn_lit j.w hji.skip reads]
  simp only
  have hfold := mid_fold (cfg := cfg) (G := G) (Ex := Ex) hgu (i := i) (f := f)
    (specLines reads.flatten j.w.curOffset j.w.tail) s
    (specLines (f.content.take j.w.curOffset) 0 []) (h.toMid hj hf) hf (by simp [hj])
    (by
      intro y hy
      have : y ∈ specLines (f.content.take (j.w.curOffset + reads.flatten.length)) 0 [] := by
        rw [hlines]; exact List.mem_append_right _ hy
      exact specLines_take_sub _ _ this)
    (by
      intro x hx y hy
      have h1 := (specLines_off hx).2
      have h2 := (specLines_off hy).1
      simp [List.length_take] at h1; omega)
    (specLines_pairwise _ _ _)
  obtain ⟨hmid, hfiles, hjs⟩ := hfold
  obtain ⟨j1, hj1⟩ := Option.isSome_iff_exists.1 hjs
  simp only [hj1]
  have hnot : ¬ (j.w.curOffset + reads.flatten.length > f.content.length) := by omega
  simp only [hnot, ↓reduceIte]
  have hf1 : (List.foldl (inOne cfg i) s (specLines reads.flatten j.w.curOffset j.w.tail)).files i = some f := by
    rw [hfiles]; exact hf
  refine ⟨hmid.glob, ?_, ?_, hmid.sorted, ?_, hmid.skipped, ?_, hmid.fresh, ?_⟩
  · intro k jk hk
    by_cases hki : k = i
    · subst hki
      simp only [upd_same] at hk; cases hk
      obtain ⟨g, hg, hjk⟩ := hmid.jobs k j1 hj1
      rw [hf1] at hg; cases hg
      simp only [↓reduceIte] at hjk
      refine ⟨f, hf1, ?_⟩
      simp only
      rw [hlines]
      exact ⟨rfl, hlen, htail, fun l hl ha => (hjk.handled l hl ha).mono (fun _ h => h) (fun _ h _ => Or.inl h),
        hjk.offs, hjk.wit, hjk.infl⟩
    · simp only [upd_other _ _ hki] at hk
      obtain ⟨g, hg, hjk⟩ := hmid.jobs k jk hk
      refine ⟨g, hg, ?_⟩
      simp only [hki, ↓reduceIte] at hjk
      exact hjk.same rfl rfl
  · intro e he
    by_cases hei : e.ino = i
    · simp [hei]
    · simp only [upd_other _ _ hei]; exact hmid.infl_job e he
  · intro hdown
    have := (hmid.down hdown).1 i
    rw [hj1] at this; cases this
  · intro e he hge
    obtain ⟨je, hje, hle⟩ := hmid.bad e he hge
    by_cases hei : e.ino = i
    · rw [hei, hj1] at hje; cases hje
      exact ⟨{ j1 with w := ⟨j.w.curOffset + reads.flatten.length, specTail reads.flatten j.w.tail, false⟩ },
        by rw [hei]; simp only [upd_same], hle⟩
    · exact ⟨je, by simp only [upd_other _ _ hei]; exact hje, hle⟩
  · intro k hk
    by_cases hki : k = i
    · simp [hki]
    · simp only [upd_other _ _ hki]; exact hmid.exJob k hk

end

end FileD.FileRestart
