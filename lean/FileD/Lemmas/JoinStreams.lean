/- helper lemma for C15 `no_cross_stream_merge`: under coherence the grouping spec commutes with
   the projection to one stream -/
import FileD.Lemmas.Join
namespace FileD.Join
open FileD FileD.SpecC15

def keepIn (s : Nat) (x : In) : Bool := tagOf x == s
def keepOut (s : Nat) (o : OEv) : Bool := o.tag == s

theorem joined_tag (cfg : Cfg) (f : Ev) (cs : List Ev) : (joined cfg f cs).tag = f.tag := rfl

theorem emit_run_openRun (cfg : Cfg) (f : Ev) (cs : List Ev) (e : Ev) (cs' : List Ev) (ss : List Seg) :
    emit cfg (.run f cs :: openRun e cs' ss) = joined cfg f cs :: emit cfg (openRun e cs' ss) := by
  simp [openRun, emit]

theorem emit_filter (cfg : Cfg) (s : Nat) (items : List In) :
    (coherent cfg none items = true →
      (emit cfg (segs cfg items)).filter (keepOut s) = emit cfg (segs cfg (items.filter (keepIn s)))) ∧
    (∀ f cs, coherent cfg (some f.tag) items = true →
      (emit cfg (openRun f cs (segs cfg items))).filter (keepOut s) =
        if f.tag = s then emit cfg (openRun f cs (segs cfg (items.filter (keepIn s))))
        else emit cfg (segs cfg (items.filter (keepIn s)))) := by
  induction items with
  | nil =>
    refine ⟨fun _ => by simp [segs, emit], fun f cs _ => ?_⟩
    by_cases h : f.tag = s <;> simp [segs, openRun_nil, emit, h]
  | cons x r ih =>
    obtain ⟨ihI, ihO⟩ := ih
    refine ⟨fun hc => ?_, fun f cs hc => ?_⟩
    · -- no run open: any stream may come next
      simp only [coherent, Bool.true_and] at hc
      cases x with
      | timeout t =>
        have hc' : coherent cfg none r = true := by simpa [openAfter] using hc
        by_cases hk : t = s
        · simp [List.filter_cons, keepIn, tagOf, hk, segs, emit, ihI hc']
        · simp [List.filter_cons, keepIn, tagOf, hk, segs, emit, ihI hc']
      | ev e =>
        cases hcl : classify cfg e with
        | start =>
          have hc' : coherent cfg (some e.tag) r = true := by simpa [openAfter, hcl] using hc
          have := ihO e [] hc'
          by_cases hk : e.tag = s
          · simp only [hk, ↓reduceIte] at this
            simp [List.filter_cons, keepIn, tagOf, hk, segs_start hcl, this]
          · simp only [hk, ↓reduceIte] at this
            simp [List.filter_cons, keepIn, tagOf, hk, segs_start hcl, this]
        | cont =>
          have hc' : coherent cfg none r = true := by simpa [openAfter, hcl] using hc
          by_cases hk : e.tag = s
          · simp [List.filter_cons, keepIn, keepOut, tagOf, hk, segs_cont hcl, emit, Ev.out, ihI hc']
          · simp [List.filter_cons, keepIn, keepOut, tagOf, hk, segs_cont hcl, emit, Ev.out, ihI hc']
        | other =>
          have hc' : coherent cfg none r = true := by simpa [openAfter, hcl] using hc
          by_cases hk : e.tag = s
          · simp [List.filter_cons, keepIn, keepOut, tagOf, hk, segs_other hcl, emit, Ev.out, ihI hc']
          · simp [List.filter_cons, keepIn, keepOut, tagOf, hk, segs_other hcl, emit, Ev.out, ihI hc']
    · -- the run of `f` is open: the next call belongs to the same stream
      simp only [coherent, Bool.and_eq_true, beq_iff_eq] at hc
      obtain ⟨htag, hc⟩ := hc
      cases x with
      | timeout t =>
        have ht : t = f.tag := by simpa [tagOf] using htag
        have hc' : coherent cfg none r = true := by simpa [openAfter] using hc
        subst ht
        by_cases hk : f.tag = s
        · simp [List.filter_cons, keepIn, keepOut, tagOf, hk, segs, openRun_tmo, emit, joined_tag, ihI hc']
        · simp [List.filter_cons, keepIn, keepOut, tagOf, hk, segs, openRun_tmo, emit, joined_tag, ihI hc']
      | ev e =>
        have ht : e.tag = f.tag := by simpa [tagOf] using htag
        cases hcl : classify cfg e with
        | start =>
          have hc' : coherent cfg (some e.tag) r = true := by simpa [openAfter, hcl] using hc
          have := ihO e [] hc'
          by_cases hk : f.tag = s
          · have hke : e.tag = s := by rw [ht, hk]
            simp only [hke, ↓reduceIte] at this
            rw [segs_start hcl, openRun_openRun, emit_run_openRun]
            simp [List.filter_cons, keepIn, keepOut, tagOf, hk, hke, segs_start hcl, joined_tag, this,
              openRun_openRun, emit_run_openRun]
          · have hke : ¬ e.tag = s := by rw [ht]; exact hk
            simp only [hke, ↓reduceIte] at this
            rw [segs_start hcl, openRun_openRun, emit_run_openRun]
            simp [List.filter_cons, keepIn, keepOut, tagOf, hk, hke, segs_start hcl, joined_tag, this]
        | cont =>
          have hc' : coherent cfg (some f.tag) r = true := by simpa [openAfter, hcl] using hc
          have := ihO f (cs ++ [e]) hc'
          by_cases hk : f.tag = s
          · have hke : e.tag = s := by rw [ht, hk]
            simp only [hk, ↓reduceIte] at this
            simp [List.filter_cons, keepIn, tagOf, hk, hke, segs_cont hcl, openRun_orphan, this]
          · have hke : ¬ e.tag = s := by rw [ht]; exact hk
            simp only [hk, ↓reduceIte] at this
            simp [List.filter_cons, keepIn, tagOf, hk, hke, segs_cont hcl, openRun_orphan, this]
        | other =>
          have hc' : coherent cfg none r = true := by simpa [openAfter, hcl] using hc
          by_cases hk : f.tag = s
          · have hke : e.tag = s := by rw [ht, hk]
            simp [List.filter_cons, keepIn, keepOut, tagOf, hk, hke, segs_other hcl, openRun_single, emit,
              joined_tag, Ev.out, ihI hc']
          · have hke : ¬ e.tag = s := by rw [ht]; exact hk
            simp [List.filter_cons, keepIn, keepOut, tagOf, hk, hke, segs_other hcl, openRun_single, emit,
              joined_tag, Ev.out, ihI hc']

end FileD.Join
