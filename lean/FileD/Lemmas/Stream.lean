/-
  Inductive invariant of the stream / streamer model (Model/Stream.lean).
  `SInv x cN`: the facts about one stream record `x` whose multiplicity in `charged` is `cN`.
-/
import FileD.Model.Stream
import FileD.Prelude.TS
import FileD.Lemmas.Pool
namespace FileD.Stream

def b2n (b : Bool) : Nat := if b then 1 else 0

/-- places where an unowned stream with events can be: in `charged`, popped (window), attached,
    or about to be charged by the running critical section -/
def tokens (x : S1) (cN : Nat) : Nat :=
  cN + b2n x.popper.isSome + b2n x.attached + b2n (x.pend == .charge)

structure SInv (x : S1) (cN : Nat) : Prop where
  one : tokens x cN ≤ 1
  ne : x.q ≠ [] → tokens x cN = 1
  em : x.q = [] → cN = 0 ∧ x.popper = none ∧ x.pend ≠ .charge
  det : x.detaching = true → x.attached = true
  own : x.owner.isSome = (x.attached && !x.detaching)
  wt : x.waiting = true → x.q = [] ∧ x.owner.isSome = true ∧ x.notified = false
  nt : x.notified = true → x.q ≠ [] ∧ x.owner.isSome = true
  pd : x.pend = .detach → x.attached = true ∧ x.detaching = true ∧ x.away = x.commit
  /-- `stream.len` is the number of queued regular events MINUS the time-out events taken so far -/
  ln : x.len = (regCount x.q : Int) - x.tmos

theorem sinv_init : SInv {} 0 := by
  constructor <;> simp [tokens, b2n, regCount]

macro "sinv_tac" : tactic =>
  `(tactic| (constructor <;> simp_all [tokens, b2n, signalOwner, detachDue, regCount] <;> (try omega)))

theorem sinv_put (x : S1) (cN off seq : Nat) (h : SInv x cN) (hp : x.pend = .none) :
    SInv (x.put off seq) cN := by
  obtain ⟨one, ne, em, det, own, wt, nt, pd, ln⟩ := h
  unfold S1.put
  by_cases hq : x.q = []
  · have := em hq
    cases ha : x.attached <;> cases hw : x.waiting <;> sinv_tac
  · have := ne hq
    have hw : x.waiting = false := by
      cases hw : x.waiting
      · rfl
      · exact absurd (wt hw).1 hq
    sinv_tac

theorem sinv_charge (x : S1) (cN : Nat) (h : SInv x cN) (hp : x.pend = .charge) :
    SInv x.charge (cN + 1) := by
  obtain ⟨one, ne, em, det, own, wt, nt, pd, ln⟩ := h
  unfold S1.charge
  by_cases hq : x.q = []
  · exact absurd hp (em hq).2.2
  · have := ne hq
    sinv_tac

theorem sinv_pop (x : S1) (cN p : Nat) (h : SInv x (cN + 1)) : SInv (x.pop p) cN := by
  obtain ⟨one, ne, em, det, own, wt, nt, pd, ln⟩ := h
  unfold S1.pop
  by_cases hq : x.q = []
  · have := (em hq).1; omega
  · have := ne hq
    sinv_tac

/-- attach never reaches its Panicf -/
theorem attach_ok (x : S1) (cN p : Nat) (h : SInv x cN) (hpop : x.popper = some p) :
    ¬ (x.attached = true ∨ x.detaching = true ∨ x.q = []) := by
  obtain ⟨one, ne, em, det, own, wt, nt, pd, ln⟩ := h
  intro hc
  rcases hc with hc | hc | hc
  · simp [tokens, b2n, hpop, hc] at one; omega
  · have := det hc; simp [tokens, b2n, hpop, this] at one; omega
  · have := (em hc).2.1; simp [hpop] at this

theorem sinv_attach (x : S1) (cN p : Nat) (h : SInv x cN) (hpop : x.popper = some p) (hp : x.pend = .none) :
    SInv (x.attach p) cN := by
  have hok := attach_ok x cN p h hpop
  obtain ⟨one, ne, em, det, own, wt, nt, pd, ln⟩ := h
  unfold S1.attach
  have ha : x.attached = false := by cases h : x.attached <;> simp_all
  have hd : x.detaching = false := by cases h : x.detaching <;> simp_all
  have hq : x.q ≠ [] := fun h => hok (Or.inr (Or.inr h))
  have := ne hq
  sinv_tac

/-- get / leave / blockGet never reach their Panicf -/
theorem owner_ok (x : S1) (cN p : Nat) (h : SInv x cN) (ho : x.owner = some p) :
    x.attached = true ∧ x.detaching = false := by
  have := h.own
  simp [ho] at this
  exact ⟨this.1, this.2⟩

theorem sinv_get (x : S1) (cN p : Nat) (e : Ev) (rest : List Ev) (h : SInv x cN)
    (ho : x.owner = some p) (hw : x.waiting = false) (hq : x.q = e :: rest) (hp : x.pend = .none) :
    SInv (x.get e rest) cN := by
  have hok := owner_ok x cN p h ho
  obtain ⟨one, ne, em, det, own, wt, nt, pd, ln⟩ := h
  unfold S1.get
  have := ne (by simp [hq])
  cases ht : e.timeout <;> sinv_tac

theorem sinv_leave (x : S1) (cN p : Nat) (h : SInv x cN)
    (ho : x.owner = some p) (hw : x.waiting = false) (hq : x.q = []) (hp : x.pend = .none) :
    SInv x.leave cN := by
  have hok := owner_ok x cN p h ho
  obtain ⟨one, ne, em, det, own, wt, nt, pd, ln⟩ := h
  unfold S1.leave
  have hn : x.notified = false := by
    cases hn : x.notified
    · rfl
    · exact absurd hq (nt hn).1
  have := em hq
  by_cases hac : x.away = x.commit <;> sinv_tac

theorem sinv_detach (x : S1) (cN : Nat) (h : SInv x cN) (hp : x.pend = .detach) :
    SInv x.detach cN := by
  obtain ⟨one, ne, em, det, own, wt, nt, pd, ln⟩ := h
  unfold S1.detach
  have := pd hp
  have hw : x.waiting = false := by
    cases hw : x.waiting
    · rfl
    · have := (wt hw).2.1; simp_all
  have hn : x.notified = false := by
    cases hn : x.notified
    · rfl
    · have := (nt hn).2; simp_all
  by_cases hq : x.q = []
  · have := em hq; sinv_tac
  · have := ne hq; sinv_tac

theorem sinv_commit (x : S1) (cN seq : Nat) (h : SInv x cN) (hp : x.pend = .none) :
    SInv (x.doCommit seq) cN := by
  obtain ⟨one, ne, em, det, own, wt, nt, pd, ln⟩ := h
  unfold S1.doCommit
  by_cases hd : x.detaching = true
  · have := det hd
    by_cases hac : x.away = seq <;> sinv_tac
  · sinv_tac

theorem sinv_stale (x : S1) (cN seq : Nat) (h : SInv x cN) : SInv (x.stale seq) cN := by
  obtain ⟨one, ne, em, det, own, wt, nt, pd, ln⟩ := h
  unfold S1.stale
  constructor <;> simp_all [tokens]

theorem sinv_bwait (x : S1) (cN p : Nat) (h : SInv x cN)
    (ho : x.owner = some p) (hq : x.q = []) (hp : x.pend = .none) : SInv x.bwait cN := by
  obtain ⟨one, ne, em, det, own, wt, nt, pd, ln⟩ := h
  unfold S1.bwait
  have := em hq
  sinv_tac

theorem sinv_timeout (x : S1) (cN : Nat) (h : SInv x cN)
    (hb : x.waiting = true ∨ x.notified = true) (hq : x.q = []) (hp : x.pend = .none) :
    SInv x.timeout cN := by
  obtain ⟨one, ne, em, det, own, wt, nt, pd, ln⟩ := h
  have hw : x.waiting = true := by
    rcases hb with hb | hb
    · exact hb
    · exact absurd hq (nt hb).1
  have := wt hw
  have := em hq
  unfold S1.timeout
  cases ha : x.attached <;> cases hd : x.detaching <;> sinv_tac

/-! ## the global invariant -/

def isWoken : PPc → Bool | .woken => true | _ => false

structure GInv (st : St) : Prop where
  str : ∀ s x, st.streams[s]? = some x → SInv x (st.charged.count s)
  np : st.panicked = false
  pq : ∀ p, p ∈ st.parkedQ → st.procs[p]? = some .parked
  nd : st.parkedQ.Nodup
  /-- nobody sleeps in joinStream un-notified while a charged stream is unclaimed -/
  jn : st.parkedQ ≠ [] → st.charged.length ≤ st.procs.countP isWoken

theorem ginv_init (ns np : Nat) : GInv (init ns np) := by
  constructor
  · intro s x h
    simp [init, List.getElem?_replicate] at h
    rw [← h.2]; simpa [init] using sinv_init
  · rfl
  · simp [init]
  · simp [init]
  · simp [init]

theorem str_upd (st : St) (s0 : Nat) (x0 x0' : S1) (ch' : List Nat)
    (h : ∀ s x, st.streams[s]? = some x → SInv x (st.charged.count s))
    (_h0 : st.streams[s0]? = some x0)
    (hx : SInv x0' (ch'.count s0))
    (hc : ∀ s, s ≠ s0 → ch'.count s = st.charged.count s) :
    ∀ s x, (st.streams.set s0 x0')[s]? = some x → SInv x (ch'.count s) := by
  intro s x hs
  rw [List.getElem?_set] at hs
  split at hs
  · rename_i heq; subst heq
    split at hs
    · simp at hs; subst hs; exact hx
    · simp at hs
  · rename_i hne
    rw [hc s (fun e => hne e.symm)]
    exact h s x hs

theorem count_snoc (l : List Nat) (a s : Nat) :
    (l ++ [a]).count s = l.count s + (if a = s then 1 else 0) := by
  simp [List.count_append, List.count_singleton]

theorem count_dropLast (l : List Nat) (a s : Nat) (h : l.getLast? = some a) :
    l.count s = l.dropLast.count s + (if a = s then 1 else 0) := by
  obtain ⟨ys, rfl⟩ := List.getLast?_eq_some_iff.mp h
  rw [List.dropLast_concat]; exact count_snoc _ _ _

theorem length_dropLast_of_getLast (l : List Nat) (a : Nat) (h : l.getLast? = some a) :
    l.length = l.dropLast.length + 1 := by
  obtain ⟨ys, rfl⟩ := List.getLast?_eq_some_iff.mp h
  simp

theorem ginv_setS (st : St) (s : Nat) (x x' : S1) (h : GInv st) (hs : st.streams[s]? = some x)
    (hx : SInv x' (st.charged.count s)) : GInv (setS st s x') :=
  ⟨str_upd st s x x' st.charged h.str hs hx (fun _ _ => rfl), h.np, h.pq, h.nd, h.jn⟩

theorem get_set_ne {α} (l : List α) (i j : Nat) (a : α) (h : i ≠ j) : (l.set i a)[j]? = l[j]? := by
  simp [List.getElem?_set, h]

theorem canJoin_cases (pc : PPc) (h : canJoin pc = true) : pc = .idle ∨ pc = .woken := by
  cases pc <;> simp [canJoin] at h ⊢

theorem step_ginv (st st' : St) (op : Op) (h : GInv st) (hs : step? st op = some st') : GInv st' := by
  cases op with
  | put s off seq =>
    simp only [step?] at hs
    split at hs
    · rename_i x hx
      split at hs
      · rename_i hc; simp at hs; subst hs
        exact ginv_setS st s x _ h hx (sinv_put x _ off seq (h.str s x hx) hc.1)
      · simp at hs
    · simp at hs
  | attach p s =>
    simp only [step?] at hs
    split at hs
    · rename_i x hx
      split at hs
      · rename_i hc
        split at hs
        · rename_i hbad
          exact absurd hbad (attach_ok x _ p (h.str s x hx) hc.1)
        · simp at hs; subst hs
          exact ginv_setS st s x _ h hx (sinv_attach x _ p (h.str s x hx) hc.1 hc.2)
      · simp at hs
    · simp at hs
  | get p s off seq k =>
    simp only [step?] at hs
    split at hs
    · rename_i x hx
      split at hs
      · rename_i hc
        split at hs
        · simp at hs
        · rename_i e rest hq
          split at hs
          · split at hs
            · rename_i hbad
              have := owner_ok x _ p (h.str s x hx) hc.2.1
              rcases hbad with hb | hb <;> simp_all
            · simp at hs; subst hs
              exact ginv_setS st s x _ h hx (sinv_get x _ p e rest (h.str s x hx) hc.2.1 hc.2.2 hq hc.1)
          · simp at hs
      · simp at hs
    · simp at hs
  | detach s =>
    simp only [step?] at hs
    split at hs
    · rename_i x hx
      split at hs
      · rename_i hc; simp at hs; subst hs
        exact ginv_setS st s x _ h hx (sinv_detach x _ (h.str s x hx) hc)
      · simp at hs
    · simp at hs
  | commit s seq =>
    simp only [step?] at hs
    split at hs
    · rename_i x hx
      split at hs
      · rename_i hc; simp at hs; subst hs
        exact ginv_setS st s x _ h hx (sinv_commit x _ seq (h.str s x hx) hc.1)
      · simp at hs
    · simp at hs
  | stale s seq =>
    simp only [step?] at hs
    split at hs
    · rename_i x hx
      split at hs
      · rename_i hc; simp at hs; subst hs
        exact ginv_setS st s x _ h hx (sinv_stale x _ seq (h.str s x hx))
      · simp at hs
    · simp at hs
  | bwait p s =>
    simp only [step?] at hs
    split at hs
    · rename_i x hx
      split at hs
      · rename_i hc
        split at hs
        · rename_i hbad
          have := owner_ok x _ p (h.str s x hx) hc.2.1
          simp_all
        · simp at hs; subst hs
          exact ginv_setS st s x _ h hx (sinv_bwait x _ p (h.str s x hx) hc.2.1 hc.2.2.2 hc.1)
      · simp at hs
    · simp at hs
  | timeout s =>
    simp only [step?] at hs
    split at hs
    · rename_i x hx
      split at hs
      · rename_i hc
        split at hs
        · simp at hs; subst hs
          exact ⟨h.str, h.np, h.pq, h.nd, h.jn⟩
        · simp at hs; subst hs
          exact ginv_setS st s x _ h hx (sinv_timeout x _ (h.str s x hx) hc.2.1 hc.2.2 hc.1)
      · simp at hs
    · simp at hs
  | charge s =>
    simp only [step?] at hs
    split at hs
    · rename_i x hx
      split at hs
      · rename_i hc
        have hstr : ∀ s' x', (st.streams.set s x.charge)[s']? = some x' →
            SInv x' ((st.charged ++ [s]).count s') := by
          apply str_upd st s x x.charge (st.charged ++ [s]) h.str hx
          · rw [count_snoc]; simpa using sinv_charge x _ (h.str s x hx) hc
          · intro s' hne; rw [count_snoc]; have : ¬ s = s' := fun e => hne e.symm; simp [this]
        split at hs
        · rename_i hq
          simp at hs; subst hs
          exact ⟨hstr, h.np, by simp [setS, hq], by simp [setS, hq], by simp [setS, hq]⟩
        · rename_i p rest hq
          simp at hs; subst hs
          have hnd := h.nd; rw [hq] at hnd
          have hpp : st.procs[p]? = some .parked := h.pq p (by simp [hq])
          have hcnt := FileD.Pool.countP_set_of_get isWoken st.procs p .parked .woken hpp
          simp [isWoken] at hcnt
          refine ⟨hstr, h.np, ?_, ?_, ?_⟩
          · intro q hqm
            simp only [setP, setS] at hqm ⊢
            have hne : p ≠ q := by
              intro e; subst e
              exact (List.nodup_cons.mp hnd).1 hqm
            rw [get_set_ne _ _ _ _ hne]
            exact h.pq q (by simp [hq, hqm])
          · simp only [setP, setS]; exact (List.nodup_cons.mp hnd).2
          · intro _
            have := h.jn (by simp [hq])
            simp only [setP, setS, List.length_append, List.length_singleton]
            omega
      · simp at hs
    · simp at hs
  | pop p s =>
    simp only [step?] at hs
    split at hs
    · rename_i pc x hpc hx
      split at hs
      · rename_i hc
        simp at hs; subst hs
        have hcd := count_dropLast st.charged s
        have hlen := length_dropLast_of_getLast st.charged s hc.2
        have hstr : ∀ s' x', (st.streams.set s (x.pop p))[s']? = some x' →
            SInv x' (st.charged.dropLast.count s') := by
          apply str_upd st s x (x.pop p) st.charged.dropLast h.str hx
          · have h1 := h.str s x hx
            have := hcd s hc.2; simp at this
            rw [this] at h1
            exact sinv_pop x _ p h1
          · intro s' hne
            have := hcd s' hc.2
            have hn : ¬ s = s' := fun e => hne e.symm
            simp [hn] at this
            exact this.symm
        have hnp : p ∉ st.parkedQ := by
          intro hm
          have := h.pq p hm
          rw [hpc] at this
          rcases canJoin_cases pc hc.1 with e | e <;> simp_all
        refine ⟨hstr, h.np, ?_, h.nd, ?_⟩
        · intro q hqm
          have hne : p ≠ q := fun e => hnp (e ▸ hqm)
          simp only [setP, setS]
          rw [get_set_ne _ _ _ _ hne]
          exact h.pq q hqm
        · intro hne
          have hj := h.jn hne
          have hcnt := FileD.Pool.countP_set_of_get isWoken st.procs p pc .busy hpc
          simp only [setP, setS]
          rcases canJoin_cases pc hc.1 with e | e <;> subst e <;> simp [isWoken] at hcnt <;> omega
      · simp at hs
    · simp at hs
  | park p =>
    simp only [step?] at hs
    split at hs
    · rename_i pc hpc
      split at hs
      · rename_i hc
        simp at hs; subst hs
        have hnp : p ∉ st.parkedQ := by
          intro hm
          have := h.pq p hm
          rw [hpc] at this
          rcases canJoin_cases pc hc.1 with e | e <;> simp_all
        refine ⟨h.str, h.np, ?_, ?_, ?_⟩
        · intro q hqm
          simp only [setP] at hqm ⊢
          rcases List.mem_append.mp hqm with hm | hm
          · have hne : p ≠ q := fun e => hnp (e ▸ hm)
            rw [get_set_ne _ _ _ _ hne]; exact h.pq q hm
          · simp at hm; subst hm
            exact FileD.Pool.get_set_self st.procs q pc .parked hpc
        · simp only [setP]
          exact List.nodup_append.mpr ⟨h.nd, by simp, by
            intro a ha b hb; simp at hb; subst hb; intro e; subst e; exact hnp ha⟩
        · intro _
          simp [setP, hc.2]
      · simp at hs
    · simp at hs
  | leave p s =>
    simp only [step?] at hs
    split at hs
    · rename_i x hx
      split at hs
      · rename_i hc
        split at hs
        · rename_i hbad
          have := owner_ok x _ p (h.str s x hx) hc.2.1
          rcases hbad with hb | hb <;> simp_all
        · simp at hs; subst hs
          have g1 := ginv_setS st s x _ h hx (sinv_leave x _ p (h.str s x hx) hc.2.1 hc.2.2.1 hc.2.2.2.1 hc.1)
          have hpb := hc.2.2.2.2
          have hnp : p ∉ st.parkedQ := by
            intro hm; have := h.pq p hm; rw [hpb] at this; simp at this
          refine ⟨g1.str, h.np, ?_, h.nd, ?_⟩
          · intro q hqm
            have hne : p ≠ q := fun e => hnp (e ▸ hqm)
            simp only [setP, setS]
            rw [get_set_ne _ _ _ _ hne]; exact h.pq q hqm
          · intro hne
            have hj := h.jn hne
            have hcnt := FileD.Pool.countP_set_of_get isWoken st.procs p .busy .idle hpb
            simp [isWoken] at hcnt
            simp only [setP, setS]; omega
      · simp at hs
    · simp at hs

theorem ginv_reachable (ns np : Nat) (st : St) (h : TS.Reachable step? (init ns np) st) : GInv st :=
  TS.invariant_reachable step? GInv (init ns np) (ginv_init ns np)
    (fun s op s' => step_ginv s s' op) st h

end FileD.Stream
