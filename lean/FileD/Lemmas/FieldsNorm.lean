/-
  `Normalised fields raw sorted norm`: the hypothesis "cfg.ParseNestedFields(fields) returned norm" shared by
  the C18 theorems, and what follows from it.
-/
import FileD.Lemmas.FieldsSpecFacts
namespace FileD.Fields
open FileD FileD.SpecC18

/-- `cfg.ParseNestedFields(fields)` returned `norm`: the selectors parsed to `raw`, `sort.Slice` rearranged
    them into `sorted` (any permutation with non-decreasing lengths — sort.Slice is not stable), the second
    loop dropped covered paths. -/
structure Normalised (fields : List Bytes) (raw sorted norm : List Path) : Prop where
  parsed : parsePaths fields = .ok raw
  perm : sorted.Perm raw
  isSorted : sorted.Pairwise (fun a b => a.length ≤ b.length)
  norm_eq : norm = dedupe sorted

/-- the stable sort is one admissible oracle: `Normalised` is inhabited for every accepted selector list -/
theorem normalised_sortLen {fields : List Bytes} {raw : List Path} (h : parsePaths fields = .ok raw) :
    Normalised fields raw (sortLen raw) (dedupe (sortLen raw)) :=
  ⟨h, sortLen_perm raw, sortLen_sorted raw, rfl⟩

theorem Normalised.cov {fields raw sorted norm} (h : Normalised fields raw sorted norm) : Cov raw norm := by
  have := cov_dedupe sorted
  rw [h.norm_eq]
  exact ⟨fun p hp => this.1 p (h.perm.mem_iff.2 hp),
    fun q hq => let ⟨p, hp, hpq⟩ := this.2 q hq; ⟨p, h.perm.mem_iff.1 hp, hpq⟩⟩

theorem Normalised.raw_ne {fields raw sorted norm} (h : Normalised fields raw sorted norm) : [] ∉ raw :=
  fun hm => (parsePaths_ok h.parsed).1 [] hm rfl

theorem Normalised.norm_sub {fields raw sorted norm} (h : Normalised fields raw sorted norm) :
    ∀ p ∈ norm, p ∈ raw := by
  intro p hp
  rw [h.norm_eq] at hp
  exact h.perm.mem_iff.1 (mem_dedupeLoop hp)

theorem Normalised.norm_ne {fields raw sorted norm} (h : Normalised fields raw sorted norm) : [] ∉ norm :=
  fun hm => h.raw_ne (h.norm_sub [] hm)

end FileD.Fields
