/-
  Invariant of M1 (Model/Core.lean) for configurations without a dead queue, and the list
  lemmas it needs. Property theorems are in Props/C01.lean and Props/C02.lean.
-/
import FileD.Model.Core
namespace FileD.Core

/-! ### list helpers -/

theorem lastSeq_foldl_ge (st : Nat) (l : List Ev) (m : Nat) :
    m ≤ l.foldl (fun m e => if e.st = st then max m e.seq else m) m := by
  induction l generalizing m with
  | nil => simp
  | cons x xs ih =>
    simp only [List.foldl_cons]
    split
    · exact Nat.le_trans (Nat.le_max_left _ _) (ih _)
    · exact ih _

theorem lastSeq_foldl_mem (st : Nat) (l : List Ev) (m : Nat) (e : Ev) (he : e ∈ l) (hst : e.st = st) :
    e.seq ≤ l.foldl (fun m e => if e.st = st then max m e.seq else m) m := by
  induction l generalizing m with
  | nil => simp at he
  | cons x xs ih =>
    simp only [List.foldl_cons]
    rcases List.mem_cons.1 he with rfl | h
    · simp only [hst, ↓reduceIte]
      exact Nat.le_trans (Nat.le_max_right _ _) (lastSeq_foldl_ge _ _ _)
    · exact ih _ h

/-- every accepted event of a stream has a sequence number ≤ `lastSeq` -/
theorem le_lastSeq {st : Nat} {l : List Ev} {e : Ev} (he : e ∈ l) (hst : e.st = st) :
    e.seq ≤ lastSeq st l := lastSeq_foldl_mem st l 0 e he hst

theorem setSt_evs {k evs st l f} (h : setSt k evs st l = some f) :
    f.flatMap (·.evs) = l.flatMap (·.evs) := by
  induction l generalizing f with
  | nil => simp [setSt] at h
  | cons b bs ih =>
    simp only [setSt] at h
    split at h
    · split at h
      · simp at h; subst h; simp
      · simp at h
    · cases hr : setSt k evs st bs with
      | none => simp [hr] at h
      | some f' => simp [hr] at h; subst h; simp [ih hr]

theorem giveUpIn_evs {k evs st l f} (h : giveUpIn k evs st false l = some f) :
    f.flatMap (·.evs) = l.flatMap (·.evs) := by
  induction l generalizing f with
  | nil => simp [giveUpIn] at h
  | cons b bs ih =>
    simp only [giveUpIn] at h
    split at h
    · simp at h; subst h; simp
    · cases hr : giveUpIn k evs st false bs with
      | none => simp [hr] at h
      | some f' => simp [hr] at h; subst h; simp [ih hr]

/-- status discipline of the sealed batches: what `ok` / `failed` mean, and no routing -/
def FullOK (acked gaveUp : List Ev) (full : List Batch) : Prop :=
  ∀ b ∈ full, (b.st = .ok → ∀ e ∈ b.evs, e ∈ acked) ∧ (b.st = .failed → ∀ e ∈ b.evs, e ∈ gaveUp) ∧ b.st ≠ .routed

theorem FullOK_mono {acked gaveUp acked' gaveUp' full} (h : FullOK acked gaveUp full)
    (ha : ∀ e ∈ acked, e ∈ acked') (hg : ∀ e ∈ gaveUp, e ∈ gaveUp') : FullOK acked' gaveUp' full := by
  intro b hb
  obtain ⟨h1, h2, h3⟩ := h b hb
  exact ⟨fun hs e he => ha e (h1 hs e he), fun hs e he => hg e (h2 hs e he), h3⟩

theorem setSt_ok_full {k evs l f acked gaveUp} (h : setSt k evs .ok l = some f)
    (hl : FullOK acked gaveUp l) : FullOK (acked ++ evs) gaveUp f := by
  induction l generalizing f with
  | nil => simp [setSt] at h
  | cons b bs ih =>
    simp only [setSt] at h
    have hbs : FullOK acked gaveUp bs := fun x hx => hl x (List.mem_cons_of_mem _ hx)
    split at h
    · split at h
      · rename_i hk hp
        simp at h; subst h
        intro x hx
        rcases List.mem_cons.1 hx with rfl | hx
        · refine ⟨fun _ e he => ?_, fun hs => by simp at hs, by simp⟩
          simp only [List.mem_append]; right; rw [← hp.2]; exact he
        · exact FullOK_mono hbs (fun e he => List.mem_append_left _ he) (fun e he => he) x hx
      · simp at h
    · cases hr : setSt k evs .ok bs with
      | none => simp [hr] at h
      | some f' =>
        simp [hr] at h; subst h
        intro x hx
        rcases List.mem_cons.1 hx with rfl | hx
        · exact FullOK_mono (fun y hy => hl y hy) (fun e he => List.mem_append_left _ he) (fun e he => he) x (List.mem_cons_self ..)
        · exact ih hr hbs x hx

theorem giveUpIn_failed_full {k evs l f acked gaveUp} (h : giveUpIn k evs .failed false l = some f)
    (hl : FullOK acked gaveUp l) : FullOK acked (gaveUp ++ evs) f := by
  induction l generalizing f with
  | nil => simp [giveUpIn] at h
  | cons b bs ih =>
    simp only [giveUpIn] at h
    have hbs : FullOK acked gaveUp bs := fun x hx => hl x (List.mem_cons_of_mem _ hx)
    split at h
    · rename_i hp
      simp at h; subst h
      intro x hx
      rcases List.mem_cons.1 hx with rfl | hx
      · refine ⟨fun hs => by simp at hs, fun _ e he => ?_, by simp⟩
        simp only [List.mem_append]; right; rw [← hp.2.2]; simpa using he
      · exact FullOK_mono hbs (fun e he => he) (fun e he => List.mem_append_left _ he) x hx
    · cases hr : giveUpIn k evs .failed false bs with
      | none => simp [hr] at h
      | some f' =>
        simp [hr] at h; subst h
        intro x hx
        rcases List.mem_cons.1 hx with rfl | hx
        · exact FullOK_mono (fun y hy => hl y hy) (fun e he => he) (fun e he => List.mem_append_left _ he) x (List.mem_cons_self ..)
        · exact ih hr hbs x hx

/-- decompositions of `l ++ [e]` around one element -/
theorem append_singleton_split {α} {l : List α} {e x : α} {pre post : List α}
    (h : l ++ [e] = pre ++ x :: post) :
    (∃ post', l = pre ++ x :: post' ∧ post = post' ++ [e]) ∨ (pre = l ∧ x = e ∧ post = []) := by
  induction pre generalizing l with
  | nil =>
    cases l with
    | nil => simp at h; right; simp [h.1, h.2]
    | cons y ys =>
      simp at h
      left; exact ⟨ys, by simp [h.1], by simp [h.2]⟩
  | cons p ps ih =>
    cases l with
    | nil =>
      simp at h
    | cons y ys =>
      simp at h
      obtain ⟨rfl, h2⟩ := h
      rcases ih h2 with ⟨post', h3, h4⟩ | ⟨h3, h4, h5⟩
      · left; exact ⟨post', by simp [h3], h4⟩
      · right; exact ⟨by simp [h3], h4, h5⟩

/-! ### the invariant -/

/-- hand-over order: an event sits in `added` only after every earlier event of its stream was
    dropped or sits before it -/
def Ordered (accepted dropped added : List Ev) : Prop :=
  ∀ pre e post, added = pre ++ e :: post →
    ∀ e' ∈ accepted, e'.st = e.st → e'.seq < e.seq → e' ∈ dropped ∨ e' ∈ pre

structure CInv (s : State) : Prop where
  noDQ     : s.hasDQ = false
  dqIdle   : s.dq.cur = [] ∧ s.dq.full = [] ∧ s.dq.committing = [] ∧ s.inbox = []
  dqKids   : s.dq.curKids = []
  layout   : s.main.done ++ s.main.full.flatMap (·.evs) ++ s.main.cur = s.main.added
  loop     : s.commits ++ s.main.committing = s.main.done
  fullOK   : FullOK s.acked s.gaveUp s.main.full
  doneFin  : ∀ e ∈ s.main.done, e ∈ s.acked ∨ e ∈ s.gaveUp
  ordered  : Ordered s.accepted s.dropped s.main.added
  nodupA   : s.main.added.Nodup
  nodupD   : s.dropped.Nodup
  disjoint : ∀ e ∈ s.main.added, e ∉ s.dropped
  addedAcc : ∀ e ∈ s.main.added, e ∈ s.accepted
  dropAcc  : ∀ e ∈ s.dropped, e ∈ s.accepted
  uniq     : ∀ e ∈ s.accepted, ∀ e' ∈ s.accepted, e.st = e'.st → e.seq = e'.seq → e = e'
  nodupAcc : s.accepted.Nodup

theorem cinv_init : CInv (init false) := by
  refine ⟨rfl, by simp [init], by simp [init], by simp [init], by simp [init], ?_, by simp [init], ?_, by simp [init],
    by simp [init], by simp [init], by simp [init], by simp [init], by simp [init], by simp [init]⟩
  · intro b hb; simp [init] at hb
  · intro pre e post h; simp [init] at h

theorem earlierDone_spec {s : State} {e : Ev} (h : earlierDone s e = true) :
    ∀ e' ∈ s.accepted, e'.st = e.st → e'.seq < e.seq → e' ∈ s.dropped ∨ e' ∈ s.main.added := by
  intro e' he' hst hlt
  simp only [earlierDone, List.all_eq_true] at h
  have := h e' he'
  simp only [hst, hlt, beq_self_eq_true, decide_true, Bool.and_self, Bool.not_true, Bool.false_or,
    Bool.or_eq_true, List.contains_eq_mem, decide_eq_true_eq] at this
  exact this

theorem cinv_step {s s' : State} {op : Op} (h : CInv s) (hs : step? s op = some s') : CInv s' := by
  obtain ⟨hnd, hdq, hdqk, hlay, hloop, hfull, hdone, hord, hnA, hnD, hdis, haA, hdA, huniq, hnAcc⟩ := h
  cases op with
  | accept e =>
    simp only [step?] at hs
    split at hs
    · rename_i hg
      simp at hs; subst hs
      have hfresh : e ∉ s.accepted := fun hin => by
        have := le_lastSeq hin rfl; omega
      refine ⟨hnd, hdq, hdqk, hlay, hloop, hfull, hdone, ?_, hnA, hnD, hdis, ?_, ?_, ?_, ?_⟩
      · intro pre x post hx e' he' hst hlt
        simp only [List.mem_append, List.mem_singleton] at he'
        rcases he' with he' | rfl
        · exact hord pre x post hx e' he' hst hlt
        · -- the new event has the largest sequence number of its stream
          have hxa : x ∈ s.accepted := haA x (by rw [hx]; simp)
          have := le_lastSeq hxa hst.symm
          omega
      · intro x hx; exact List.mem_append_left _ (haA x hx)
      · intro x hx; exact List.mem_append_left _ (hdA x hx)
      · intro x hx y hy hst hsq
        simp only [List.mem_append, List.mem_singleton] at hx hy
        rcases hx with hx | rfl <;> rcases hy with hy | rfl
        · exact huniq x hx y hy hst hsq
        · have := le_lastSeq hx hst; omega
        · have := le_lastSeq hy hst.symm; omega
        · rfl
      · exact List.nodup_append.2 ⟨hnAcc, by simp, by
          intro a ha b hb; simp at hb; subst hb; intro hab; subst hab; exact hfresh ha⟩
    · simp at hs
  | drop e =>
    simp only [step?] at hs
    split at hs
    · rename_i hg
      simp at hs; subst hs
      simp only [List.contains_eq_mem, decide_eq_true_eq, Bool.not_eq_eq_eq_not, Bool.not_true,
        decide_eq_false_iff_not] at hg
      obtain ⟨hacc, hnd', hna⟩ := hg
      refine ⟨hnd, hdq, hdqk, hlay, hloop, hfull, hdone, ?_, hnA, ?_, ?_, haA, ?_, huniq, hnAcc⟩
      · intro pre x post hx e' he' hst hlt
        rcases hord pre x post hx e' he' hst hlt with h1 | h1
        · exact Or.inl (List.mem_append_left _ h1)
        · exact Or.inr h1
      · exact List.nodup_append.2 ⟨hnD, by simp, by
          intro a ha b hb; simp at hb; subst hb; intro hab; subst hab; exact hnd' ha⟩
      · intro x hx hxd
        simp only [List.mem_append, List.mem_singleton] at hxd
        rcases hxd with hxd | rfl
        · exact hdis x hx hxd
        · exact hna hx
      · intro x hx
        simp only [List.mem_append, List.mem_singleton] at hx
        rcases hx with hx | rfl
        · exact hdA x hx
        · exact hacc
    · simp at hs
  | add d e =>
    cases d with
    | true =>
      simp only [step?, hnd] at hs
      simp at hs
    | false =>
      simp only [step?] at hs
      split at hs
      · rename_i hg
        simp at hs; subst hs
        obtain ⟨hacc, hnd', hna, hed⟩ := hg
        simp only [List.contains_eq_mem, decide_eq_true_eq, Bool.not_eq_eq_eq_not, Bool.not_true,
          decide_eq_false_iff_not] at hacc hnd' hna
        have hed' := earlierDone_spec hed
        refine ⟨hnd, hdq, hdqk, ?_, hloop, hfull, hdone, ?_, ?_, hnD, ?_, ?_, hdA, huniq, hnAcc⟩
        · simp only; rw [← hlay]; simp [List.append_assoc]
        · intro pre x post hx e' he' hst hlt
          rcases append_singleton_split hx with ⟨post', h1, _⟩ | ⟨h1, h2, _⟩
          · exact hord pre x post' h1 e' he' hst hlt
          · subst h1; subst h2
            exact hed' e' he' hst hlt
        · exact List.nodup_append.2 ⟨hnA, by simp, by
            intro a ha b hb; simp at hb; subst hb; intro hab; subst hab; exact hna ha⟩
        · intro x hx
          simp only [List.mem_append, List.mem_singleton] at hx
          rcases hx with hx | rfl
          · exact hdis x hx
          · exact hnd'
        · intro x hx
          simp only [List.mem_append, List.mem_singleton] at hx
          rcases hx with hx | rfl
          · exact haA x hx
          · exact hacc
      · simp at hs
  | sealB d k =>
    cases d with
    | true =>
      simp [step?, bq, hdq.1, hdqk] at hs
    | false =>
      simp only [step?, bq, setBq, Bool.false_eq_true, ↓reduceIte] at hs
      split at hs
      · simp at hs; subst hs
        refine ⟨hnd, hdq, hdqk, ?_, hloop, ?_, hdone, hord, hnA, hnD, hdis, haA, hdA, huniq, hnAcc⟩
        · simp only; rw [← hlay]; simp [List.append_assoc]
        · intro b hb
          simp only [List.mem_append, List.mem_singleton] at hb
          rcases hb with hb | rfl
          · exact hfull b hb
          · simp
      · simp at hs
  | sendOk d k evs =>
    cases d with
    | true =>
      simp [step?, bq, hdq.2.1] at hs
    | false =>
      simp only [step?, bq, setBq, Bool.false_eq_true, ↓reduceIte] at hs
      split at hs
      · rename_i b hb
        split at hs
        · split at hs
          · rename_i f hf
            simp at hs; subst hs
            refine ⟨hnd, hdq, hdqk, ?_, hloop, setSt_ok_full hf hfull, ?_, hord, hnA, hnD, hdis, haA, hdA, huniq, hnAcc⟩
            · simp only; rw [setSt_evs hf]; exact hlay
            · intro e he
              rcases hdone e he with h1 | h1
              · exact Or.inl (List.mem_append_left _ h1)
              · exact Or.inr h1
          · simp at hs
        · simp at hs
      · simp at hs
  | sendFail d k evs =>
    simp only [step?] at hs
    split at hs
    · simp at hs; subst hs
      exact ⟨hnd, hdq, hdqk, hlay, hloop, hfull, hdone, hord, hnA, hnD, hdis, haA, hdA, huniq, hnAcc⟩
    · simp at hs
  | giveUp d k evs =>
    cases d with
    | true =>
      simp [step?, bq, hdq.2.1, giveUpIn, hnd] at hs
    | false =>
      simp only [step?, bq, setBq, hnd, Bool.not_false, Bool.false_eq_true, and_false, ↓reduceIte] at hs
      split at hs
      · rename_i f hf
        simp at hs; subst hs
        refine ⟨rfl, hdq, hdqk, ?_, hloop, giveUpIn_failed_full hf hfull, ?_, hord, hnA, hnD, hdis, haA, hdA, huniq, hnAcc⟩
        · simp only; rw [giveUpIn_evs hf]; exact hlay
        · intro e he
          rcases hdone e he with h1 | h1
          · exact Or.inl h1
          · exact Or.inr (List.mem_append_left _ h1)
      · simp at hs
  | bcommit d k =>
    cases d with
    | true =>
      simp [step?, bq, hdq.2.1] at hs
    | false =>
      simp only [step?, bq, setBq, Bool.false_eq_true, ↓reduceIte] at hs
      split at hs
      · rename_i b bs hfl
        split at hs
        · rename_i hg
          simp at hs; subst hs
          obtain ⟨_, _, hst, hcm⟩ := hg
          have hb := hfull b (by rw [hfl]; simp)
          have hbs : FullOK s.acked s.gaveUp bs := fun x hx => hfull x (by rw [hfl]; exact List.mem_cons_of_mem _ hx)
          refine ⟨hnd, hdq, hdqk, ?_, ?_, ?_, ?_, hord, hnA, hnD, hdis, haA, hdA, huniq, hnAcc⟩
          · simp only; rw [← hlay, hfl]; simp [List.append_assoc]
          · simp only; rw [← hloop, hcm]; simp
          · simp only
            split
            · exact FullOK_mono hbs (fun e he => List.mem_append_left _ he) (fun e he => he)
            · exact hbs
          · intro e he
            simp only [List.mem_append] at he
            simp only
            rcases he with he | he
            · rcases hdone e he with h1 | h1
              · left; split
                · exact List.mem_append_left _ h1
                · exact h1
              · exact Or.inr h1
            · cases hbst : b.st with
              | pending => left; simp [he]
              | ok => left; simp only [reduceCtorEq, ↓reduceIte]; exact hb.1 hbst e he
              | failed => exact Or.inr (hb.2.1 hbst e he)
              | routed => exact absurd hbst hb.2.2
        · simp at hs
      · simp at hs
  | commit e =>
    simp only [step?, hdq.2.2.1] at hs
    split at hs
    · rename_i hh
      simp at hs; subst hs
      refine ⟨hnd, hdq, hdqk, hlay, ?_, hfull, hdone, hord, hnA, hnD, hdis, haA, hdA, huniq, hnAcc⟩
      simp only
      rw [← hloop]
      cases hc : s.main.committing with
      | nil => simp [hc] at hh
      | cons x xs => simp [hc] at hh; subst hh; simp
    · simp at hs
  | spawn p k =>
    simp only [step?] at hs
    split at hs
    · simp at hs; subst hs
      exact ⟨hnd, hdq, hdqk, hlay, hloop, hfull, hdone, hord, hnA, hnD, hdis, haA, hdA, huniq, hnAcc⟩
    · simp at hs
  | addKid p k =>
    simp only [step?] at hs
    split at hs
    · simp at hs; subst hs
      exact ⟨hnd, hdq, hdqk, hlay, hloop, hfull, hdone, hord, hnA, hnD, hdis, haA, hdA, huniq, hnAcc⟩
    · simp at hs
  | kidAck p k =>
    simp only [step?] at hs
    simp at hs; subst hs
    exact ⟨hnd, hdq, hdqk, hlay, hloop, hfull, hdone, hord, hnA, hnD, hdis, haA, hdA, huniq, hnAcc⟩

theorem cinv_run {s s' : State} {ops : List Op} (h : CInv s) (hr : run s ops = some s') : CInv s' := by
  induction ops generalizing s with
  | nil => simp [run] at hr; subst hr; exact h
  | cons op ops ih =>
    simp only [run] at hr
    cases hso : step? s op with
    | none => simp [hso] at hr
    | some s1 => simp [hso] at hr; exact ih (cinv_step h hso) hr

end FileD.Core
