/-
  Helper lemmas for C03, part 8: after a detected truncation of a file of a single-stream pipeline
  the invariant holds again, relative to the events read *after* the detection (the good events) and
  with the truncated source exempt from the offsets-file clauses.
-/
import FileD.Lemmas.FileRestartSeq
namespace FileD.FileRestart
open FileD FileD.SpecC06 FileD.SpecC03

/-- good after a truncation of source `i0` detected at `lastEventSeq = L`: events of other sources,
    and events of `i0` with a later SeqID -/
def goodAfter (i0 L : Nat) : Ev → Prop := fun e => e.ino = i0 → L < e.seq

theorem goodUp_after (i0 L : Nat) : GoodUp (goodAfter i0 L) := by
  intro i st off d off' d' q q' hq h hi
  have := h hi
  simp at this ⊢; omega

theorem CoversG.weaken {G G' : Ev → Prop} {evs : List Ev} {i : Nat} {l : Nat × Bytes}
    (hw : ∀ e, e.ino = i → G e → G' e) : CoversG G evs i l → CoversG G' evs i l :=
  fun ⟨e, he, hg, hi, h⟩ => ⟨e, he, hw e hi hg, hi, h⟩

/-- the file `i0` is cut to length 0 (`truncate`) -/
def truncated (s : State) (i0 : Nat) (f : FileSt) : State :=
  { s with files := upd s.files i0 (some { f with content := [] }) }

theorem step_truncate {cfg : Cfg} {s : State} {i0 : Nat} {f : FileSt} (hf : s.files i0 = some f) :
    step? cfg s (.truncate i0) = some (truncated s i0 f) := by
  simp [step?, hf, truncated]

/-- **the invariant is re-established by the detection** -/
theorem inv_after_detection {cfg : Cfg} {st0 : Stream} (hst : ∀ d, cfg.streamOf d = st0)
    {s : State} {i0 : Nat} {f : FileSt} {j : JobSt}
    (hup : s.up = true) (hf : s.files i0 = some f) (hj : s.jobs i0 = some j)
    (hseq : SeqInv st0 s) (h : Inv cfg allGood noEx s) :
    Inv cfg (goodAfter i0 j.lastSeq) (· = i0) (afterDetection (truncated s i0 f) i0 j) := by
  have hw : ∀ k, k ≠ i0 → ∀ e : Ev, e.ino = k → allGood e → goodAfter i0 j.lastSeq e := by
    intro k hk e he _ hi; rw [he] at hi; exact absurd hi hk
  have hstale : ∀ e ∈ s.inflight, e.ino = i0 → e.seq ≤ j.lastSeq := by
    intro e he hi
    exact hseq.infl e he j (by rw [hi]; exact hj)
  have hfiles : ∀ k, k ≠ i0 → (afterDetection (truncated s i0 f) i0 j).files k = s.files k := by
    intro k hk; simp [afterDetection, truncated, upd_other _ _ hk]
  refine ⟨⟨?_, ?_, ?_⟩, ?_, ?_, ?_, ?_, ?_, ?_, ?_, ?_⟩
  · intro k p hex hp
    obtain ⟨g, hg, hne, hs, hwit⟩ := h.glob.pers k p (by simp [noEx]) hp
    refine ⟨g, by rw [hfiles k hex]; exact hg, hne, ?_, hwit⟩
    intro x hx
    exact ⟨(hs x hx).le, (hs x hx).boundary, fun l hl ha hst' => ((hs x hx).covered l hl ha hst').weaken (hw k hex)⟩
  · intro k p hex hp
    obtain ⟨g, hg, hne, hs, hwit, hpa⟩ := h.glob.loaded k p (by simp [noEx]) hp
    refine ⟨g, by rw [hfiles k hex]; exact hg, hne, ?_, hwit, fun l hl ha => (hpa l hl ha).weaken (hw k hex)⟩
    intro x hx
    exact ⟨(hs x hx).le, (hs x hx).boundary, fun l hl ha hst' => ((hs x hx).covered l hl ha hst').weaken (hw k hex)⟩
  · intro hdown; simp [afterDetection, truncated, hup] at hdown
  · intro k jk hk
    by_cases hki : k = i0
    · subst hki
      simp [afterDetection] at hk
      subst hk
      refine ⟨{ f with content := [] }, by simp [afterDetection, truncated], ?_⟩
      refine ⟨rfl, by simp, by simp [specTail], ?_, ?_, fun hex => absurd rfl hex, ?_⟩
      · intro l hl; simp [specLines] at hl
      · intro x hx
        simp at hx
        obtain ⟨a, b, _, rfl⟩ := hx
        exact ⟨by simp, by simp [specTail], by intro l hl; simp [specLines] at hl⟩
      · intro e he hg hi
        have h1 := hstale e (by simpa [afterDetection, truncated] using he) hi
        have h2 := hg hi
        omega
    · have hk' : s.jobs k = some jk := by simpa [afterDetection, truncated, upd_other _ _ hki] using hk
      obtain ⟨g, hg, hji⟩ := h.jobs k jk hk'
      refine ⟨g, by rw [hfiles k hki]; exact hg, hji.skip, hji.le, hji.tail, ?_, ?_, fun _ => hji.wit (by simp [noEx]), ?_⟩
      · intro l hl ha
        rcases hji.handled l hl ha with hc | hc
        · exact Or.inl (hc.weaken (hw k hki))
        · exact Or.inr (hc.weaken (hw k hki))
      · intro x hx
        exact ⟨(hji.offs x hx).le, (hji.offs x hx).boundary,
          fun l hl ha hst' => ((hji.offs x hx).covered l hl ha hst').weaken (hw k hki)⟩
      · intro e he _ hi
        exact hji.infl e he trivial hi
  · intro e he
    have := h.infl_job e he
    by_cases hei : e.ino = i0
    · simp [afterDetection, hei]
    · simpa [afterDetection, truncated, upd_other _ _ hei] using this
  · exact List.Pairwise.imp (fun {a b} hab _ _ => hab trivial trivial) h.sorted
  · intro hdown; simp [afterDetection, truncated, hup] at hdown
  · intro e he hex
    have hk : e.ino ≠ i0 := hex
    have he' : e ∈ s.skipped := he
    exact (h.skipped e he' (by simp [noEx])).weaken (hw e.ino hk)
  · intro e he hg
    have he' : e ∈ s.inflight := he
    have hi : e.ino = i0 := by
      apply Classical.byContradiction; intro hne; exact hg (fun hi => absurd hi hne)
    refine ⟨⟨⟨0, [], false⟩, j.offsets.map (fun p => (p.1, 0)), j.lastSeq, j.lastSeq⟩,
      by rw [hi]; simp [afterDetection], ?_⟩
    have : ¬ (j.lastSeq < e.seq) := fun hlt => hg (fun _ => hlt)
    simp; omega
  · intro k off data hk
    have hk' : k = i0 := hk
    subst hk'
    have : j.lastSeq ≤ s.seqs k (cfg.streamOf data) := by rw [hst]; exact hseq.le k j hj
    show j.lastSeq < (afterDetection (truncated s k f) k j).seqs k (cfg.streamOf data) + 1
    simp [afterDetection, truncated]; omega
  · intro k hk; subst hk; simp [afterDetection]

end FileD.FileRestart

namespace FileD.FileRestart
open FileD FileD.SpecC06 FileD.SpecC03

theorem inv_run_live {cfg : Cfg} {G : Ev → Prop} {Ex : Nat → Prop} (hgu : GoodUp G) (ops : List Op)
    {s s' : State} (h : Inv cfg G Ex s) (hl : ∀ op ∈ ops, isLive op = true)
    (hr : TS.run (step? cfg) s ops = some s') : Inv cfg G Ex s' := by
  induction ops generalizing s with
  | nil => simp [TS.run] at hr; subst hr; exact h
  | cons op ops ih =>
    simp only [TS.run] at hr
    cases hso : step? cfg s op with
    | none => simp [hso] at hr
    | some s1 =>
      simp [hso] at hr
      exact ih (inv_step_live hgu h (hl op (by simp)) hso) (fun o ho => hl o (List.mem_cons_of_mem _ ho)) hr

/-- truncate + detection, as two steps of the model -/
theorem run_truncate_detect {cfg : Cfg} {s : State} {i0 : Nat} {f : FileSt} {j : JobSt}
    (hr : running s = true) (hf : s.files i0 = some f) (hj : s.jobs i0 = some j)
    (hskip : j.w.skip = false) (hpos : 0 < j.w.curOffset) :
    TS.run (step? cfg) s [.truncate i0, .readTurn i0 []] = some (afterDetection (truncated s i0 f) i0 j) := by
  simp only [TS.run, step_truncate hf, Option.bind_some]
  rw [detect_truncation (s := truncated s i0 f) (f := { f with content := [] }) (j := j)
    (by simpa [running, truncated] using hr) (by simp [truncated]) (by simpa [truncated] using hj) hskip
    (by simpa using hpos)]
  rfl

end FileD.FileRestart

namespace FileD.FileRestart
open FileD FileD.SpecC06 FileD.SpecC03

/-- a job without any stream offset refuses nothing: every admitted line of the turn is put in flight -/
theorem fold_inOne_noOffsets {cfg : Cfg} {i : Nat} (calls : List (Nat × Bytes)) :
    ∀ (s : State), (∃ j, s.jobs i = some j ∧ j.offsets = []) →
      (∃ j, (calls.foldl (inOne cfg i) s).jobs i = some j ∧ j.offsets = []) ∧
      (∀ e ∈ s.inflight, e ∈ (calls.foldl (inOne cfg i) s).inflight) ∧
      ∀ l ∈ calls, cfg.accept l.2 = true → Covers (calls.foldl (inOne cfg i) s).inflight i l := by
  induction calls with
  | nil => intro s hj; exact ⟨hj, fun _ h => h, fun l hl => by cases hl⟩
  | cons c cs ih =>
    intro s hj
    obtain ⟨j, hj, ho⟩ := hj
    -- one call
    have h1 : (∃ j', (inOne cfg i s c).jobs i = some j' ∧ j'.offsets = []) ∧
        (∀ e ∈ s.inflight, e ∈ (inOne cfg i s c).inflight) ∧
        (cfg.accept c.2 = true → Covers (inOne cfg i s c).inflight i c) := by
      unfold inOne
      simp only [hj]
      split
      · rename_i hacc
        have hp : passEvent j (cfg.streamOf c.2) c.1 = true := by simp [passEvent, ho, oget]
        simp only [hp, ↓reduceIte]
        refine ⟨⟨{ j with lastSeq := s.seqs i (cfg.streamOf c.2) + 1 }, by simp, ho⟩,
          fun e he => List.mem_append_left _ he, fun _ => ?_⟩
        exact ⟨_, List.mem_append_right _ (List.mem_singleton.2 rfl), rfl, rfl, rfl⟩
      · rename_i hacc
        exact ⟨⟨j, hj, ho⟩, fun _ h => h, fun h => absurd h hacc⟩
    obtain ⟨h2a, h2b, h2c⟩ := ih (inOne cfg i s c) h1.1
    simp only [List.foldl_cons]
    refine ⟨h2a, fun e he => h2b e (h1.2.1 e he), ?_⟩
    intro l hl hacc
    rcases List.mem_cons.1 hl with rfl | hl
    · obtain ⟨e, he, h3⟩ := h1.2.2 hacc
      exact ⟨e, h2b e he, h3⟩
    · exact h2c l hl hacc

end FileD.FileRestart
