/-
  Order-preserving erase folded over a path list = `subtract` of that list (no array is entered by index).
-/
import FileD.Lemmas.FieldsRemove
import FileD.Lemmas.FieldsPaths
namespace FileD.Fields
open FileD FileD.SpecC18

theorem subtract_nil : ∀ t : JTree, subtract [] t = t := by
  intro t
  induction t using jtree_induct with
  | hnull => rfl
  | hbool b => rfl
  | hnum r => rfl
  | hstr s => rfl
  | harr xs _ => rfl
  | hobj kvs ih =>
    simp only [subtract]
    congr 1
    induction kvs with
    | nil => rfl
    | cons x r ihr =>
      obtain ⟨k, v⟩ := x
      simp only [subtractKVs, tailsOf, hasNil, Bool.false_eq_true, if_false]
      rw [ih (k, v) List.mem_cons_self, ihr (fun kv h => ih kv (List.mem_cons_of_mem _ h))]

theorem subtractKVs_nokey (k : Bytes) (r : Path) (ps : List Path) (kvs : KVs) (h : hasKey k kvs = false) :
    subtractKVs ((k :: r) :: ps) kvs = subtractKVs ps kvs := by
  induction kvs with
  | nil => rfl
  | cons x rest ih =>
    obtain ⟨k1, v1⟩ := x
    simp [hasKey] at h
    have hne : k ≠ k1 := fun e => h.1 e.symm
    simp only [subtractKVs, tailsOf_cons_ne r ps hne, ih h.2]

theorem subtractKVs_eraseKey (k : Bytes) (ps : List Path) (kvs : KVs) (hn : nodupKeys kvs = true) :
    subtractKVs ps (eraseKey k kvs) = subtractKVs ([k] :: ps) kvs := by
  induction kvs with
  | nil => rfl
  | cons x rest ih =>
    obtain ⟨k1, v1⟩ := x
    simp [nodupKeys] at hn
    by_cases e : k1 = k
    · subst e
      simp only [eraseKey, if_true, subtractKVs, tailsOf_cons_eq, hasNil, if_true]
      rw [subtractKVs_nokey _ _ _ _ hn.1]
    · have hne : k ≠ k1 := fun e' => e e'.symm
      simp only [eraseKey, e, if_false, subtractKVs, tailsOf_cons_ne [] ps hne, ih hn.2]

theorem hasNil_cons_ne {r : Path} (T : List Path) (h : r ≠ []) : hasNil (r :: T) = hasNil T := by
  cases r with
  | nil => exact absurd rfl h
  | cons _ _ => rfl

theorem subtractKVs_setKey (k : Bytes) (r : Path) (hr : r ≠ []) (ps : List Path) (kvs : KVs) (v v' : JTree)
    (hn : nodupKeys kvs = true) (hl : lookup k kvs = some v)
    (hv : subtract (tailsOf k ps) v' = subtract (r :: tailsOf k ps) v) :
    subtractKVs ps (setKey k v' kvs) = subtractKVs ((k :: r) :: ps) kvs := by
  induction kvs with
  | nil => simp [lookup] at hl
  | cons x rest ih =>
    obtain ⟨k1, v1⟩ := x
    simp [nodupKeys] at hn
    by_cases e : k1 = k
    · subst e
      simp [lookup] at hl
      subst hl
      simp only [setKey, if_true, subtractKVs, tailsOf_cons_eq, hasNil_cons_ne _ hr,
        subtractKVs_nokey _ _ _ _ hn.1, hv]
    · have hne : k ≠ k1 := fun e' => e e'.symm
      simp [lookup, e] at hl
      simp only [setKey, e, if_false, subtractKVs, tailsOf_cons_ne r ps hne, ih hn.2 hl]

/-- one erase step is absorbed by the spec -/
theorem subtract_eraseAt : ∀ (p : Path) (t : JTree) (ps : List Path), p ≠ [] → uniq t = true →
    crossArr t p = false → subtract ps (eraseAt t p) = subtract (p :: ps) t := by
  intro p
  induction p with
  | nil => intro t ps h; exact absurd rfl h
  | cons k r ih =>
    intro t ps _ hu hc
    cases t with
    | null => rfl
    | bool b => rfl
    | num n => rfl
    | str s => rfl
    | arr xs =>
      simp only [crossArr] at hc
      cases hi : atoiIdx k xs.length with
      | some i => rw [hi] at hc; cases hc
      | none => simp only [eraseAt, hi, subtract]
    | obj kvs =>
      have hn := ((uniq_obj kvs).1 hu).1
      simp only [eraseAt]
      cases hl : lookup k kvs with
      | none =>
        simp only [subtract]
        rw [subtractKVs_nokey k r ps kvs (by rw [hasKey_eq_isSome, hl]; rfl)]
      | some v =>
        cases r with
        | nil => simp only [subtract, subtractKVs_eraseKey k ps kvs hn]
        | cons k2 r' =>
          simp only [subtract]
          have hcv : crossArr v (k2 :: r') = false := by
            simp only [crossArr, hl] at hc; exact hc
          rw [subtractKVs_setKey k (k2 :: r') (by simp) ps kvs v _ hn hl
            (ih v (tailsOf k ps) (by simp) (uniq_of_lookup hu hl) hcv)]

theorem uniq_eraseAt (p : Path) (t : JTree) (hu : uniq t = true) : uniq (eraseAt t p) = true :=
  (removeAt_eqv_eraseAt p t t hu hu (eqv_refl t hu)).2.2

theorem uniq_removeAt (p : Path) (t : JTree) (hu : uniq t = true) : uniq (removeAt t p) = true :=
  (removeAt_eqv_eraseAt p t t hu hu (eqv_refl t hu)).2.1

/-- erasing along a path that enters no array creates no new way into an array -/
theorem crossArr_eraseAt : ∀ (p : Path) (t : JTree) (q : Path), uniq t = true →
    crossArr t p = false → crossArr t q = false → crossArr (eraseAt t p) q = false := by
  intro p
  induction p with
  | nil => intro t q _ _ h; cases t <;> exact h
  | cons k r ih =>
    intro t q hu hp hq
    cases q with
    | nil => cases h : eraseAt t (k :: r) <;> rfl
    | cons k' r' =>
      cases t with
      | null => exact hq
      | bool b => exact hq
      | num n => exact hq
      | str s => exact hq
      | arr xs =>
        simp only [crossArr] at hp
        cases hi : atoiIdx k xs.length with
        | some i => rw [hi] at hp; cases hp
        | none => simp only [eraseAt, hi]; exact hq
      | obj kvs =>
        have hn := ((uniq_obj kvs).1 hu).1
        simp only [eraseAt]
        cases hl : lookup k kvs with
        | none => exact hq
        | some v =>
          cases r with
          | nil =>
            simp only [crossArr, lookup_eraseKey k k' kvs hn]
            by_cases e : k' = k
            · simp [e]
            · simp only [e, if_false]; simp only [crossArr] at hq; exact hq
          | cons k2 r2 =>
            simp only [crossArr, lookup_setKey]
            by_cases e : k' = k
            · subst e
              simp only [if_true, hl, Option.map_some]
              simp only [crossArr, hl] at hp hq
              exact ih v r' (uniq_of_lookup hu hl) hp hq
            · simp only [e, if_false]; simp only [crossArr] at hq; exact hq

theorem subtract_foldl_eraseAt : ∀ (ps : List Path) (t : JTree) (qs : List Path), (∀ p ∈ ps, p ≠ []) →
    uniq t = true → noCross ps t = true →
    subtract qs (ps.foldl eraseAt t) = subtract (ps ++ qs) t := by
  intro ps
  induction ps with
  | nil => intros; rfl
  | cons p ps ih =>
    intro t qs hne hu hc
    simp only [noCross, List.all_cons, Bool.and_eq_true, Bool.not_eq_true', List.all_eq_true] at hc
    have hc' : noCross ps (eraseAt t p) = true := by
      simp only [noCross, List.all_eq_true, Bool.not_eq_true']
      intro q hq
      exact crossArr_eraseAt p t q hu hc.1 (hc.2 q hq)
    rw [List.foldl_cons, ih (eraseAt t p) qs (fun q hq => hne q (List.mem_cons_of_mem _ hq))
      (uniq_eraseAt p t hu) hc']
    exact subtract_eraseAt p t (ps ++ qs) (hne p List.mem_cons_self) hu hc.1

/-- A1: the library semantics without the reordering is exactly the spec -/
theorem foldl_eraseAt_eq_subtract (ps : List Path) (t : JTree) (hne : ∀ p ∈ ps, p ≠ [])
    (hu : uniq t = true) (hc : noCross ps t = true) : ps.foldl eraseAt t = subtract ps t := by
  have := subtract_foldl_eraseAt ps t [] hne hu hc
  rwa [subtract_nil, List.append_nil] at this

end FileD.Fields
