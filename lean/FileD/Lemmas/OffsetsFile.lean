/-
  Helper lemmas for C07: decimal round trips, line cutting, one stream line, one job.
-/
import FileD.Model.OffsetsFile
namespace FileD.OffsetsFile
open FileD

/-! ## decimal digits -/

def IsDigit (b : UInt8) : Prop := 48 ≤ b.toNat ∧ b.toNat ≤ 57

theorem digitByte_toNat {d : Nat} (h : d < 10) : (digitByte d).toNat = 48 + d := by
  unfold digitByte
  rw [UInt8.toNat_ofNat']
  omega

theorem digitByte_isDigit {d : Nat} (h : d < 10) : IsDigit (digitByte d) := by
  unfold IsDigit; rw [digitByte_toNat h]; omega

theorem digitVal_digitByte {d : Nat} (h : d < 10) : digitVal? (digitByte d) = some d := by
  unfold digitVal?
  rw [digitByte_toNat h]
  have : 48 ≤ 48 + d ∧ 48 + d ≤ 57 := by omega
  simp [this]

theorem natDigits_acc (f n : Nat) (acc : Bytes) : natDigits f n acc = natDigits f n [] ++ acc := by
  induction f generalizing n acc with
  | zero => simp [natDigits]
  | succ f ih =>
    simp only [natDigits]
    split
    · simp
    · rw [ih (n / 10) (digitByte (n % 10) :: acc), ih (n / 10) [digitByte (n % 10)]]
      simp

theorem natDigits_all_digit (f n : Nat) : ∀ b ∈ natDigits f n [], IsDigit b := by
  induction f generalizing n with
  | zero => simp [natDigits]
  | succ f ih =>
    simp only [natDigits]
    split
    · rename_i h
      intro b hb
      simp at hb; subst hb
      exact digitByte_isDigit h
    · rw [natDigits_acc]
      intro b hb
      simp at hb
      rcases hb with hb | hb
      · exact ih _ b hb
      · subst hb; exact digitByte_isDigit (Nat.mod_lt _ (by decide))

theorem natDigits_ne_nil (f n : Nat) : natDigits (f + 1) n [] ≠ [] := by
  simp only [natDigits]
  split
  · simp
  · rw [natDigits_acc]; simp

theorem digitsVal_append (x y : Bytes) (a : Nat) :
    digitsVal? (x ++ y) a = (digitsVal? x a).bind (fun v => digitsVal? y v) := by
  induction x generalizing a with
  | nil => simp [digitsVal?]
  | cons b bs ih =>
    simp only [List.cons_append, digitsVal?]
    cases digitVal? b with
    | none => simp
    | some d => simp [ih]

theorem digitsVal_natDigits (f n : Nat) (h : n < f) : digitsVal? (natDigits f n []) 0 = some n := by
  induction f generalizing n with
  | zero => omega
  | succ f ih =>
    simp only [natDigits]
    split
    · rename_i h10
      simp [digitsVal?, digitVal_digitByte h10]
    · rename_i h10
      rw [natDigits_acc, digitsVal_append, ih (n / 10) (by omega)]
      simp [digitsVal?, digitVal_digitByte (Nat.mod_lt n (by decide : 10 > 0))]
      omega

theorem renderNat_all_digit (n : Nat) : ∀ b ∈ renderNat n, IsDigit b := natDigits_all_digit _ _
theorem renderNat_ne_nil (n : Nat) : renderNat n ≠ [] := natDigits_ne_nil _ _

theorem isDigit_ne {b : UInt8} (h : IsDigit b) (c : UInt8) (hc : c.toNat < 48 ∨ 57 < c.toNat) : b ≠ c := by
  intro e; subst e; unfold IsDigit at h; omega

theorem parseUint_renderNat {n : Nat} (h : n < two64) : parseUint64? (renderNat n) = some n := by
  unfold parseUint64?
  have hne := renderNat_ne_nil n
  split
  · rename_i heq; exact absurd heq hne
  · unfold renderNat
    rw [digitsVal_natDigits (n + 1) n (by omega)]
    simp [h]

/-- the first byte of a rendered number is a digit -/
theorem renderNat_head (n : Nat) : ∃ b rest, renderNat n = b :: rest ∧ IsDigit b := by
  have hne := renderNat_ne_nil n
  have hall := renderNat_all_digit n
  cases h : renderNat n with
  | nil => exact absurd h hne
  | cons b rest => exact ⟨b, rest, rfl, hall b (by rw [h]; simp)⟩

theorem parseInt_renderNat {n : Nat} (h : n < two63) : parseInt64? (renderNat n) = some (n : Int) := by
  obtain ⟨b, rest, hr, hd⟩ := renderNat_head n
  have h64 : n < two64 := by unfold two63 at h; unfold two64; omega
  have hp := parseUint_renderNat h64
  rw [hr] at hp ⊢
  unfold parseInt64?
  have h1 : b ≠ 43 := isDigit_ne hd 43 (by decide)
  have h2 : b ≠ 45 := isDigit_ne hd 45 (by decide)
  simp [h1, h2, hp, h]

theorem parseInt_renderInt {i : Int} (h1 : -(two63 : Int) ≤ i) (h2 : i < (two63 : Int)) :
    parseInt64? (renderInt i) = some i := by
  unfold renderInt
  split
  · rename_i hneg
    have hle : i.natAbs ≤ two63 := by omega
    have h64 : i.natAbs < two64 := by unfold two63 at hle; unfold two64; omega
    unfold parseInt64?
    simp [parseUint_renderNat h64, hle]
    omega
  · rename_i hpos
    have hlt : i.natAbs < two63 := by omega
    rw [parseInt_renderNat hlt]
    congr 1; omega

/-! ## lines -/

theorem cutNL_append (a rest : Bytes) (h : NL ∉ a) : cutNL (a ++ NL :: rest) = some (a, rest) := by
  induction a with
  | nil => simp [cutNL]
  | cons b bs ih =>
    simp at h
    have hb : b ≠ NL := fun e => h.1 e.symm
    simp [cutNL, hb, ih h.2]

theorem stripPrefix_append (p v : Bytes) : stripPrefix? p (p ++ v) = some v := by
  induction p with
  | nil => cases v <;> simp [stripPrefix?]
  | cons b bs ih => simp [stripPrefix?, ih]

theorem parseLine_ok (p v rest : Bytes) (hp : NL ∉ p) (hv : NL ∉ v) :
    parseLine (p ++ (v ++ NL :: rest)) p = .ok (v, rest) := by
  have hcut : cutNL (p ++ (v ++ NL :: rest)) = some (p ++ v, rest) := by
    have := cutNL_append (p ++ v) rest (by simp [hp, hv])
    simpa using this
  unfold parseLine
  split
  · rename_i heq
    have : (p ++ (v ++ NL :: rest)).length = 0 := by rw [heq]; rfl
    simp at this
  · simp [hcut, stripPrefix_append]

theorem lastIdx_append (c : UInt8) (a rest : Bytes) (h : c ∉ rest) :
    lastIdx? c (a ++ c :: rest) = some a.length := by
  have hrest : lastIdx? c rest = none := by
    induction rest with
    | nil => rfl
    | cons b bs ih =>
      simp at h
      have hb : b ≠ c := fun e => h.1 e.symm
      simp [lastIdx?, ih h.2, hb]
  induction a with
  | nil => simp [lastIdx?, hrest]
  | cons b bs ih => simp [lastIdx?, ih]

theorem drop_take_right {α} (A D : List α) (n : Nat) (h : A.length = n) :
    ((A ++ D).drop n).take D.length = D := by subst h; simp

theorem drop_take_mid {α} (A S R : List α) (n : Nat) (h : A.length = n) :
    ((A ++ (S ++ R)).drop n).take S.length = S := by subst h; simp

/-! ## one stream line -/

/-- a stream entry the format can carry: no newline in the name, offset 0 … 2^63−1 -/
def StreamOk (kv : Bytes × Int) : Prop := NL ∉ kv.1 ∧ 0 ≤ kv.2 ∧ kv.2 < (two63 : Int)

theorem toU64_of_nonneg {o : Int} (h0 : 0 ≤ o) (h1 : o < (two63 : Int)) :
    toU64 o = o.toNat ∧ o.toNat < two63 := by
  unfold toU64
  have h64 : o < (two64 : Int) := by unfold two63 at h1; unfold two64; omega
  constructor
  · rw [Int.emod_eq_of_lt h0 h64]
  · unfold two63 at h1 ⊢; omega

theorem nl_not_digit {l : Bytes} (h : ∀ b ∈ l, IsDigit b) : NL ∉ l := by
  intro hm; have := h NL hm; unfold IsDigit NL at this; revert this; decide

theorem colon_not_digit {l : Bytes} (h : ∀ b ∈ l, IsDigit b) : COLON ∉ l := by
  intro hm; have := h COLON hm; unfold IsDigit COLON at this; revert this; decide

theorem parseStreamLine_ok (kv : Bytes × Int) (rest : Bytes) (streams : List (Bytes × Int))
    (hk : StreamOk kv) (hnew : hasStream streams kv.1 = false) :
    parseStreamLine (renderStream kv ++ rest) streams = .ok (rest, streams ++ [kv]) := by
  obtain ⟨s, o⟩ := kv
  obtain ⟨hnl, h0, h1⟩ := hk
  simp only at hnl h0 h1 hnew
  obtain ⟨hu, hlt⟩ := toU64_of_nonneg h0 h1
  let digits := renderNat (toU64 o)
  have hdig : ∀ b ∈ digits, IsDigit b := renderNat_all_digit _
  have hdnl : NL ∉ digits := nl_not_digit hdig
  have hdcol : COLON ∉ digits := colon_not_digit hdig
  -- the line
  let line : Bytes := pIndent ++ (s ++ (pSep ++ digits))
  have hline : renderStream (s, o) ++ rest = line ++ NL :: rest := by
    simp [renderStream, line, digits]
  have hlnl : NL ∉ line := by
    simp only [line, List.mem_append, not_or]
    refine ⟨by decide, hnl, by decide, hdnl⟩
  have hcut : cutNL (renderStream (s, o) ++ rest) = some (line, rest) := by
    rw [hline]; exact cutNL_append line rest hlnl
  have hlen : ¬ line.length < 5 := by
    have := renderNat_ne_nil (toU64 o)
    have : digits.length ≥ 1 := by
      cases hd : digits with
      | nil => exact absurd hd this
      | cons _ _ => simp
    simp [line, pIndent, pSep]; omega
  have htake : line.take 4 = pIndent := by simp [line, pIndent]
  have hlast : lastIdx? COLON line = some (4 + s.length) := by
    have e : line = (pIndent ++ s) ++ COLON :: (SP :: digits) := by
      simp [line, pSep, COLON, SP]
    rw [e, lastIdx_append COLON (pIndent ++ s) (SP :: digits) (by
      simp only [List.mem_cons, not_or]; exact ⟨by decide, hdcol⟩)]
    congr 1; simp [pIndent]; omega
  have hslice : GoSlice.slice? line 4 ((4 + s.length : Nat) : Int) = .ok s := by
    unfold GoSlice.slice?
    have hc : (0:Int) ≤ 4 ∧ (4:Int) ≤ ((4 + s.length : Nat) : Int) ∧ ((4 + s.length : Nat) : Int) ≤ (line.length : Int) := by
      simp [line, pIndent]; omega
    rw [if_pos hc]
    have e1 : (4:Int).toNat = 4 := rfl
    have e2 : (((4 + s.length : Nat) : Int)).toNat = 4 + s.length := by omega
    rw [e1, e2]
    have e3 : 4 + s.length - 4 = s.length := by omega
    rw [e3]
    exact congrArg _ (drop_take_mid pIndent s (pSep ++ digits) 4 rfl)
  have hfrom : GoSlice.sliceFrom? line (((4 + s.length : Nat) : Int) + 2) = .ok digits := by
    unfold GoSlice.sliceFrom? GoSlice.slice?
    have hll : line.length = 4 + s.length + 2 + digits.length := by simp [line, pIndent, pSep]; omega
    have hc : (0:Int) ≤ ((4 + s.length : Nat) : Int) + 2 ∧ ((4 + s.length : Nat) : Int) + 2 ≤ (line.length : Int) ∧ (line.length : Int) ≤ (line.length : Int) := by
      rw [hll]; omega
    rw [if_pos hc]
    have e1 : (((4 + s.length : Nat) : Int) + 2).toNat = 4 + s.length + 2 := by omega
    have e2 : ((line.length : Nat) : Int).toNat = line.length := by simp
    rw [e1, e2, hll]
    have e3 : line = (pIndent ++ s ++ pSep) ++ digits := by simp [line]
    have e4 : (pIndent ++ s ++ pSep).length = 4 + s.length + 2 := by simp [pIndent, pSep]; omega
    have e5 : 4 + s.length + 2 + digits.length - (4 + s.length + 2) = digits.length := by omega
    rw [e5, e3]
    exact congrArg _ (drop_take_right _ digits _ e4)
  have hparse : parseInt64? digits = some o := by
    show parseInt64? (renderNat (toU64 o)) = some o
    rw [hu, parseInt_renderNat hlt]
    congr 1; omega
  unfold parseStreamLine
  rw [hcut]
  simp only [hlen, htake, hlast, hslice, hfrom, hparse, hnew, liftGo]
  simp

/-! ## the streams of one job -/

def names (ss : List (Bytes × Int)) : List Bytes := ss.map (·.1)

theorem hasStream_false_iff (streams : List (Bytes × Int)) (s : Bytes) :
    hasStream streams s = false ↔ s ∉ names streams := by
  unfold hasStream names
  simp [List.any_eq_false]
  constructor
  · intro h a x; exact h s a x rfl
  · intro h a b hab e; subst e; exact h b hab

/-- what may follow the stream lines of a job: the end of the file or the next job's "- file: " -/
def Stops (rest : Bytes) : Prop := rest = [] ∨ ∃ r, rest = DASH :: r

theorem renderStream_head (kv : Bytes × Int) (rest : Bytes) :
    ∃ r, renderStream kv ++ rest = SP :: r := by
  simp [renderStream, pIndent, SP]

theorem streamsLoop_ok (ss : List (Bytes × Int)) (rest : Bytes) (acc : List (Bytes × Int)) (fuel : Nat)
    (hok : ∀ kv ∈ ss, StreamOk kv) (hnd : (names (acc ++ ss)).Nodup) (hstop : Stops rest)
    (hf : ss.length < fuel) :
    streamsLoop fuel (renderStreams ss ++ rest) acc = .ok (rest, acc ++ ss) := by
  induction ss generalizing acc fuel with
  | nil =>
    cases fuel with
    | zero => omega
    | succ f =>
      simp only [renderStreams, List.nil_append, List.append_nil]
      rcases hstop with h | ⟨r, h⟩
      · subst h; simp [streamsLoop]
      · subst h; simp [streamsLoop]
  | cons kv ss ih =>
    cases fuel with
    | zero => omega
    | succ f =>
      have hkv : StreamOk kv := hok kv (by simp)
      have hnew : hasStream acc kv.1 = false := by
        rw [hasStream_false_iff]
        intro hm
        simp only [names, List.map_append, List.map_cons] at hnd
        have := List.nodup_append.mp hnd
        exact this.2.2 _ hm _ (by simp) rfl
      obtain ⟨r, hr⟩ := renderStream_head kv (renderStreams ss ++ rest)
      have hlinestep := parseStreamLine_ok kv (renderStreams ss ++ rest) acc hkv hnew
      simp only [renderStreams, List.append_assoc]
      rw [hr] at hlinestep ⊢
      simp only [streamsLoop]
      have hsd : SP ≠ DASH := by decide
      simp only [hsd, if_false, hlinestep]
      have := ih (acc ++ [kv]) f (fun x hx => hok x (by simp [hx]))
        (by simpa [names] using hnd) (by simp at hf; omega)
      simpa using this

/-! ## one job -/

/-- a job the format can carry -/
structure JobOk (j : Job) : Prop where
  file   : NL ∉ j.filename
  inode  : j.inode < two64
  source : j.sourceID < two64
  tsLo   : -(two63 : Int) ≤ j.ts
  tsHi   : j.ts < (two63 : Int)
  streams : ∀ kv ∈ j.offsets, StreamOk kv
  distinct : (names j.offsets).Nodup

theorem renderInt_ne_nil (i : Int) : renderInt i ≠ [] := by
  unfold renderInt; split
  · simp
  · exact renderNat_ne_nil _

theorem renderInt_no_nl (i : Int) : NL ∉ renderInt i := by
  unfold renderInt; split
  · simp only [List.mem_cons, not_or]
    exact ⟨by decide, nl_not_digit (renderNat_all_digit _)⟩
  · exact nl_not_digit (renderNat_all_digit _)

theorem renderNat_no_nl (n : Nat) : NL ∉ renderNat n := nl_not_digit (renderNat_all_digit _)

theorem renderStreams_length (ss : List (Bytes × Int)) : ss.length ≤ (renderStreams ss).length := by
  induction ss with
  | nil => simp [renderStreams]
  | cons kv ss ih => simp [renderStreams, renderStream, pIndent]; omega

theorem renderJob_live (j : Job) (o : Bytes × Int) (os : List (Bytes × Int)) (h : j.offsets = o :: os)
    (rest : Bytes) :
    renderJob j ++ rest =
      pFile ++ (j.filename ++ NL ::
      (pInode ++ (renderNat j.inode ++ NL ::
      (pSource ++ (renderNat j.sourceID ++ NL ::
      (pTs ++ (renderInt j.ts ++ NL ::
      (pStreams ++ ([] ++ NL :: (renderStreams j.offsets ++ rest)))))))))) := by
  unfold renderJob
  rw [h]
  simp [List.append_assoc]

theorem hasSource_false_iff (t : JobTable) (src : Nat) :
    hasSource t src = false ↔ src ∉ t.map (·.sourceID) := by
  unfold hasSource
  simp [List.any_eq_false]

theorem parseOne_ok (now : Int) (j : Job) (rest : Bytes) (acc : JobTable) (fuel : Nat)
    (hlive : j.offsets ≠ []) (hj : JobOk j) (hnew : hasSource acc j.sourceID = false)
    (hstop : Stops rest) (hf : j.offsets.length < fuel) :
    parseOne now fuel (renderJob j ++ rest) acc = .ok (rest, acc ++ [j]) := by
  obtain ⟨o, os, ho⟩ : ∃ o os, j.offsets = o :: os := by
    cases h : j.offsets with
    | nil => exact absurd h hlive
    | cons o os => exact ⟨o, os, rfl⟩
  rw [renderJob_live j o os ho rest]
  unfold parseOne
  rw [parseLine_ok pFile j.filename _ (by decide) hj.file]
  simp only []
  rw [parseLine_ok pInode (renderNat j.inode) _ (by decide) (renderNat_no_nl _)]
  simp only []
  rw [parseLine_ok pSource (renderNat j.sourceID) _ (by decide) (renderNat_no_nl _)]
  simp only []
  have hopt : ∀ c4, parseOptionalLine (pTs ++ (renderInt j.ts ++ NL :: c4)) pTs = .ok (renderInt j.ts, c4) := by
    intro c4
    unfold parseOptionalLine
    split
    · rename_i heq
      have : (pTs ++ (renderInt j.ts ++ NL :: c4)).length = 0 := by rw [heq]; rfl
      simp [pTs] at this
    · rw [stripPrefix_append]
      exact parseLine_ok pTs (renderInt j.ts) c4 (by decide) (renderInt_no_nl _)
  rw [hopt]
  simp only [parseUint_renderNat hj.inode, parseUint_renderNat hj.source, hnew]
  obtain ⟨b, bs, hb⟩ : ∃ b bs, renderInt j.ts = b :: bs := by
    cases h : renderInt j.ts with
    | nil => exact absurd h (renderInt_ne_nil _)
    | cons b bs => exact ⟨b, bs, rfl⟩
  have hts : parseInt64? (b :: bs) = some j.ts := by
    rw [← hb]; exact parseInt_renderInt hj.tsLo hj.tsHi
  rw [hb]
  simp only [hts, Bool.false_eq_true, if_false]
  rw [parseLine_ok pStreams [] _ (by decide) (by simp)]
  simp only []
  have hloop := streamsLoop_ok j.offsets rest [] fuel hj.streams (by simpa using hj.distinct) hstop hf
  rw [hloop]
  simp

/-! ## the table -/

theorem renderJob_head (j : Job) (rest : Bytes) (hlive : j.offsets ≠ []) :
    ∃ r, renderJob j ++ rest = DASH :: r := by
  cases h : j.offsets with
  | nil => exact absurd h hlive
  | cons o os => rw [renderJob_live j o os h rest]; exact ⟨_, rfl⟩

theorem renderJob_dead (j : Job) (h : j.offsets = []) : renderJob j = [] := by
  unfold renderJob; rw [h]

theorem render_stops (t : JobTable) : Stops (render t) := by
  induction t with
  | nil => left; rfl
  | cons j js ih =>
    simp only [render]
    by_cases h : j.offsets = []
    · rw [renderJob_dead j h]; simpa using ih
    · right; exact renderJob_head j _ h

theorem live_cons_dead (j : Job) (js : JobTable) (h : j.offsets = []) : live (j :: js) = live js := by
  simp [live, h]

theorem live_cons_live (j : Job) (js : JobTable) (h : j.offsets ≠ []) : live (j :: js) = j :: live js := by
  simp [live, h]

theorem live_length_le_render (t : JobTable) : (live t).length ≤ (render t).length := by
  induction t with
  | nil => simp [live, render]
  | cons j js ih =>
    by_cases h : j.offsets = []
    · rw [live_cons_dead j js h, render, renderJob_dead j h]; simpa using ih
    · rw [live_cons_live j js h, render]
      obtain ⟨r, hr⟩ := renderJob_head j [] h
      simp only [List.append_nil] at hr
      simp [hr]; omega

theorem renderJob_length (j : Job) : j.offsets.length ≤ (renderJob j).length := by
  cases h : j.offsets with
  | nil => simp
  | cons o os =>
    have := renderJob_live j o os h []
    simp only [List.append_nil] at this
    rw [this, ← h]
    have := renderStreams_length j.offsets
    simp; omega

theorem parseLoop_render (now : Int) (t : JobTable) (acc : JobTable) (fuel : Nat)
    (hok : ∀ j ∈ live t, JobOk j) (hnd : ((acc ++ live t).map (·.sourceID)).Nodup)
    (hf : (live t).length < fuel) :
    parseLoop now fuel (render t) acc = .ok (acc ++ live t) := by
  induction t generalizing acc fuel with
  | nil =>
    cases fuel with
    | zero => simp [live] at hf
    | succ f => simp [render, parseLoop, live]
  | cons j js ih =>
    by_cases h : j.offsets = []
    · rw [live_cons_dead j js h] at hok hnd hf ⊢
      simp only [render, renderJob_dead j h, List.nil_append]
      exact ih acc fuel hok hnd hf
    · rw [live_cons_live j js h] at hok hnd hf ⊢
      cases fuel with
      | zero => simp at hf
      | succ f =>
        simp only [render]
        obtain ⟨r, hr⟩ := renderJob_head j (render js) h
        have hnew : hasSource acc j.sourceID = false := by
          rw [hasSource_false_iff]
          intro hm
          simp only [List.map_append, List.map_cons] at hnd
          exact (List.nodup_append.mp hnd).2.2 _ hm _ (by simp) rfl
        have hlen : j.offsets.length < (renderJob j ++ render js).length := by
          have h1 := renderJob_length j
          obtain ⟨r', hr'⟩ := renderJob_head j [] h
          -- the job renders strictly more bytes than it has streams: its header lines
          have h2 := renderJob_live j
          cases ho : j.offsets with
          | nil => exact absurd ho h
          | cons o os =>
            have := renderJob_live j o os ho (render js)
            rw [this, ← ho]
            have := renderStreams_length j.offsets
            simp [pFile]; omega
        have hone := parseOne_ok now j (render js) acc (renderJob j ++ render js).length h
          (hok j (by simp)) hnew (render_stops js) hlen
        rw [hr] at hone ⊢
        simp only [parseLoop]
        rw [hone]
        simp only []
        have := ih (acc ++ [j]) f (fun x hx => hok x (by simp [hx])) (by simpa using hnd)
          (by simp at hf; omega)
        simpa using this

/-! ## the fuel of the parsing loops never runs out -/

theorem cutNL_length {c l r : Bytes} (h : cutNL c = some (l, r)) : r.length < c.length := by
  induction c generalizing l r with
  | nil => simp [cutNL] at h
  | cons b bs ih =>
    simp only [cutNL] at h
    split at h
    · simp at h; obtain ⟨_, rfl⟩ := h; simp
    · split at h
      · simp at h
      · rename_i l' r' h'
        simp at h; obtain ⟨_, rfl⟩ := h
        have := ih h'; simp; omega

theorem parseLine_length {c p v r : Bytes} (h : parseLine c p = .ok (v, r)) : r.length < c.length := by
  unfold parseLine at h
  split at h
  · simp at h
  · split at h
    · simp at h
    · rename_i line rem hc
      split at h
      · simp at h
      · simp at h; obtain ⟨_, rfl⟩ := h; exact cutNL_length hc

theorem parseOptionalLine_length {c p v r : Bytes} (h : parseOptionalLine c p = .ok (v, r)) :
    r.length ≤ c.length := by
  unfold parseOptionalLine at h
  split at h
  · simp at h; obtain ⟨_, rfl⟩ := h; simp
  · split at h
    · exact Nat.le_of_lt (parseLine_length h)
    · simp at h; obtain ⟨_, rfl⟩ := h; exact Nat.le_refl _

theorem parseStreamLine_length {c r : Bytes} {st st' : List (Bytes × Int)}
    (h : parseStreamLine c st = .ok (r, st')) : r.length < c.length := by
  unfold parseStreamLine at h
  split at h
  · simp at h
  · rename_i line rest hc
    have hlt := cutNL_length hc
    repeat' (split at h)
    all_goals (first | (simp at h; done) | (simp at h; obtain ⟨rfl, _⟩ := h; exact hlt))

theorem liftGo_ne_fuel {α} (x : GoM α) : liftGo x ≠ .error .fuel := by
  cases x <;> simp [liftGo]

theorem parseStreamLine_no_fuel (c : Bytes) (st : List (Bytes × Int)) :
    parseStreamLine c st ≠ .error .fuel := by
  intro h
  unfold parseStreamLine at h
  repeat' (split at h)
  all_goals (first | (simp at h; done) | skip)
  all_goals (simp at h; subst h; exact liftGo_ne_fuel _ (by assumption))

theorem streamsLoop_fuel (f : Nat) (c : Bytes) (st : List (Bytes × Int)) (hf : c.length < f) :
    streamsLoop f c st ≠ .error .fuel ∧
    ∀ r st', streamsLoop f c st = .ok (r, st') → r.length ≤ c.length := by
  induction f generalizing c st with
  | zero => omega
  | succ f ih =>
    unfold streamsLoop
    split
    · constructor
      · simp
      · intro r st' h; simp at h; obtain ⟨rfl, _⟩ := h; simp
    · rename_i b bs
      split
      · constructor
        · simp
        · intro r st' h; simp at h; obtain ⟨rfl, _⟩ := h; exact Nat.le_refl _
      · split
        · rename_i e he
          constructor
          · intro h; simp at h; subst h
            exact parseStreamLine_no_fuel _ _ he
          · intro r st' h; simp at h
        · rename_i rest st1 hl
          have hlt := parseStreamLine_length hl
          have := ih rest st1 (by omega)
          constructor
          · exact this.1
          · intro r st' h; have := this.2 r st' h; omega

theorem parseLine_no_fuel (c p : Bytes) : parseLine c p ≠ .error .fuel := by
  unfold parseLine
  repeat' split
  all_goals simp

theorem parseOptionalLine_no_fuel (c p : Bytes) : parseOptionalLine c p ≠ .error .fuel := by
  unfold parseOptionalLine
  repeat' split
  all_goals (first | exact parseLine_no_fuel _ _ | simp)

theorem parseOne_fuel (now : Int) (c : Bytes) (offs : JobTable) :
    parseOne now c.length c offs ≠ .error .fuel ∧
    ∀ r offs', parseOne now c.length c offs = .ok (r, offs') → r.length < c.length := by
  unfold parseOne
  split
  · rename_i e he
    exact ⟨by intro h; simp at h; subst h; exact parseLine_no_fuel _ _ he, by intro r o h; simp at h⟩
  rename_i filename c1 h1
  have l1 := parseLine_length h1
  split
  · rename_i e he
    exact ⟨by intro h; simp at h; subst h; exact parseLine_no_fuel _ _ he, by intro r o h; simp at h⟩
  rename_i inodeStr c2 h2
  have l2 := parseLine_length h2
  split
  · rename_i e he
    exact ⟨by intro h; simp at h; subst h; exact parseLine_no_fuel _ _ he, by intro r o h; simp at h⟩
  rename_i sourceStr c3 h3
  have l3 := parseLine_length h3
  split
  · rename_i e he
    exact ⟨by intro h; simp at h; subst h; exact parseOptionalLine_no_fuel _ _ he, by intro r o h; simp at h⟩
  rename_i tsStr c4 h4
  have l4 := parseOptionalLine_length h4
  split
  · exact ⟨by simp, by intro r o h; simp at h⟩
  split
  · exact ⟨by simp, by intro r o h; simp at h⟩
  split
  · exact ⟨by simp, by intro r o h; simp at h⟩
  split
  · exact ⟨by simp, by intro r o h; simp at h⟩
  split
  · rename_i e he
    exact ⟨by intro h; simp at h; subst h; exact parseLine_no_fuel _ _ he, by intro r o h; simp at h⟩
  rename_i x5 c5 h5
  have l5 := parseLine_length h5
  have hs := streamsLoop_fuel c.length c5 [] (by omega)
  split
  · rename_i e he
    exact ⟨by intro h; simp at h; subst h; exact hs.1 he, by intro r o h; simp at h⟩
  · rename_i rest streams hl
    have := hs.2 rest streams hl
    exact ⟨by simp, by intro r o h; simp at h; obtain ⟨rfl, _⟩ := h; omega⟩

theorem parseLoop_fuel (now : Int) (f : Nat) (c : Bytes) (offs : JobTable) (hf : c.length < f) :
    parseLoop now f c offs ≠ .error .fuel := by
  induction f generalizing c offs with
  | zero => omega
  | succ f ih =>
    unfold parseLoop
    split
    · simp
    · have h1 := parseOne_fuel now c offs
      split
      · rename_i e he
        intro h; simp at h; subst h; exact h1.1 he
      · rename_i rest offs' hl
        have := h1.2 rest offs' hl
        exact ih rest offs' (by omega)

/-- the fuel is a model artefact only: `parse` never reports it -/
theorem parse_fuel_ok (now : Int) (c : Bytes) : parse now c ≠ .error .fuel :=
  parseLoop_fuel now (c.length + 1) c [] (by omega)

end FileD.OffsetsFile
