/-
  remove_fields: the model (`removeAt`, swap-remove) against the order-preserving library semantics
  (`eraseAt`) modulo key order, and `eraseAt` folded over any path list against `subtract`.
-/
import FileD.Lemmas.FieldsEqv
namespace FileD.Fields
open FileD FileD.SpecC18

/-! ### object level -/

theorem lookupEqv_swap_erase {a b : KVs} (k : Bytes) (ha : nodupKeys a = true) (hb : nodupKeys b = true)
    (h : LookupEqv a b) : LookupEqv (swapRemoveKey k a) (eraseKey k b) := by
  intro k'
  rw [lookup_swapRemoveKey k k' a ha, lookup_eraseKey k k' b hb]
  by_cases e : k' = k
  · simp [e]
  · simp only [e, if_false]; exact h k'

theorem lookupEqv_setKey {a b : KVs} (k : Bytes) {v v' : JTree} (h : LookupEqv a b) (hv : Eqv v v') :
    LookupEqv (setKey k v a) (setKey k v' b) := by
  intro k'
  rw [lookup_setKey, lookup_setKey]
  by_cases e : k' = k
  · subst e
    have := h k'
    simp only [if_true]
    cases ha : lookup k' a <;> cases hb : lookup k' b <;> simp_all
  · simp only [e, if_false]; exact h k'

/-! ### arrays -/

theorem uniq_arr_eraseIdx {xs : List JTree} (h : uniq (.arr xs) = true) (i : Nat) :
    uniq (.arr (xs.eraseIdx i)) = true := by
  rw [uniq_arr] at *
  exact fun x hx => h x (List.mem_of_mem_eraseIdx hx)

theorem uniq_arr_get {xs : List JTree} (h : uniq (.arr xs) = true) {i : Nat} {x : JTree} (hx : xs[i]? = some x) :
    uniq x = true := by
  rw [uniq_arr] at h
  exact h x (List.mem_of_getElem? hx)

theorem uniq_arr_set {xs : List JTree} (h : uniq (.arr xs) = true) (i : Nat) {x : JTree} (hx : uniq x = true) :
    uniq (.arr (xs.set i x)) = true := by
  rw [uniq_arr] at *
  intro y hy
  rcases List.mem_or_eq_of_mem_set hy with h' | h'
  · exact h y h'
  · rw [h']; exact hx

/-! ### one path: swap-remove vs order-preserving erase -/

theorem removeAt_eqv_eraseAt : ∀ (p : Path) (t u : JTree), uniq t = true → uniq u = true → Eqv t u →
    Eqv (removeAt t p) (eraseAt u p) ∧ uniq (removeAt t p) = true ∧ uniq (eraseAt u p) = true := by
  intro p
  induction p with
  | nil => intro t u ht hu h; cases t <;> cases u <;> exact ⟨h, ht, hu⟩
  | cons k r ih =>
    intro t u ht hu h
    cases t with
    | null => rw [eqv_null_iff] at h; subst h; exact ⟨rfl, rfl, rfl⟩
    | bool b => rw [eqv_bool_iff] at h; subst h; exact ⟨by simp [removeAt, eraseAt, Eqv, eqvb], rfl, rfl⟩
    | num n => rw [eqv_num_iff] at h; subst h; exact ⟨by simp [removeAt, eraseAt, Eqv, eqvb], rfl, rfl⟩
    | str s => rw [eqv_str_iff] at h; subst h; exact ⟨by simp [removeAt, eraseAt, Eqv, eqvb], rfl, rfl⟩
    | arr xs =>
      rw [eqv_arr_iff] at h
      obtain ⟨ys, rfl, h⟩ := h
      rw [eqvL_iff] at h
      have hlen := h.length_eq
      simp only [removeAt, eraseAt, ← hlen]
      cases hi : atoiIdx k xs.length with
      | none => exact ⟨(eqv_arr_iff _ _).2 ⟨ys, rfl, (eqvL_iff _ _).2 h⟩, ht, hu⟩
      | some i =>
        cases r with
        | nil =>
          exact ⟨(eqv_arr_iff _ _).2 ⟨_, rfl, (eqvL_iff _ _).2 (h.eraseIdx i)⟩,
            uniq_arr_eraseIdx ht i, uniq_arr_eraseIdx hu i⟩
        | cons k2 r' =>
          simp only
          cases hx : xs[i]? with
          | none =>
            have : ys[i]? = none := by
              rw [List.getElem?_eq_none_iff] at hx ⊢; omega
            simp only [this]
            exact ⟨(eqv_arr_iff _ _).2 ⟨ys, rfl, (eqvL_iff _ _).2 h⟩, ht, hu⟩
          | some x =>
            obtain ⟨y, hy, hxy⟩ := h.get hx
            simp only [hy]
            obtain ⟨e1, e2, e3⟩ := ih x y (uniq_arr_get ht hx) (uniq_arr_get hu hy) hxy
            exact ⟨(eqv_arr_iff _ _).2 ⟨_, rfl, (eqvL_iff _ _).2 (h.set i e1)⟩,
              uniq_arr_set ht i e2, uniq_arr_set hu i e3⟩
    | obj a =>
      obtain ⟨b, rfl, _⟩ := (eqv_obj_shape a u).1 h
      have hna := ((uniq_obj a).1 ht).1
      have hnb := ((uniq_obj b).1 hu).1
      have hl := (eqv_obj_iff hna).1 h
      have hk := hl k
      simp only [removeAt, eraseAt]
      cases hav : lookup k a with
      | none =>
        rw [hav] at hk
        cases hbv : lookup k b with
        | some _ => rw [hbv] at hk; exact hk.elim
        | none => exact ⟨h, ht, hu⟩
      | some v =>
        rw [hav] at hk
        cases hbv : lookup k b with
        | none => rw [hbv] at hk; exact hk.elim
        | some v' =>
          rw [hbv] at hk
          cases r with
          | nil =>
            exact ⟨(eqv_obj_iff (nodupKeys_swapRemoveKey k a hna)).2 (lookupEqv_swap_erase k hna hnb hl),
              uniq_swapRemoveKey ht, uniq_eraseKey hu⟩
          | cons k2 r' =>
            obtain ⟨e1, e2, e3⟩ := ih v v' (uniq_of_lookup ht hav) (uniq_of_lookup hu hbv) hk
            exact ⟨(eqv_obj_iff (by rw [nodupKeys_setKey]; exact hna)).2 (lookupEqv_setKey k hl e1),
              uniq_setKey ht e2, uniq_setKey hu e3⟩

/-- the whole `for _, fieldPath := range p.fieldPaths` loop -/
theorem foldl_removeAt_eqv_eraseAt : ∀ (ps : List Path) (t u : JTree), uniq t = true → uniq u = true → Eqv t u →
    Eqv (ps.foldl removeAt t) (ps.foldl eraseAt u) ∧ uniq (ps.foldl removeAt t) = true
      ∧ uniq (ps.foldl eraseAt u) = true := by
  intro ps
  induction ps with
  | nil => intro t u ht hu h; exact ⟨h, ht, hu⟩
  | cons p ps ih =>
    intro t u ht hu h
    obtain ⟨e1, e2, e3⟩ := removeAt_eqv_eraseAt p t u ht hu h
    exact ih _ _ e2 e3 e1

end FileD.Fields
