/-
  C15 — Multi-line reassembly keeps every byte, in order, within one stream.
  Property theorems only (models: Model/Join.lean, Model/K8sMultiline.lean; spec: Spec/C15.lean;
  helper lemmas: Lemmas/Join.lean, Lemmas/K8sMultiline.lean).
-/
import FileD.Lemmas.Join
namespace FileD.PropsC15
open FileD FileD.Join FileD.SpecC15

/-- **join = group into maximal runs, concatenate.** For every configuration (field path,
    `max_event_size`, `negate`), every sequence of `Do` calls of one stream — events with
    arbitrary content (field absent, string, number, object…) and arbitrary start / continue
    classifier results, time-outs wherever the instance is mid-run — a fresh `join` instance
    never panics, answers every call, and
      * what it sends on (Propagate calls and passed events, in order) is exactly the spec:
        events outside runs unchanged and in order, each closed maximal run replaced by the
        start event whose field is the in-order concatenation of the run (cut where the code
        stops appending), a run being closed by the first non-continuing event or a time-out;
      * its answers are hold / collapse / pass / discard exactly as the spec says (so the
        processor keeps it on the stream exactly while a run is open). -/
theorem join_eq_spec (cfg : Cfg) (items : List In) (ht : timely cfg false items = true) :
    (∃ st, (run cfg St.init items).fin = .ok st) ∧
    downstream (run cfg St.init items).outs = spec cfg items ∧
    (run cfg St.init items).outs.map (·.res) = specResults cfg false items :=
  (run_spec cfg items).2 St.init rfl ht

/-- a tiny event: `{"log": <s>}` (bytes spelled out so that the kernel can evaluate) -/
def lineEv (s : Bytes) (startOK contOK : Bool) : Ev :=
  ⟨0, .obj [([108, 111, 103], .str s)], startOK, contOK⟩

def logCfg : Cfg := ⟨[[108, 111, 103]], 0, false⟩

-- non-vacuity: x, A, b, c (continue), y  ↦  x, "Abc", y ; then a run closed by a time-out
example :
    timely logCfg false [In.ev (lineEv [120] false false), .ev (lineEv [65] true false),
      .ev (lineEv [98] false true), .ev (lineEv [99] false true), .ev (lineEv [121] false false),
      .ev (lineEv [65] true false), .ev (lineEv [98] false true), .timeout 0] = true ∧
    spec logCfg [In.ev (lineEv [120] false false), .ev (lineEv [65] true false),
      .ev (lineEv [98] false true), .ev (lineEv [99] false true), .ev (lineEv [121] false false),
      .ev (lineEv [65] true false), .ev (lineEv [98] false true), .timeout 0] =
      [(lineEv [120] false false).out, (lineEv [65, 98, 99] false false).out,
       (lineEv [121] false false).out, (lineEv [65, 98] false false).out] := by
  constructor <;> rfl

end FileD.PropsC15
