/-
  C15 — Multi-line reassembly keeps every byte, in order, within one stream.
  Property theorems only (models: Model/Join.lean, Model/K8sMultiline.lean; spec: Spec/C15.lean;
  helper lemmas: Lemmas/Join.lean, Lemmas/K8sMultiline.lean).
-/
import FileD.Lemmas.Join
import FileD.Lemmas.JoinTemplate
import FileD.Lemmas.JoinStreams
namespace FileD.PropsC15
open FileD FileD.Join FileD.SpecC15

/-- **join = group into maximal runs, concatenate.** For every configuration (field path,
    `max_event_size`, `negate`), every sequence of `Do` calls of one stream — events with
    arbitrary content (field absent, string, number, object…) and arbitrary start / continue
    classifier results, time-outs wherever the instance is mid-run — a fresh `join` instance
    never panics, answers every call, and
      * what it sends on (Propagate calls and passed events, in order) is exactly the spec:
        events outside runs unchanged and in order, each closed maximal run replaced by the
        start event whose field is the in-order concatenation of the run (cut where the code
        stops appending), a run being closed by the first non-continuing event or a time-out;
      * its answers are hold / collapse / pass / discard exactly as the spec says (so the
        processor keeps it on the stream exactly while a run is open). -/
theorem join_eq_spec (cfg : Cfg) (items : List In) (ht : timely cfg false items = true) :
    (∃ st, (run cfg St.init items).fin = .ok st) ∧
    downstream (run cfg St.init items).outs = spec cfg items ∧
    (run cfg St.init items).outs.map (·.res) = specResults cfg false items :=
  (run_spec cfg items).2 St.init rfl ht

/-- a tiny event: `{"log": <s>}` (bytes spelled out so that the kernel can evaluate) -/
def lineEv (s : Bytes) (startOK contOK : Bool) : Ev :=
  ⟨0, .obj [([108, 111, 103], .str s)], startOK, contOK⟩

def logCfg : Cfg := ⟨[[108, 111, 103]], 0, false⟩

-- non-vacuity: x, A, b, c (continue), y  ↦  x, "Abc", y ; then a run closed by a time-out
example :
    timely logCfg false [In.ev (lineEv [120] false false), .ev (lineEv [65] true false),
      .ev (lineEv [98] false true), .ev (lineEv [99] false true), .ev (lineEv [121] false false),
      .ev (lineEv [65] true false), .ev (lineEv [98] false true), .timeout 0] = true ∧
    spec logCfg [In.ev (lineEv [120] false false), .ev (lineEv [65] true false),
      .ev (lineEv [98] false true), .ev (lineEv [99] false true), .ev (lineEv [121] false false),
      .ev (lineEv [65] true false), .ev (lineEv [98] false true), .timeout 0] =
      [(lineEv [120] false false).out, (lineEv [65, 98, 99] false false).out,
       (lineEv [121] false false).out, (lineEv [65, 98] false false).out] := by
  constructor <;> rfl


/-- **join_template = join with the template classifiers** (corollary of `join_eq_spec`).
    The templates' `StartCheck` / `ContinueCheck` functions are taken as ORACLES (one start bit
    and one continue bit per configured template and event); what is modelled is the wrapper:
    `firstCheck` picks the first template whose start check accepts and makes it current,
    `nextCheck` asks the current template and applies its `Negate`. For every selection of
    templates and every call sequence: the wrapper never indexes `templates[-1]` (no panic), and
    its outputs are the run-grouping spec of the plain events `resolve` computes. -/
theorem join_template_eq_spec (tcfg : TCfg) (items : List TIn) (hs : Shaped tcfg items)
    (ht : timely tcfg.join false (resolve tcfg (-1) items) = true) :
    (∃ st, (trun tcfg TSt.init items).fin = .ok st) ∧
    downstream (trun tcfg TSt.init items).outs = spec tcfg.join (resolve tcfg (-1) items) ∧
    (trun tcfg TSt.init items).outs.map (·.res) =
      specResults tcfg.join false (resolve tcfg (-1) items) := by
  have hcur : CurOK tcfg TSt.init := by intro h; simp [TSt.init, St.init] at h
  obtain ⟨h1, h2⟩ := trun_eq tcfg items TSt.init hcur hs
  obtain ⟨⟨st, hst⟩, hd, hr⟩ := join_eq_spec tcfg.join (resolve tcfg (-1) items) ht
  have h1' : (trun tcfg TSt.init items).outs = (run tcfg.join St.init (resolve tcfg (-1) items)).outs := h1
  have h2' : (match (trun tcfg TSt.init items).fin with
      | .ok s => (.ok s.j : GoM St)
      | .error p => .error p) = (run tcfg.join St.init (resolve tcfg (-1) items)).fin := h2
  refine ⟨?_, by rw [h1', hd], by rw [h1', hr]⟩
  rw [hst] at h2'
  cases hf : (trun tcfg TSt.init items).fin with
  | ok s => exact ⟨s, rfl⟩
  | error p => rw [hf] at h2'; simp at h2'

-- non-vacuity: two templates (the second negated, like go_data_race); "S1" starts template 1,
-- the next line is NOT a finish line of template 1 so it continues, the finish line closes the run
example :
    let tcfg : TCfg := ⟨[[108, 111, 103]], 0, [false, true]⟩
    let ev (s : Bytes) (st ct : List Bool) : TIn := .ev ⟨0, .obj [([108, 111, 103], .str s)], st, ct⟩
    let items := [ev [83] [false, true] [false, false], ev [97] [false, false] [false, false],
                  ev [61] [false, false] [false, true]]
    Shaped tcfg items ∧ timely tcfg.join false (resolve tcfg (-1) items) = true ∧
    (spec tcfg.join (resolve tcfg (-1) items)).map (·.root) =
      [.obj [([108, 111, 103], .str [83, 97])], .obj [([108, 111, 103], .str [61])]] := by
  refine ⟨?_, rfl, rfl⟩
  intro e he
  simp at he
  rcases he with rfl | rfl | rfl <;> simp

/-- **no cross-stream merge** (per action instance). The instance sees an interleaving of
    several streams' events and time-outs, each tagged with its stream. HYPOTHESIS `coherent`
    (from C02/C04: a stream is owned by one processor, and a processor with a busy action takes
    its next event with `blockGet` from the stream of the event that made it busy): while a run
    is open, the next call belongs to the run's stream. Then for EVERY stream `s` what the
    instance sends on for `s` is exactly the run-grouping spec of `s`'s own calls — no event of
    another stream is ever part of a joined event of `s`, whatever the interleaving. -/
theorem no_cross_stream_merge (cfg : Cfg) (items : List In)
    (hc : coherent cfg none items = true) (ht : timely cfg false items = true) (s : Nat) :
    (downstream (run cfg St.init items).outs).filter (fun o => o.tag == s) =
      spec cfg (items.filter (fun x => tagOf x == s)) := by
  rw [(join_eq_spec cfg items ht).2.1]
  exact (emit_filter cfg s items).1 hc

-- non-vacuity: stream 1 runs "A b", stream 2's "b" arrives only after stream 1's run is closed
example :
    let e (t : Nat) (s : Bytes) (st ct : Bool) : In := .ev ⟨t, .obj [([108, 111, 103], .str s)], st, ct⟩
    let items := [e 1 [65] true false, e 1 [98] false true, e 1 [120] false false,
                  e 2 [98] false true, e 2 [65] true false, .timeout 2]
    coherent logCfg none items = true ∧ timely logCfg false items = true ∧
    (spec logCfg (items.filter (fun x => tagOf x == 1))).map (·.root) =
      [.obj [([108, 111, 103], .str [65, 98])], .obj [([108, 111, 103], .str [120])]] := by
  refine ⟨rfl, rfl, rfl⟩

/-- the hypothesis is needed: without coherence a continuation line of another stream IS merged -/
theorem no_cross_stream_merge_needs_coherence :
    ∃ (cfg : Cfg) (items : List In), timely cfg false items = true ∧ coherent cfg none items = false ∧
      (downstream (run cfg St.init items).outs).filter (fun o => o.tag == 1) ≠
        spec cfg (items.filter (fun x => tagOf x == 1)) := by
  refine ⟨logCfg, [.ev ⟨1, .obj [([108, 111, 103], .str [65])], true, false⟩,
                   .ev ⟨2, .obj [([108, 111, 103], .str [98])], false, true⟩,
                   .ev ⟨1, .obj [([108, 111, 103], .str [120])], false, false⟩], rfl, rfl, ?_⟩
  intro h
  have := congrArg (fun l => l.map (fun o => (asString ((JTree.dig o.root [[108, 111, 103]]).getD .null)).length)) h
  simp [run, step, doEvent, logCfg, JTree.dig, JTree.lookup, JTree.isStr, flushThen, flush, isNextOK,
    appendBuff, downstream, Out.down, St.init, Ev.out, spec, segs, classify, openRun, takeOrphans, emit,
    joined, joinedValue, value, fits, setPath, setFirst, asString, tagOf] at this

end FileD.PropsC15
