/-
  C15 — Multi-line reassembly keeps every byte, in order, within one stream.
  Property theorems only (models: Model/Join.lean, Model/K8sMultiline.lean; spec: Spec/C15.lean;
  helper lemmas: Lemmas/Join.lean, Lemmas/K8sMultiline.lean).
-/
import FileD.Lemmas.Join
import FileD.Lemmas.JoinTemplate
import FileD.Lemmas.JoinStreams
import FileD.Lemmas.K8sMultiline
import FileD.Lemmas.JoinTemplates
namespace FileD.PropsC15

section JoinPart
open FileD FileD.Join FileD.SpecC15

/-- **join = group into maximal runs, concatenate.** For every configuration (field path,
    `max_event_size`, `negate`), every sequence of `Do` calls of one stream — events with
    arbitrary content (field absent, string, number, object…) and arbitrary start / continue
    classifier results, time-outs wherever the instance is mid-run — a fresh `join` instance
    never panics, answers every call, and
      * what it sends on (Propagate calls and passed events, in order) is exactly the spec:
        events outside runs unchanged and in order, each closed maximal run replaced by the
        start event whose field is the in-order concatenation of the run (cut where the code
        stops appending), a run being closed by the first non-continuing event or a time-out;
      * its answers are hold / collapse / pass / discard exactly as the spec says (so the
        processor keeps it on the stream exactly while a run is open). -/
theorem join_eq_spec (cfg : Cfg) (items : List In) (ht : timely cfg false items = true) :
    (∃ st, (run cfg St.init items).fin = .ok st) ∧
    downstream (run cfg St.init items).outs = spec cfg items ∧
    (run cfg St.init items).outs.map (·.res) = specResults cfg false items :=
  (run_spec cfg items).2 St.init rfl ht

/-- the hypothesis of `join_eq_spec` is exact: a time-out delivered while no run is open is the
    plugin's own `Panicf("timeout without joining, why?")` (the processor never does that: a
    time-out event is only made by `blockGet`, which only runs while an action is busy) -/
theorem join_untimely_panics (cfg : Cfg) (items : List In) (ht : timely cfg false items = false) :
    (run cfg St.init items).fin = .error .other :=
  (run_untimely cfg items).2 St.init rfl ht

example : timely ⟨[[108, 111, 103]], 0, false⟩ false [In.timeout 0] = false := rfl

/-- a tiny event: `{"log": <s>}` (bytes spelled out so that the kernel can evaluate) -/
def lineEv (s : Bytes) (startOK contOK : Bool) : Ev :=
  ⟨0, .obj [([108, 111, 103], .str s)], startOK, contOK⟩

def logCfg : Cfg := ⟨[[108, 111, 103]], 0, false⟩

-- non-vacuity: x, A, b, c (continue), y  ↦  x, "Abc", y ; then a run closed by a time-out
example :
    timely logCfg false [In.ev (lineEv [120] false false), .ev (lineEv [65] true false),
      .ev (lineEv [98] false true), .ev (lineEv [99] false true), .ev (lineEv [121] false false),
      .ev (lineEv [65] true false), .ev (lineEv [98] false true), .timeout 0] = true ∧
    spec logCfg [In.ev (lineEv [120] false false), .ev (lineEv [65] true false),
      .ev (lineEv [98] false true), .ev (lineEv [99] false true), .ev (lineEv [121] false false),
      .ev (lineEv [65] true false), .ev (lineEv [98] false true), .timeout 0] =
      [(lineEv [120] false false).out, (lineEv [65, 98, 99] false false).out,
       (lineEv [121] false false).out, (lineEv [65, 98] false false).out] := by
  constructor <;> rfl


/-- **join_template = join with the template classifiers** (corollary of `join_eq_spec`).
    The templates' `StartCheck` / `ContinueCheck` functions are taken as ORACLES (one start bit
    and one continue bit per configured template and event); what is modelled is the wrapper:
    `firstCheck` picks the first template whose start check accepts and makes it current,
    `nextCheck` asks the current template and applies its `Negate`. For every selection of
    templates and every call sequence: the wrapper never indexes `templates[-1]` (no panic), and
    its outputs are the run-grouping spec of the plain events `resolve` computes. -/
theorem join_template_eq_spec (tcfg : TCfg) (items : List TIn) (hs : Shaped tcfg items)
    (ht : timely tcfg.join false (resolve tcfg (-1) items) = true) :
    (∃ st, (trun tcfg TSt.init items).fin = .ok st) ∧
    downstream (trun tcfg TSt.init items).outs = spec tcfg.join (resolve tcfg (-1) items) ∧
    (trun tcfg TSt.init items).outs.map (·.res) =
      specResults tcfg.join false (resolve tcfg (-1) items) := by
  have hcur : CurOK tcfg TSt.init := by intro h; simp [TSt.init, St.init] at h
  obtain ⟨h1, h2⟩ := trun_eq tcfg items TSt.init hcur hs
  obtain ⟨⟨st, hst⟩, hd, hr⟩ := join_eq_spec tcfg.join (resolve tcfg (-1) items) ht
  have h1' : (trun tcfg TSt.init items).outs = (run tcfg.join St.init (resolve tcfg (-1) items)).outs := h1
  have h2' : (match (trun tcfg TSt.init items).fin with
      | .ok s => (.ok s.j : GoM St)
      | .error p => .error p) = (run tcfg.join St.init (resolve tcfg (-1) items)).fin := h2
  refine ⟨?_, by rw [h1', hd], by rw [h1', hr]⟩
  rw [hst] at h2'
  cases hf : (trun tcfg TSt.init items).fin with
  | ok s => exact ⟨s, rfl⟩
  | error p => rw [hf] at h2'; simp at h2'

-- non-vacuity: two templates (the second negated, like go_data_race); "S1" starts template 1,
-- the next line is NOT a finish line of template 1 so it continues, the finish line closes the run
example :
    let tcfg : TCfg := ⟨[[108, 111, 103]], 0, [false, true]⟩
    let ev (s : Bytes) (st ct : List Bool) : TIn := .ev ⟨0, .obj [([108, 111, 103], .str s)], st, ct⟩
    let items := [ev [83] [false, true] [false, false], ev [97] [false, false] [false, false],
                  ev [61] [false, false] [false, true]]
    Shaped tcfg items ∧ timely tcfg.join false (resolve tcfg (-1) items) = true ∧
    (spec tcfg.join (resolve tcfg (-1) items)).map (·.root) =
      [.obj [([108, 111, 103], .str [83, 97])], .obj [([108, 111, 103], .str [61])]] := by
  refine ⟨?_, rfl, rfl⟩
  intro e he
  simp at he
  rcases he with rfl | rfl | rfl <;> simp

/-- **no cross-stream merge** (per action instance). The instance sees an interleaving of
    several streams' events and time-outs, each tagged with its stream. HYPOTHESIS `coherent`
    (from C02/C04: a stream is owned by one processor, and a processor with a busy action takes
    its next event with `blockGet` from the stream of the event that made it busy): while a run
    is open, the next call belongs to the run's stream. Then for EVERY stream `s` what the
    instance sends on for `s` is exactly the run-grouping spec of `s`'s own calls — no event of
    another stream is ever part of a joined event of `s`, whatever the interleaving. -/
theorem no_cross_stream_merge (cfg : Cfg) (items : List In)
    (hc : coherent cfg none items = true) (ht : timely cfg false items = true) (s : Nat) :
    (downstream (run cfg St.init items).outs).filter (fun o => o.tag == s) =
      spec cfg (items.filter (fun x => tagOf x == s)) := by
  rw [(join_eq_spec cfg items ht).2.1]
  exact (emit_filter cfg s items).1 hc

-- non-vacuity: stream 1 runs "A b", stream 2's "b" arrives only after stream 1's run is closed
example :
    let e (t : Nat) (s : Bytes) (st ct : Bool) : In := .ev ⟨t, .obj [([108, 111, 103], .str s)], st, ct⟩
    let items := [e 1 [65] true false, e 1 [98] false true, e 1 [120] false false,
                  e 2 [98] false true, e 2 [65] true false, .timeout 2]
    coherent logCfg none items = true ∧ timely logCfg false items = true ∧
    (spec logCfg (items.filter (fun x => tagOf x == 1))).map (·.root) =
      [.obj [([108, 111, 103], .str [65, 98])], .obj [([108, 111, 103], .str [120])]] := by
  refine ⟨rfl, rfl, rfl⟩

/-- the hypothesis is needed: without coherence a continuation line of another stream IS merged -/
theorem no_cross_stream_merge_needs_coherence :
    ∃ (cfg : Cfg) (items : List In), timely cfg false items = true ∧ coherent cfg none items = false ∧
      (downstream (run cfg St.init items).outs).filter (fun o => o.tag == 1) ≠
        spec cfg (items.filter (fun x => tagOf x == 1)) := by
  refine ⟨logCfg, [.ev ⟨1, .obj [([108, 111, 103], .str [65])], true, false⟩,
                   .ev ⟨2, .obj [([108, 111, 103], .str [98])], false, true⟩,
                   .ev ⟨1, .obj [([108, 111, 103], .str [120])], false, false⟩], rfl, rfl, ?_⟩
  intro h
  have := congrArg (fun l => l.map (fun o => (asString ((JTree.dig o.root [[108, 111, 103]]).getD .null)).length)) h
  simp [run, step, doEvent, logCfg, JTree.dig, JTree.lookup, JTree.isStr, flushThen, flush, isNextOK,
    appendBuff, downstream, Out.down, St.init, Ev.out, spec, segs, classify, openRun, takeOrphans, emit,
    joined, joinedValue, value, fits, setPath, setFirst, asString, tagOf] at this

end JoinPart

section TemplatePart
open FileD FileD.JoinTemplates FileD.SpecC15Templates

/-- **the byte classes of the join_template fast path are the classes of the regexps it
    replaces** — for all 256 bytes: `IsDigit` = `[0-9]`, `IsLetterOrUnderscore` = `[A-Za-z_]`,
    `IsLetterOrUnderscoreOrDigit` = `[A-Za-z0-9_]` = `\w`, the letter classes, `ToLower` = `(?i)`
    folding; `IsSpace` = `\s` except on form feed and carriage return; `IsHexDigit` = `[0-9,a-f]`
    (class of `panic.+[0-9]x[0-9,a-f]+`) except on the comma. The modelled helpers are compared
    with the real ones on every byte by `c15.ascii` on every run. -/
theorem template_classes_eq_regexp_partial (c : UInt8) :
    (c ≠ 12 → c ≠ 13 → isSpace c = reSpace c) ∧ isDigit c = reDigit c ∧
    (c ≠ 44 → isHexDigit c = reHexClass c) ∧ isLetter c = reLetter c ∧
    isLetterOrUnderscore c = reIdentStart c ∧ isLetterOrUnderscoreOrDigit c = reWord c ∧
    toLower c = reFold c := by
  have h := classesAgree_all c
  simp only [classesAgree, Bool.and_eq_true, Bool.or_eq_true, beq_iff_eq] at h
  obtain ⟨⟨⟨⟨⟨⟨⟨⟨h1, h2⟩, h3⟩, _⟩, _⟩, h6⟩, h7⟩, h8⟩, h9⟩ := h
  refine ⟨fun a b => ?_, h2, fun a => ?_, h6, h7, h8, h9⟩
  · rcases h1 with (h | h) | h
    · exact absurd h a
    · exact absurd h b
    · exact h
  · rcases h3 with h | h
    · exact absurd h a
    · exact h

-- first / last members and the outside neighbours: '0' '9' 'a' 'f' in, '/' ':' '`' 'g' ',' out
example : [48, 57, 97, 102].all isHexDigit = true ∧ [47, 58, 96, 103, 44, 70].all (fun c => !isHexDigit c) = true := by
  decide

/-- (informative, not a C15 obligation of the code) the helpers are exactly the regexp classes:
    false on three bytes. -/
def TemplateClassesEqRegexp : Prop :=
  ∀ c : UInt8, isSpace c = reSpace c ∧ isHexDigit c = reHexClass c

/-- carriage return is `\s` but not `IsSpace`; the comma is in `[0-9,a-f]` but not `IsHexDigit`.
    Informative: the regexps are only named in code comments, C15 does not demand them, the check
    raises nothing for this. -/
theorem template_classes_counterexample : ¬ TemplateClassesEqRegexp := by
  intro h
  have := (h 13).1
  revert this
  decide

end TemplatePart

section K8sPart
open FileD FileD.K8s FileD.SpecC15K8s
open FileD.Join (Res)

/-- **k8s multiline = group chunks into lines, concatenate** (the tree after the `fix:`
    commits). For every configuration with `max_event_size` 0 or ≥ 4 (skip and cut mode, any
    `split_event_size`), every call sequence of one stream — string chunks with ANY quoted
    escaped text, events whose `log` is absent or not a string, time-outs anywhere — the
    plugin answers every call exactly as the line-grouping spec says: chunks of an unfinished
    line are collapsed, the chunk that ends it (escaped newline with an unescaped backslash, or
    the split look-ahead) passes with `log` = quote(concatenation of the contents), an over-limit
    line is dropped (skip) or cut to `max-3` content bytes + newline and marked (cut). -/
theorem k8s_chunks_eq_spec (cfg : Cfg) (hl : LimitOK cfg) (items : List In) (hq : quotedItems items) :
    (run cfg St.init items).outs = specK cfg Line.empty items ∧
    ∃ st, (run cfg St.init items).fin = .ok st :=
  let h := run_sim cfg hl items St.init Line.empty (rel_init cfg hl) hq
  ⟨h.1, h.2.choose, h.2.choose_spec.1⟩

-- non-vacuity: "ab" + "" + "c\n" (three chunks) is one event "abc\n"; then "x\\n" (backslash, n)
-- does NOT end a line, "y\n" does
example :
    let cfg : Cfg := ⟨1000000, 0, false, false⟩
    let ch (c : Bytes) : In := .ev ⟨0, 10, .str (quote c)⟩
    specK cfg Line.empty [ch [97, 98], ch [], ch [99, 92, 110], ch [120, 92, 92, 110], ch [121, 92, 110]] =
      [collapse false, collapse false, ⟨.pass, some (quote [97, 98, 99, 92, 110]), false, false⟩,
       collapse false, ⟨.pass, some (quote [120, 92, 92, 110, 121, 92, 110]), false, false⟩] := by
  decide

/-- **no event content can make the plugin panic or exit** (after the fixes): for every log
    value — absent, number / bool / null / object / array, the empty string, any quoted text —
    every time-out placement and every limit setting covered by `LimitOK`, no call panics. -/
theorem k8s_total (cfg : Cfg) (hl : LimitOK cfg) (items : List In) (hq : quotedItems items) (p : Panic) :
    (run cfg St.init items).fin ≠ .error p := by
  obtain ⟨_, st, hst⟩ := k8s_chunks_eq_spec cfg hl items hq
  rw [hst]; intro h; cases h

example : quotedItems [In.ev ⟨0, 1, .str (quote [])⟩, .ev ⟨0, 1, .nonString⟩, .ev ⟨0, 1, .absent⟩, .timeout 0] ∧
    LimitOK ⟨1000000, 8, true, true⟩ := by
  refine ⟨⟨by simp [Quoted, inner_quote], trivial⟩, Or.inr (by decide)⟩

/-- the partial chunks of ONE container line become ONE event and no byte is lost: with no
    size limit in the way, `n` chunks that do not end the line followed by the chunk that does
    are answered collapse × n, then pass with `log` = quote(all contents in order). -/
theorem k8s_line_joined (cfg : Cfg) (hm : cfg.maxSize = 0) (cs : List (Nat × Bytes)) (lastSize : Nat)
    (last : Bytes) (hne : ∀ p ∈ cs, contentEndsLine p.2 = false) (hend : contentEndsLine last = true)
    (hsz : (((cs.map (·.1)).sum + lookahead : Nat) : Int) ≤ cfg.splitSize) :
    (run cfg St.init (cs.map (fun p => In.ev ⟨0, p.1, .str (quote p.2)⟩) ++
        [In.ev ⟨0, lastSize, .str (quote last)⟩])).outs =
      cs.map (fun _ => collapse false) ++
        [⟨.pass, some (quote ((cs.map (·.2)).flatten ++ last)), false, false⟩] := by
  have hq : quotedItems (cs.map (fun p => In.ev ⟨0, p.1, .str (quote p.2)⟩) ++
      [In.ev ⟨0, lastSize, .str (quote last)⟩]) := by
    induction cs with
    | nil => exact ⟨quoted_quote last, trivial⟩
    | cons p r ih =>
      exact ⟨quoted_quote p.2, ih (fun q hq => hne q (by simp [hq]))
        (by simp only [List.map_cons, List.sum_cons] at hsz; omega)⟩
  rw [(k8s_chunks_eq_spec cfg (Or.inl hm) _ hq).1]
  rw [specK_partials cfg hm cs Line.empty rfl _ hne (by simpa [Line.empty] using hsz)]
  simp [specK, specStep, Line.empty, endsLine, inner_quote, hend, Line.content]

example : contentEndsLine [100, 92, 110] = true ∧ contentEndsLine [100, 92, 92, 110] = false ∧
    contentEndsLine [] = false := by decide

/-- **the end-of-line test means what it should** (fix 7300d7e): on escaped text — backslash
    written `\\`, newline written `\n`, other bytes as themselves — a chunk is taken for the end
    of its line exactly when its TEXT ends with a newline. (The old test, "the last two escaped
    bytes are `\n`", also fired on a text ending with a backslash and the letter n.) -/
theorem k8s_isEnd_iff_newline (text : Bytes) :
    endsLine (quote (esc text)) = (text.getLast? == some NL) := by
  rw [endsLine, inner_quote, contentEndsLine_esc]

example : endsLine (quote (esc [97, 10])) = true ∧ endsLine (quote (esc [97, 92, 110])) = false ∧
    esc [97, 92, 110] = [97, 92, 92, 110] := by decide

/-- **an idle instance is a fresh instance**: whenever a call is answered pass or discard (the
    processor may then move the instance to another stream) the plugin state is exactly the
    state after `Start` — nothing buffered, no skip flag — so nothing of one stream's line can
    leak into the next stream's. (Before fix 44d51a6 `skipNextEvent` survived a time-out.) -/
theorem k8s_idle_is_fresh (cfg : Cfg) (hl : LimitOK cfg) (items : List In) (x : In)
    (hq : quotedItems (items ++ [x])) (st st' : St) (o : Out)
    (hrun : (run cfg St.init items).fin = .ok st) (hstep : step cfg st x = .ok (st', o))
    (hres : o.res = .pass ∨ o.res = .discard) : st' = St.init := by
  obtain ⟨hqi, hqx⟩ := quotedItems_append hq
  obtain ⟨_, st0, hst0, hrel⟩ := run_sim cfg hl items St.init Line.empty (rel_init cfg hl) hqi
  rw [hrun] at hst0
  cases hst0
  obtain ⟨st1, hs1, hr1⟩ := step_sim cfg hl st _ hrel x (quotedItems_cons hqx).1
  rw [hstep] at hs1
  cases hs1
  rw [specStep_closes cfg _ x hres] at hr1
  exact rel_empty_init hr1

/-- FULL STATEMENT for the "keeps every byte" clause (no size limit): the content bytes of all
    string chunks that went in are the content bytes of the passed events plus what is still
    buffered. FALSE of the code: see the counterexample. -/
def K8sKeepsEveryByte : Prop :=
  ∀ (cfg : Cfg) (items : List In), cfg.maxSize = 0 → quotedItems items →
    ∀ st, (run cfg St.init items).fin = .ok st →
      contentOut (run cfg St.init items).outs ++ st.eventBuf.drop 1 = contentIn items

/-- it holds whenever no unfinished line is interrupted by a time-out or by an event without a
    string `log` (`abandons = false`) -/
theorem k8s_keeps_every_byte_partial (cfg : Cfg) (items : List In) (hm : cfg.maxSize = 0)
    (hq : quotedItems items) (hab : abandons cfg Line.empty items = false)
    (st : St) (hst : (run cfg St.init items).fin = .ok st) :
    contentOut (run cfg St.init items).outs ++ st.eventBuf.drop 1 = contentIn items := by
  obtain ⟨houts, st0, hst0, hrel⟩ :=
    run_sim cfg (Or.inl hm) items St.init Line.empty (rel_init cfg (Or.inl hm)) hq
  rw [hst] at hst0
  cases hst0
  obtain ⟨hkeep, hover⟩ := spec_keeps_bytes cfg hm items Line.empty rfl hab
  obtain ⟨_, h2⟩ := hrel
  simp only [hover, Bool.false_eq_true, ↓reduceIte] at h2
  rw [houts, h2.2.2.1]
  simpa [Line.empty, Line.content] using hkeep

/-- a time-out in the middle of a line loses the buffered chunk: `"a"`, time-out, `"b\n"`
    outputs only `b\n` (known finding C15-k8s-timeout-drops-partial-line; witness in corpus/C15) -/
theorem k8s_keeps_every_byte_counterexample : ¬ K8sKeepsEveryByte := by
  intro h
  have := h ⟨1000000, 0, false, false⟩
    [.ev ⟨0, 10, .str [34, 97, 34]⟩, .timeout 0, .ev ⟨0, 10, .str [34, 98, 92, 110, 34]⟩] rfl
    ⟨rfl, rfl, trivial⟩ St.init rfl
  revert this
  decide

end K8sPart

end FileD.PropsC15
