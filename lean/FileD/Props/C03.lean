/-
  C03 — File input loses no line across kill and restart.
  Property theorems only (helper lemmas: FileD/Lemmas/FileRestart*.lean).

  The model is the transition system `FileRestart.step?` (Model/FileRestart.lean); a history is a
  list of ops starting from `init` (file.d down, empty directory, no offsets file). Every theorem
  quantifies over all histories: all interleavings of writers, reads, hand-offs to the output,
  acks, commits, offset saves, kills and restarts, any number of runs.
-/
import FileD.Lemmas.FileRestartEx
namespace FileD.PropsC03
open FileD FileD.FileRestart FileD.SpecC03 FileD.SpecC06

/-! ### no loss -/

/-- the full statement: several streams per file allowed, no side condition on the crash -/
def NoLoss : Prop :=
  ∀ (cfg : Cfg) (ops : List Op) (s : State),
    TS.run (step? cfg) init ops = some s → NoTruncate ops → Idle s → AllDelivered cfg s

/-- **no loss, partial**: for every history without truncation in which, at every crash, every
    stream of a file that has an un-acked line already has an entry in that file's saved offsets,
    in every idle state every complete line the pipeline admits has been acked in some run or has
    been handed to the output in the current run — lines appended and files renamed or created
    while file.d was down included (they are ops of the history like any other). -/
theorem no_loss_partial (cfg : Cfg) (ops : List Op) (s : State)
    (hrun : TS.run (step? cfg) init ops = some s) (hnt : NoTruncate ops)
    (hcov : AtCrashes cfg (CrashCovered cfg) init ops) (hidle : Idle s) : AllDelivered cfg s :=
  inv_idle_allDelivered (inv_run (inv_init cfg) hnt hcov hrun) hidle

/-- **no loss, single-stream files**: when at every crash all complete lines of each file carry
    one stream, the side condition holds by itself -/
theorem no_loss_single_stream (cfg : Cfg) (ops : List Op) (s : State)
    (hrun : TS.run (step? cfg) init ops = some s) (hnt : NoTruncate ops)
    (hss : AtCrashes cfg (SingleStream cfg) init ops) (hidle : Idle s) : AllDelivered cfg s :=
  inv_idle_allDelivered (inv_run_single (inv_init cfg) hnt hss hrun) hidle

/-- **no false skip**: under the same hypotheses, an event `PassEvent` refused (its offset is not
    beyond its stream's saved / committed offset) is a line that was acked -/
theorem no_false_skip (cfg : Cfg) (ops : List Op) (s : State)
    (hrun : TS.run (step? cfg) init ops = some s) (hnt : NoTruncate ops)
    (hcov : AtCrashes cfg (CrashCovered cfg) init ops) :
    ∀ e ∈ s.skipped, Covers s.acked e.ino (e.off, e.data) :=
  fun e he => coversG_all.1 ((inv_run (inv_init cfg) hnt hcov hrun).skipped e he (by simp [noEx]))

/-! #### a concrete history satisfying the hypotheses (non-vacuity)

  one file `a\nb\na\na\n` (streams = first byte): a1 b2 a3 acked and committed, offsets `{a: 6, b: 4}`
  saved, a4 in flight at the kill; run 2 seeks to 4, skips a3 (acked), delivers a4. -/

/-- the hypotheses of `no_loss_partial` hold on a history with two streams in one file, a kill with
    an un-acked line, a resume that skips an acked line; the conclusion is not vacuous either: the
    un-acked line a4 is found among the events handed to the output in run 2 -/
example : AllDelivered cfgAB sOK := no_loss_partial cfgAB okOps sOK ok_run ok_noTruncate ok_atCrashes ok_idle

example : Covers (sOK.acked ++ sOK.delivered) 1 (8, [97, 10]) :=
  no_loss_partial cfgAB okOps sOK ok_run ok_noTruncate ok_atCrashes ok_idle 1 ⟨0, fileOK⟩ (8, [97, 10])
    rfl (by decide) rfl

/-- `no_false_skip` on the same history: a3 was refused by PassEvent in run 2 -/
example : ∃ e ∈ sOK.skipped, e.off = 6 ∧ Covers sOK.acked e.ino (e.off, e.data) := by
  have h := no_false_skip cfgAB okOps sOK ok_run ok_noTruncate ok_atCrashes
  have hs : sOK.skipped = [⟨1, [97], 6, 0, [97, 10]⟩] := by decide
  exact ⟨⟨1, [97], 6, 0, [97, 10]⟩, by rw [hs]; simp, rfl, h _ (by rw [hs]; simp)⟩

/-! #### a single-stream history (non-vacuity of `no_loss_single_stream`) -/

example : AllDelivered cfgAB sSS := by
  refine no_loss_single_stream cfgAB ssOps sSS ?_ (by unfold NoTruncate; decide) ?_ ?_
  · rw [run_eq_S ssOps skipInv_init]; simp [sSS]
  · refine atCrashes_of_crashStates ssOps skipInv_init ?_
    intro sc hsc
    have : crashStates cfgAB init ssOps = [sSSCrash] := rfl
    rw [this] at hsc; simp at hsc; subst hsc
    exact ss_single
  · refine ⟨by decide, by decide, ?_, ?_⟩
    · intro i f hf
      have hfiles : sSS.files = upd (upd (fun _ => none) 1 (some ⟨0, []⟩)) 1 (some ⟨0, fileA⟩) := rfl
      rw [hfiles] at hf
      by_cases hi : i = 1
      · subst hi
        simp at hf; subst hf
        cases hj : sSS.jobs 1 with
        | none => have : (sSS.jobs 1).isSome = true := by decide
                  rw [hj] at this; cases this
        | some j =>
          refine ⟨j, rfl, ?_⟩
          have : (sSS.jobs 1).map (·.w.curOffset) = some 4 := by decide
          rw [hj] at this; simpa [fileA] using this
      · simp [upd, hi] at hf
    · have : sSS.inflight = [x2'] := by decide
      rw [this]; intro e he; simp at he; subst he; decide

/-! ### maintenance releases a job only after everything on its descriptor was read -/

/-- **release rule** (`maintenanceJob`): in every history covered by `no_loss_partial`, whenever the
    release of a job is enabled — maintenance found `stat.Size() == offset` on the descriptor it holds
    and nothing of the source is in flight — every admitted complete line of the file has been acked.
    (With unread bytes the op is not enabled: the code resumes the job instead, whatever file its name
    leads to by now. A file renamed out of the watched pattern or unlinked right after an append is
    therefore still read to its end.) -/
theorem release_after_all_read (cfg : Cfg) (ops : List Op) (s s' : State) (i : Nat) (f : FileSt)
    (hrun : TS.run (step? cfg) init ops = some s) (hnt : NoTruncate ops)
    (hcov : AtCrashes cfg (CrashCovered cfg) init ops)
    (hf : s.files i = some f) (hstep : step? cfg s (.forget i) = some s') :
    ∀ l ∈ lines f, cfg.accept l.2 = true → Covers s.acked i l := by
  have hinv := inv_run (inv_init cfg) hnt hcov hrun
  simp only [step?] at hstep
  split at hstep
  · split at hstep
    · rename_i f' j hf' hj
      rw [hf] at hf'; cases hf'
      split at hstep
      · rename_i hc
        intro l hl hacc
        exact coversG_all.1 (forget_all_acked hinv hf hj hc.1 hc.2 l hl hacc)
      · cases hstep
    · cases hstep
  · cases hstep

/-- non-vacuity: the release is enabled once a1 a2 are read, acked and committed … -/
example : (step? cfgAB sRel (.forget 1)).isSome = true ∧ Covers sRel.acked 1 (4, [97, 10]) := by
  have hrun : TS.run (step? cfgAB) init relOps = some sRel := by
    rw [run_eq_S relOps skipInv_init]; simp [sRel]
  have hs : (step? cfgAB sRel (.forget 1)).isSome = true := by decide
  obtain ⟨s', hs'⟩ := Option.isSome_iff_exists.1 hs
  refine ⟨hs, release_after_all_read cfgAB relOps sRel s' 1 ⟨0, fileA⟩ hrun (by unfold NoTruncate; decide)
    (atCrashes_of_crashStates relOps skipInv_init (by
      intro sc hsc
      have : crashStates cfgAB init relOps = [] := rfl
      rw [this] at hsc; cases hsc)) rfl hs' (4, [97, 10]) (by decide) rfl⟩

/-- … and it is not enabled while an appended line is unread (the job is resumed instead) -/
example : step? cfgAB sRel2 (.forget 1) = none := by decide

/-! ### a file discovered after the start phase is read from its beginning -/

/-- **late discovery ignores the loaded offsets** (`addJob`: "load saved offsets only on start phase"):
    once the start-up scan is over, a new job starts at offset 0 with no stream offsets, whatever the
    table of offsets loaded at start (never pruned during the run) holds for that inode number — e.g. the
    stale entry of a deleted file whose inode number the new file has got -/
theorem late_discovery_from_zero (s : State) (i : Nat) (hs : s.scanning = false) :
    (addJob s i).jobs i = some ⟨⟨0, [], false⟩, [], 0, 0⟩ := by
  simp [addJob, hs]

/-- … and its first turn over the whole file puts every admitted complete line in flight: none is
    skipped, whatever `loaded` says -/
theorem late_file_read_from_start (cfg : Cfg) (s : State) (i : Nat) (f : FileSt)
    (hr : running s = true) (hs : s.scanning = false) (hf : s.files i = some f) (hj : s.jobs i = none) :
    ∃ s1 s2, step? cfg s (.discover i) = some s1 ∧ step? cfg s1 (.readTurn i [f.content]) = some s2 ∧
      ∀ l ∈ lines f, cfg.accept l.2 = true → Covers s2.inflight i l := by
  have hj1 : (addJob s i).jobs i = some ⟨⟨0, [], false⟩, [], 0, 0⟩ := late_discovery_from_zero s i hs
  have hf1 : (addJob s i).files i = some f := by simp [addJob, hs, hf]
  have hr1 : running (addJob s i) = true := by simpa [addJob, hs, running] using hr
  have hfold := fold_inOne_noOffsets (cfg := cfg) (i := i) (specLines f.content 0 []) (addJob s i)
    ⟨_, hj1, rfl⟩
  obtain ⟨⟨j', hj', _⟩, _, hcov⟩ := hfold
  refine ⟨addJob s i, readTurn cfg (addJob s i) i f ⟨⟨0, [], false⟩, [], 0, 0⟩ [f.content],
    by simp [step?, hr, hf, hj], ?_, ?_⟩
  · simp only [step?, hr1, hf1, hj1, ↓reduceIte]
    simp
  · intro l hl hacc
    unfold readTurn
    rw [turn_lit _ rfl]
    simp only [List.flatten_cons, List.flatten_nil, List.append_nil]
    simp only [hj']
    exact hcov l hl hacc

/-- non-vacuity: `loaded` holds a stale `{a: 4}` for inode 1, the new file `a\na\na\n` arrives late -/
example : ∃ s1 s2, step? cfgAB sLate (.discover 1) = some s1 ∧
    step? cfgAB s1 (.readTurn 1 [[97, 10, 97, 10, 97, 10]]) = some s2 ∧ Covers s2.inflight 1 (2, [97, 10]) := by
  obtain ⟨s1, s2, h1, h2, h3⟩ := late_file_read_from_start cfgAB sLate 1 ⟨0, [97, 10, 97, 10, 97, 10]⟩
    (by decide) (by decide) rfl (by
      cases h : sLate.jobs 1 with
      | none => rfl
      | some j => have : (sLate.jobs 1).isSome = false := by decide
                  rw [h] at this; cases this)
  exact ⟨s1, s2, h1, h2, h3 (2, [97, 10]) (by decide) rfl⟩

/-! ### the full statement is false of the unchanged code -/

/-- **counterexample to `NoLoss`**: with several streams in one file the saved offsets list only the
    streams that have committed; the restart seeks to their minimum and the un-acked line b2 of the
    unlisted stream is never read again (witness: corpus/C03/unlisted-stream.case) -/
theorem no_loss_counterexample : ¬ NoLoss := by
  intro h
  have hrun : TS.run (step? cfgAB) init badOps = some sBad := by
    rw [run_eq_S badOps skipInv_init]; simp [sBad]
  have hidle : Idle sBad := by
    refine ⟨by decide, by decide, ?_, ?_⟩
    · intro i f hf
      have hfiles : sBad.files = upd (upd (fun _ => none) 1 (some ⟨0, []⟩)) 1 (some ⟨0, fileBad⟩) := rfl
      rw [hfiles] at hf
      by_cases hi : i = 1
      · subst hi
        simp at hf; subst hf
        cases hj : sBad.jobs 1 with
        | none => have : (sBad.jobs 1).isSome = true := by decide
                  rw [hj] at this; cases this
        | some j =>
          refine ⟨j, rfl, ?_⟩
          have : (sBad.jobs 1).map (·.w.curOffset) = some 6 := by decide
          rw [hj] at this; simpa [fileBad] using this
      · simp [upd, hi] at hf
    · have : sBad.inflight = [] := by decide
      rw [this]; intro e he; cases he
  obtain ⟨e, he, _, ho, _⟩ := h cfgAB badOps sBad hrun (by unfold NoTruncate; decide) hidle 1 ⟨0, fileBad⟩ (4, [98, 10]) rfl (by decide) rfl
  have : sBad.acked ++ sBad.delivered = [ea1, ea3] := by decide
  rw [this] at he
  simp at he
  rcases he with rfl | rfl <;> simp [ea1, ea3] at ho

/-- the witness violates exactly the hypothesis of `no_loss_partial`: at the crash, stream b of the
    un-acked line b2 has no entry in the saved offsets `{a: 6}` -/
example : ∃ sc ∈ crashStates cfgAB init badOps, ¬ CrashCovered cfgAB sc := by
  refine ⟨sBadCrash, ?_, ?_⟩
  · have : crashStates cfgAB init badOps = [sBadCrash] := rfl
    rw [this]; simp
  · intro hc
    have := hc 1 ⟨0, fileBad⟩ [([97], 6)] (4, [98, 10]) rfl rfl (by decide) rfl
      (by
        rintro ⟨e, he, _, ho, _⟩
        have ha : sBadCrash.acked = [ea1, ea3] := by decide
        rw [ha] at he; simp at he
        rcases he with rfl | rfl <;> simp [ea1, ea3] at ho)
    simp [cfgAB, oget] at this

/-! ### truncation -/

/-- a commit of an event read before the truncation was detected (`SeqID ≤ ignoreEventsLE`) moves
    no offset, neither in memory nor in the offsets file -/
theorem stale_commit_ignored (s : State) (e : Ev) (j : JobSt)
    (hj : s.jobs e.ino = some j) (hs : e.seq ≤ j.ignoreLE) :
    (commit s e).jobs = s.jobs ∧ (commit s e).persisted = s.persisted := by
  simp [commit, hj, hs]

example : (commit { init with jobs := upd init.jobs 1 (some ⟨⟨0, [], false⟩, [([97], 0)], 5, 5⟩) }
            ⟨1, [97], 200, 3, []⟩).jobs 1
          = some ⟨⟨0, [], false⟩, [([97], 0)], 5, 5⟩ := by
  simp [commit, upd, init]

/-- **truncation, restart from 0** (single-stream pipelines): in every reachable state — any
    history, earlier truncations, kills and restarts included — in which a file has become shorter than
    its job's offset, the next worker turn (`processEOF`) is enabled, puts the job back to offset 0 with
    an empty pending line, zeroes its stream offsets and sets `ignoreEventsLE = lastEventSeq`; and from
    then on the commit of *every* event of that source still in flight (all were read before the
    truncation) moves no offset. -/
theorem truncation_restart (cfg : Cfg) (st0 : Stream) (hst : ∀ d, cfg.streamOf d = st0)
    (ops : List Op) (s : State) (hrun : TS.run (step? cfg) init ops = some s)
    (i : Nat) (f : FileSt) (j : JobSt) (hr : running s = true)
    (hf : s.files i = some f) (hj : s.jobs i = some j) (htr : f.content.length < j.w.curOffset) :
    step? cfg s (.readTurn i []) = some (afterDetection s i j) ∧
    (afterDetection s i j).jobs i =
      some ⟨⟨0, [], false⟩, j.offsets.map (fun p => (p.1, 0)), j.lastSeq, j.lastSeq⟩ ∧
    ∀ e ∈ (afterDetection s i j).inflight, e.ino = i →
      (commit (afterDetection s i j) e).jobs = (afterDetection s i j).jobs ∧
      (commit (afterDetection s i j) e).persisted = (afterDetection s i j).persisted := by
  obtain ⟨hseq, hskip⟩ := seqInv_run hst ops skipInv_init (seqInv_init st0) hrun
  refine ⟨detect_truncation hr hf hj (hskip i j hj) htr, by simp [afterDetection], ?_⟩
  intro e he hei
  have hle : e.seq ≤ j.lastSeq := hseq.infl e he j (by rw [hei]; exact hj)
  exact stale_commit_ignored (afterDetection s i j) e
    ⟨⟨0, [], false⟩, j.offsets.map (fun p => (p.1, 0)), j.lastSeq, j.lastSeq⟩ (by simp [afterDetection, hei]) hle

/-! #### non-vacuity: a1 a2 read and handed out, the file is truncated, both events are still in flight -/

example : ∃ j, sTr.jobs 1 = some j ∧ j.w.curOffset = 4 ∧ sTr.inflight = [x1, x2] ∧
    (commit (afterDetection sTr 1 j) x2).jobs = (afterDetection sTr 1 j).jobs := by
  cases hj : sTr.jobs 1 with
  | none => have : (sTr.jobs 1).isSome = true := by decide
            rw [hj] at this; cases this
  | some j =>
    have hc : (sTr.jobs 1).map (·.w.curOffset) = some 4 := by decide
    rw [hj] at hc
    refine ⟨j, rfl, by simpa using hc, by decide, ?_⟩
    have hrun : TS.run (step? cfgA) init trOps = some sTr := by
      rw [run_eq_S trOps skipInv_init]; simp [sTr]
    have := truncation_restart cfgA [97] (fun _ => rfl) trOps sTr hrun 1 ⟨0, []⟩ j (by decide) rfl hj
      (by simp at hc; simp [hc])
    exact (this.2.2 x2 (by simp [afterDetection]; decide) rfl).1

/-- **truncation, delivery of everything written afterwards** (single-stream pipelines): take any
    history without truncation whose crashes are covered (`ops1`), then a truncation of file `i0`
    while its job has read something, the detecting worker turn, then any continuation of that run
    (`ops2`: no kill, no further truncation). In every idle state every admitted complete line of the
    file — all of it was written after the truncation — is acked or has been handed to the output as an
    event read *after* the detection (`SeqID > lastEventSeq` at the detection), whatever happened to
    the events that were in flight at the truncation. -/
theorem truncation_delivery (cfg : Cfg) (st0 : Stream) (hst : ∀ d, cfg.streamOf d = st0)
    (ops1 ops2 : List Op) (i0 : Nat) (s0 s' : State) (f : FileSt) (j : JobSt)
    (hrun1 : TS.run (step? cfg) init ops1 = some s0) (hnt1 : NoTruncate ops1)
    (hcov1 : AtCrashes cfg (CrashCovered cfg) init ops1)
    (hr : running s0 = true) (hf : s0.files i0 = some f) (hj : s0.jobs i0 = some j) (hpos : 0 < j.w.curOffset)
    (hlive : ∀ op ∈ ops2, isLive op = true)
    (hrun : TS.run (step? cfg) init (ops1 ++ [.truncate i0, .readTurn i0 []] ++ ops2) = some s')
    (hidle : Idle s') :
    ∀ f' l, s'.files i0 = some f' → l ∈ lines f' → cfg.accept l.2 = true →
      ∃ e ∈ s'.acked ++ s'.delivered, j.lastSeq < e.seq ∧ e.ino = i0 ∧ e.off = l.1 ∧ e.data = l.2 := by
  have hinv0 := inv_run (inv_init cfg) hnt1 hcov1 hrun1
  obtain ⟨hseq, hskip⟩ := seqInv_run hst ops1 skipInv_init (seqInv_init st0) hrun1
  have hinv2 := inv_after_detection hst (running_up hr) hf hj hseq hinv0
  rw [List.append_assoc, TS.run_append, hrun1, Option.bind_some, TS.run_append,
    run_truncate_detect hr hf hj (hskip i0 j hj) hpos, Option.bind_some] at hrun
  have hinv' := inv_run_live (goodUp_after i0 j.lastSeq) ops2 hinv2 hlive hrun
  intro f' l hf' hl hacc
  obtain ⟨e, he, hg, hi, h3⟩ := inv_idle_covered hinv' hidle i0 f' l hf' hl hacc
  exact ⟨e, he, hg hi, hi, h3⟩

/-- non-vacuity: a1 a2 in flight at the truncation; afterwards the stale a1 is acked and committed
    (ignored), a new line is written at offset 2 — where a1 was — and is delivered as event SeqID 3 -/
example : ∃ e ∈ sTrAll.acked ++ sTrAll.delivered, 2 < e.seq ∧ e.ino = 1 ∧ e.off = 2 ∧ e.data = [97, 10] := by
  cases hj : sTrPre.jobs 1 with
  | none => have : (sTrPre.jobs 1).isSome = true := by decide
            rw [hj] at this; cases this
  | some j =>
    have hc : (sTrPre.jobs 1).map (fun j => (j.w.curOffset, j.lastSeq)) = some (4, 2) := by decide
    rw [hj] at hc; simp at hc
    have hrun1 : TS.run (step? cfgA) init trPre = some sTrPre := by
      rw [run_eq_S trPre skipInv_init]; simp [sTrPre]
    have hrun : TS.run (step? cfgA) init (trPre ++ [.truncate 1, .readTurn 1 []] ++ trPost) = some sTrAll := by
      rw [run_eq_S _ skipInv_init]; simp [sTrAll]
    have hidle : Idle sTrAll := by
      refine ⟨by decide, by decide, ?_, ?_⟩
      · intro i f hf
        have hfiles : sTrAll.files =
            upd (upd (upd (upd (fun _ => none) 1 (some ⟨0, []⟩)) 1 (some ⟨0, fileA⟩)) 1 (some ⟨0, []⟩)) 1
              (some ⟨0, [97, 10]⟩) := rfl
        rw [hfiles] at hf
        by_cases hi : i = 1
        · subst hi
          simp at hf; subst hf
          cases hj' : sTrAll.jobs 1 with
          | none => have : (sTrAll.jobs 1).isSome = true := by decide
                    rw [hj'] at this; cases this
          | some j' =>
            refine ⟨j', rfl, ?_⟩
            have : (sTrAll.jobs 1).map (·.w.curOffset) = some 2 := by decide
            rw [hj'] at this; simpa using this
        · simp [upd, hi] at hf
      · have : sTrAll.inflight = [x2, z1] := by decide
        rw [this]; intro e he; simp at he; rcases he with rfl | rfl <;> decide
    have := truncation_delivery cfgA [97] (fun _ => rfl) trPre trPost 1 sTrPre sTrAll ⟨0, fileA⟩ j
      hrun1 (by unfold NoTruncate; decide)
      (atCrashes_of_crashStates trPre skipInv_init (by
        intro sc hsc
        have : crashStates cfgA init trPre = [] := rfl
        rw [this] at hsc; cases hsc))
      (by decide) rfl hj (by omega) (by decide) hrun hidle ⟨0, [97, 10]⟩ (2, [97, 10]) rfl (by decide) rfl
    rw [hc.2] at this
    exact this

/-- the same statement without the single-stream hypothesis -/
def TruncationRestartAnyStreams : Prop :=
  ∀ (cfg : Cfg) (ops : List Op) (s : State), TS.run (step? cfg) init ops = some s →
    ∀ (i : Nat) (f : FileSt) (j : JobSt), running s = true → s.files i = some f → s.jobs i = some j →
      f.content.length < j.w.curOffset →
      ∀ e ∈ (afterDetection s i j).inflight, e.ino = i →
        (commit (afterDetection s i j) e).jobs = (afterDetection s i j).jobs

/-- **counterexample with two streams** (the second recorded finding): lines a1 a2 b3 in flight at the
    truncation; the last read event is b3 with SeqID 1 *in stream b*, so `ignoreEventsLE = 1`; the
    commit of a2 (SeqID 2 in stream a) is not ignored and stores its pre-truncation offset 4
    (witness: corpus/C03/trunc-multi-stream.case) -/
theorem truncation_multistream_counterexample : ¬ TruncationRestartAnyStreams := by
  intro h
  have hrun : TS.run (step? cfgAB) init trBadOps = some sTrBad := by
    rw [run_eq_S trBadOps skipInv_init]; simp [sTrBad]
  cases hj : sTrBad.jobs 1 with
  | none => have : (sTrBad.jobs 1).isSome = true := by decide
            rw [hj] at this; cases this
  | some j =>
    have hc : (sTrBad.jobs 1).map (fun j => (j.w.curOffset, j.lastSeq, j.offsets)) = some (6, 1, []) := by decide
    rw [hj] at hc
    simp at hc
    obtain ⟨hc1, hc2, hc3⟩ := hc
    have hin : y2 ∈ (afterDetection sTrBad 1 j).inflight := by
      have : sTrBad.inflight = [y1, y2, y3] := by decide
      simp [afterDetection, this]
    have := h cfgAB trBadOps sTrBad hrun 1 ⟨0, []⟩ j (by decide) rfl hj (by simp [hc1]) y2 hin rfl
    have h1 := congrFun this 1
    simp [commit, afterDetection, y2, hc2, hc3, oget, oset] at h1

end FileD.PropsC03
