/-
  C03 — File input loses no line across kill and restart.
  Property theorems only (helper lemmas: FileD/Lemmas/FileRestart.lean).
-/
import FileD.Model.FileRestart
import FileD.Spec.C03
namespace FileD.PropsC03
open FileD FileD.FileRestart FileD.SpecC03

/-- a commit of an event read before the truncation was detected (`SeqID ≤ ignoreEventsLE`) moves no offset -/
theorem stale_commit_ignored (s : State) (e : Ev) (j : JobSt)
    (hj : s.jobs e.ino = some j) (hs : e.seq ≤ j.ignoreLE) :
    (commit s e).jobs = s.jobs ∧ (commit s e).persisted = s.persisted := by
  simp [commit, hj, hs]

example : (commit { init with jobs := upd init.jobs 1 (some ⟨⟨0, [], false⟩, [([97], 0)], 5, 5⟩) }
            ⟨1, [97], 200, 3, []⟩).jobs 1
          = some ⟨⟨0, [], false⟩, [([97], 0)], 5, 5⟩ := by
  simp [commit, upd, init]

end FileD.PropsC03
