/-
  C02 — Per-stream commits arrive in read order, once per event; every accepted event ends in
  exactly one commit notification or one silent drop. Property theorems only.
-/
import FileD.Lemmas.Core
import FileD.Lemmas.StreamProc
import FileD.Lemmas.Sys
import FileD.Lemmas.Proc
import FileD.Lemmas.ProcN
namespace FileD.PropsC02
open FileD.Core

/-- commit notifications of one stream arrive in read order -/
def InOrder (commits : List Ev) : Prop :=
  ∀ pre a mid b post, commits = pre ++ a :: (mid ++ b :: post) → a.st = b.st → a.seq < b.seq

/-- **C02 order clause (full statement)** -/
def CommitsInReadOrder : Prop :=
  ∀ (hasDQ : Bool) (ops : List Op) (s : State), run (init hasDQ) ops = some s → InOrder s.commits

theorem commits_prefix_added {s : State} (inv : CInv s) :
    ∃ rest, s.main.added = s.commits ++ rest := by
  refine ⟨s.main.committing ++ s.main.full.flatMap (·.evs) ++ s.main.cur, ?_⟩
  rw [← inv.layout, ← inv.loop]; simp [List.append_assoc]

/-- **proved part**: without a dead queue, for every interleaving and configuration, the commit
    notifications of any (source, stream) are strictly increasing in read order. -/
theorem in_order_of_cinv {s : State} (inv : CInv s) : InOrder s.commits := by
  obtain ⟨rest, hrest⟩ := commits_prefix_added inv
  intro pre a mid b post hc hst
  have hadd : s.main.added = pre ++ a :: (mid ++ b :: (post ++ rest)) := by rw [hrest, hc]; simp
  have hnd := inv.nodupA
  have ha : a ∈ s.main.added := by rw [hadd]; simp
  have hb : b ∈ s.main.added := by rw [hadd]; simp
  rcases Nat.lt_trichotomy a.seq b.seq with h | h | h
  · exact h
  · -- same stream and sequence number: the same event twice
    have := inv.uniq a (inv.addedAcc a ha) b (inv.addedAcc b hb) hst h
    subst this
    rw [hadd] at hnd
    have := List.nodup_append.1 hnd
    simp at this
  · -- b was read before a: it had to be handed over (or dropped) before a
    have hadd' : s.main.added = (pre ++ a :: mid) ++ b :: (post ++ rest) := by rw [hadd]; simp
    rcases inv.ordered pre a (mid ++ b :: (post ++ rest)) hadd b (inv.addedAcc b hb) hst.symm h with hd | hp
    · exact absurd hd (inv.disjoint b hb)
    · rw [hadd'] at hnd
      have := (List.nodup_append.1 hnd).2.2 b (List.mem_append_left _ hp) b (List.mem_cons_self ..)
      exact absurd rfl this

theorem commits_in_read_order_partial (ops : List Op) (s : State) (hr : run (init false) ops = some s) :
    InOrder s.commits := in_order_of_cinv (cinv_run cinv_init hr)

/-- **C02 order clause for the composed system** (Model/Sys.lean: no hand-over guard on `add`;
    events reach the batcher when the stream layer's `out` fires): commit notifications of every
    stream arrive in read order, for every interleaving of both layers. -/
theorem sys_commits_in_read_order (ops : List Sys.Op) (s : Sys.State)
    (hr : Sys.run (Sys.init false) ops = some s) : InOrder s.core.commits :=
  in_order_of_cinv (Sys.sinv_run Sys.sinv_init hr).cinv

/-- in the composed system M1's hand-over guard is never what blocks a step: whenever the stream
    layer enables `out e.seq` for an accepted event, the guarded `add` is enabled too -/
theorem sys_add_guard_redundant (ops : List Sys.Op) (s : Sys.State)
    (hr : Sys.run (Sys.init false) ops = some s) (e : Ev) (ss : StreamProc.SS)
    (hacc : e ∈ s.core.accepted) (hout : StreamProc.step? (s.streams e.st) (.out e.seq) = some ss) :
    Core.step? s.core (.add false e) = some (Sys.addU s.core e) :=
  Sys.add_guard_holds (Sys.sinv_run Sys.sinv_init hr) hacc hout

/-- offsets: if the input hands out offsets that grow along each stream, commit notifications
    of a stream carry strictly increasing offsets -/
theorem commit_offsets_increase (ops : List Op) (s : State) (hr : run (init false) ops = some s)
    (hoff : ∀ a ∈ s.accepted, ∀ b ∈ s.accepted, a.st = b.st → a.seq < b.seq → a.off < b.off) :
    ∀ pre a mid b post, s.commits = pre ++ a :: (mid ++ b :: post) → a.st = b.st → a.off < b.off := by
  have inv := cinv_run cinv_init hr
  intro pre a mid b post hc hst
  have hlt := commits_in_read_order_partial ops s hr pre a mid b post hc hst
  have hsub : ∀ x ∈ s.commits, x ∈ s.accepted := by
    intro x hx
    obtain ⟨rest, hrest⟩ := commits_prefix_added inv
    exact inv.addedAcc x (by rw [hrest]; exact List.mem_append_left _ hx)
  exact hoff a (hsub a (by rw [hc]; simp)) b (hsub b (by rw [hc]; simp)) hst hlt

/-- **once per event**: no event is committed twice, dropped twice, or both -/
theorem no_double_finish (ops : List Op) (s : State) (hr : run (init false) ops = some s) :
    (s.commits ++ s.dropped).Nodup := by
  have inv := cinv_run cinv_init hr
  obtain ⟨rest, hrest⟩ := commits_prefix_added inv
  have hnc : s.commits.Nodup := by
    have := inv.nodupA; rw [hrest] at this; exact (List.nodup_append.1 this).1
  refine List.nodup_append.2 ⟨hnc, inv.nodupD, ?_⟩
  intro a ha b hb hab
  subst hab
  exact inv.disjoint a (by rw [hrest]; exact List.mem_append_left _ ha) hb

/-- the pipeline is idle: nothing in a batch, no commit loop running, and the processors hold
    nothing (every accepted event was handed to the output or dropped) -/
def Idle (s : State) : Prop :=
  s.main.cur = [] ∧ s.main.full = [] ∧ s.main.committing = [] ∧
  ∀ e ∈ s.accepted, e ∈ s.main.added ∨ e ∈ s.dropped

/-- **conservation**: once idle, every accepted event has ended in exactly one of the two ways
    and nothing else was ever committed or dropped -/
theorem conservation (ops : List Op) (s : State) (hr : run (init false) ops = some s) (hi : Idle s) :
    (∀ e, e ∈ s.accepted ↔ (e ∈ s.commits ∨ e ∈ s.dropped)) ∧ (s.commits ++ s.dropped).Nodup ∧ s.accepted.Nodup := by
  have inv := cinv_run cinv_init hr
  obtain ⟨hcur, hfull, hcm, hall⟩ := hi
  have heq : s.main.added = s.commits := by
    rw [← inv.layout, ← inv.loop, hcur, hfull, hcm]; simp
  refine ⟨fun e => ⟨fun he => ?_, fun he => ?_⟩, no_double_finish ops s hr, inv.nodupAcc⟩
  · rcases hall e he with h | h
    · exact Or.inl (heq ▸ h)
    · exact Or.inr h
  · rcases he with h | h
    · exact inv.addedAcc e (heq ▸ h)
    · exact inv.dropAcc e h

/-! non-vacuity -/
def demoOps : List Op :=
  [.accept ⟨0, 1, 10⟩, .accept ⟨0, 2, 20⟩, .add false ⟨0, 1, 10⟩, .drop ⟨0, 2, 20⟩, .accept ⟨0, 3, 30⟩,
   .add false ⟨0, 3, 30⟩, .sealB false 0, .sendOk false 0 [⟨0, 1, 10⟩, ⟨0, 3, 30⟩], .bcommit false 0,
   .commit ⟨0, 1, 10⟩, .commit ⟨0, 3, 30⟩]

example : (run (init false) demoOps).map (fun s => (s.commits, s.dropped)) =
    some ([⟨0, 1, 10⟩, ⟨0, 3, 30⟩], [⟨0, 2, 20⟩]) := by decide

/-- the guard of `add` refuses handing over 30 while 20 is neither handed over nor dropped -/
example : run (init false) [.accept ⟨0, 1, 10⟩, .accept ⟨0, 2, 20⟩, .accept ⟨0, 3, 30⟩,
    .add false ⟨0, 1, 10⟩, .add false ⟨0, 3, 30⟩] = none := by decide


/-! ### the stream / processor layer (M2) establishes M1's hand-over guard -/

/-- **events of a stream are handed to the output in read order**: in every run of the
    stream/processor model (any interleaving of put / charge / pop / attach / get / leave /
    detach / commit / time-out with the owner's hold / drop / propagate / out steps), when an
    event is handed to the output every earlier event of the stream was handed over before it
    or was dropped. This is exactly the guard of `add` in M1. -/
theorem stream_hands_over_in_order (ops : List StreamProc.Op) (s : StreamProc.SS)
    (hr : StreamProc.run {} ops = some s) :
    ∀ pre q post, s.outd = pre ++ q :: post → ∀ q', 1 ≤ q' → q' < q → q' ∈ pre ∨ q' ∈ s.dropped :=
  (StreamProc.pinv_run StreamProc.pinv_init hr).ordered

/-- nothing is lost inside the stream layer: every sequence number handed out by `put` is
    handed over, dropped, or still pending (queued, in hand, held or re-injected) -/
theorem stream_conserves (ops : List StreamProc.Op) (s : StreamProc.SS)
    (hr : StreamProc.run {} ops = some s) :
    ∀ q, 1 ≤ q → q ≤ s.nextSeq → q ∈ s.outd ∨ q ∈ s.dropped ∨ q ∈ StreamProc.pending s :=
  (StreamProc.pinv_run StreamProc.pinv_init hr).cover

/-- non-vacuity: a join-like run — 1 held, 2 collapsed, 3 arrives: 1 is re-injected and goes out, then 3 -/
example : (StreamProc.run {} [.put 1, .charge, .put 2, .pop, .attach, .get 1, .hold 1, .commit 1, .get 2,
    .drop 2, .commit 2, .put 3, .get 3, .propagate 1, .out 1, .out 3, .leave]).map (fun s => (s.outd, s.dropped)) =
    some ([1, 3], [2]) := by decide

/-- the nested-Propagate trace of the known finding is NOT a run of M2: after the re-injected
    event 2 is collapsed downstream, the real processor takes event 5 while 4 is still in hand -/
example : StreamProc.run {} [.put 1, .charge, .put 2, .put 3, .put 4, .put 5, .pop, .attach, .get 1, .hold 1,
    .commit 1, .get 2, .hold 2, .commit 2, .get 3, .drop 3, .commit 3, .get 4, .propagate 2, .drop 2, .get 5] = none := by
  decide


/-! ### the file input's commit guard (plugin/input/file/provider.go: jobProvider.commit) -/

/-- `jobProvider.commit` for one source: per-stream offsets; `none` is the
    `Panicf("offset corruption: committing=%d, current=%d …")` branch (`value >= event.Offset`) -/
def fileCommit (offs : List (Nat × Nat)) (e : Ev) : Option (List (Nat × Nat)) :=
  let cur := ((offs.find? (·.1 == e.st)).map (·.2)).getD 0
  if cur ≥ e.off then none else some ((e.st, e.off) :: offs.filter (·.1 != e.st))

def fileCommits : List (Nat × Nat) → List Ev → Option (List (Nat × Nat))
  | offs, [] => some offs
  | offs, e :: es => (fileCommit offs e).bind (fileCommits · es)

/-- replacing the entry of key `k` does not change what is found under another key -/
theorem find_other (offs : List (Nat × Nat)) (k v k' : Nat) (h : k ≠ k') :
    ((k, v) :: offs.filter (·.1 != k)).find? (·.1 == k') = offs.find? (·.1 == k') := by
  have hk : (k == k') = false := by simp [h]
  simp only [List.find?, hk]
  induction offs with
  | nil => simp
  | cons o os ih =>
    simp only [List.filter]
    by_cases ho : o.1 = k
    · have h1 : (o.1 != k) = false := by simp [ho]
      have h2 : (o.1 == k') = false := by simp [ho, h]
      simp only [h1, List.find?, h2]; exact ih
    · have h1 : (o.1 != k) = true := by simp [ho]
      simp only [h1, List.find?]
      by_cases hox : o.1 = k'
      · simp [hox]
      · have h2 : (o.1 == k') = false := by simp [hox]
        simp only [h2]; exact ih

/-- the stored offset of a stream is the offset of the last committed event of that stream -/
theorem fileCommits_never_panics (cs : List Ev) (offs : List (Nat × Nat))
    (hpos : ∀ e ∈ cs, 0 < e.off)
    (hfirst : ∀ e ∈ cs, ((offs.find? (·.1 == e.st)).map (·.2)).getD 0 < e.off)
    (hmono : ∀ pre a mid b post, cs = pre ++ a :: (mid ++ b :: post) → a.st = b.st → a.off < b.off) :
    (fileCommits offs cs).isSome = true := by
  induction cs generalizing offs with
  | nil => simp [fileCommits]
  | cons e es ih =>
    have h1 := hfirst e (by simp)
    have hc : fileCommit offs e = some ((e.st, e.off) :: offs.filter (·.1 != e.st)) := by
      simp only [fileCommit]
      split
      · omega
      · rfl
    simp only [fileCommits, hc, Option.bind_some]
    apply ih
    · intro x hx; exact hpos x (List.mem_cons_of_mem _ hx)
    · intro x hx
      by_cases hst : x.st = e.st
      · -- same stream: the stored offset is e.off, and e precedes x
        obtain ⟨mid, post, hsp⟩ := List.append_of_mem hx
        have := hmono [] e mid x post (by simp [hsp]) hst.symm
        simp [List.find?, hst, this]
      · -- other stream: its entry is untouched
        have h2 := hfirst x (List.mem_cons_of_mem _ hx)
        have hf := find_other offs e.st e.off x.st (fun h => hst h.symm)
        rw [hf]; exact h2
    · intro pre a mid b post hsp hst
      exact hmono (e :: pre) a mid b post (by simp [hsp]) hst

/-- **the file input never hits "offset corruption"** on the commit notifications of the composed
    system (no dead queue), provided the input hands out positive offsets that grow along each
    stream — what the file reader does (C06: the offset just after each line's newline). -/
theorem file_commit_never_panics (ops : List Sys.Op) (s : Sys.State)
    (hr : Sys.run (Sys.init false) ops = some s)
    (hpos : ∀ e ∈ s.core.accepted, 0 < e.off)
    (hoff : ∀ a ∈ s.core.accepted, ∀ b ∈ s.core.accepted, a.st = b.st → a.seq < b.seq → a.off < b.off) :
    (fileCommits [] s.core.commits).isSome = true := by
  have inv := (Sys.sinv_run Sys.sinv_init hr).cinv
  have hsub : ∀ x ∈ s.core.commits, x ∈ s.core.accepted := by
    intro x hx
    obtain ⟨rest, hrest⟩ := commits_prefix_added inv
    exact inv.addedAcc x (by rw [hrest]; exact List.mem_append_left _ hx)
  apply fileCommits_never_panics
  · intro e he; exact hpos e (hsub e he)
  · intro e he; simpa using hpos e (hsub e he)
  · intro pre a mid b post hc hst
    have hlt := in_order_of_cinv inv pre a mid b post hc hst
    exact hoff a (hsub a (by rw [hc]; simp)) b (hsub b (by rw [hc]; simp)) hst hlt

example : fileCommits [] [⟨0, 1, 10⟩, ⟨1, 1, 5⟩, ⟨0, 2, 20⟩] = some [(0, 20), (1, 5)] := by decide
/-- the dead-queue order 30, 40, 10, 20 of the known finding does panic -/
example : fileCommits [] [⟨0, 3, 30⟩, ⟨0, 4, 40⟩, ⟨0, 1, 10⟩, ⟨0, 2, 20⟩] = none := by decide

/-! ### dead queue: the order clause is false of the unchanged code -/
def dqWitness : List Op :=
  [.accept ⟨0, 1, 10⟩, .accept ⟨0, 2, 20⟩, .add false ⟨0, 1, 10⟩, .add false ⟨0, 2, 20⟩, .sealB false 0,
   .accept ⟨0, 3, 30⟩, .accept ⟨0, 4, 40⟩, .add false ⟨0, 3, 30⟩, .add false ⟨0, 4, 40⟩, .sealB false 1,
   .sendFail false 0 [⟨0, 1, 10⟩, ⟨0, 2, 20⟩], .giveUp false 0 [⟨0, 1, 10⟩, ⟨0, 2, 20⟩],
   .add true ⟨0, 1, 10⟩, .add true ⟨0, 2, 20⟩, .bcommit false 0,
   .sendOk false 1 [⟨0, 3, 30⟩, ⟨0, 4, 40⟩], .bcommit false 1, .commit ⟨0, 3, 30⟩, .commit ⟨0, 4, 40⟩,
   .sealB true 0, .sendOk true 0 [⟨0, 1, 10⟩, ⟨0, 2, 20⟩], .bcommit true 0, .commit ⟨0, 1, 10⟩, .commit ⟨0, 2, 20⟩]

theorem commits_in_read_order_counterexample_dq : ¬ CommitsInReadOrder := by
  intro h
  have hs : (run (init true) dqWitness).isSome = true := by decide
  obtain ⟨s, hrun⟩ := Option.isSome_iff_exists.1 hs
  have hc : s.commits = [⟨0, 3, 30⟩, ⟨0, 4, 40⟩, ⟨0, 1, 10⟩, ⟨0, 2, 20⟩] := by
    have : (run (init true) dqWitness).map (·.commits) = some [⟨0, 3, 30⟩, ⟨0, 4, 40⟩, ⟨0, 1, 10⟩, ⟨0, 2, 20⟩] := by decide
    rw [hrun] at this; simpa using this
  have := h true dqWitness s hrun [] ⟨0, 3, 30⟩ [⟨0, 4, 40⟩] ⟨0, 1, 10⟩ [⟨0, 2, 20⟩] (by rw [hc]; rfl) rfl
  simp at this

/-! ### the processor keeps the discipline M2 assumes (M3, Model/Proc.lean)

M2 and the composed system let the processor do anything its guards allow: take the next event
only when the one in hand is disposed of or held, re-inject only what is held, hand over only
the oldest event it has. `processor_obeys_discipline` shows that the control flow of
processor.go (dischargeStream / processEvent / doActions / Propagate / Spawn) with join-like and
split-like actions never leaves those guards when at most one action of the chain can hold
events and no plain action upstream of it breaks. (Before `fix: processor.Propagate` two holders
broke it — the nested-Propagate finding; the former counterexample run is kept below as an example
that is now accepted.) -/

/-- every operation sequence the processor emits is accepted by the discipline automaton -/
def ProcessorObeysDiscipline : Prop :=
  ∀ (acts : List Proc.Act) (ins : List Proc.Item) (fuel : Nat), Proc.Above 0 ins →
    ∃ d, Proc.drun {} (Proc.discharge fuel acts (Proc.PS.init ins)).1.toks = some d

/-- **proved part**: chains with at most one holder at position `h` (`h = acts.length`: none),
    no break upstream of it; every input sequence in read order with arbitrary time-outs and
    re-attachments; every call depth (`fuel`), i.e. every prefix of the run. -/
theorem processor_obeys_discipline_partial (acts : List Proc.Act) [Proc.NoCol acts] (h : Nat) (hch : Proc.Chain acts h)
    (ins : List Proc.Item) (hok : Proc.ItemsOK acts h ins) (hs : Proc.Above 0 ins) (fuel : Nat) :
    ∃ d, Proc.drun {} (Proc.discharge fuel acts (Proc.PS.init ins)).1.toks = some d := by
  cases hd : Proc.discharge fuel acts (Proc.PS.init ins) with
  | mk ps' r =>
    obtain ⟨extra, d', ht, hdr⟩ := Proc.discharge_sim acts h hch fuel (Proc.PS.init ins) ps' r 0
      ⟨rfl, rfl⟩ hs hok hd
    refine ⟨d', ?_⟩
    have : ps'.toks = extra := by simpa [Proc.PS.init] using ht
    simpa [this] using hdr

/-- non-vacuity of `NoCol`: a chain of plain, join-like and split-like actions -/
example : Proc.NoCol [.plain 0, .holder 0, .spawner, .holder 1] :=
  ⟨fun j i => by rcases j with _ | _ | _ | _ | j <;> simp⟩

/-- **proved part, any chain**: any number of holding actions anywhere in the chain (two joins,
    join behind join_template, …), plain and split-like actions in between, match conditions; the
    only hypothesis is that no *plain* action breaks an event (source fact: among the shipped
    plugins only split returns ActionBreak, and it is the spawner of the model). Every input
    sequence in read order with arbitrary time-outs and re-attachments, every call depth.
    Holds for the processor as repaired by `fix: processor.Propagate`; proof in
    `Lemmas/ProcN.lean`: holders further down the chain hold older events (`Shape`), an event that
    passes the whole chain leaves no holder busy (`PostN`), simulated step by step by `dstep?`. -/
theorem processor_obeys_discipline_any_chain (acts : List Proc.Act) [Proc.NoCol acts] (ins : List Proc.Item)
    (hnb : Proc.ItemsNoBrk ins) (hs : Proc.Above 0 ins) (fuel : Nat) :
    ∃ d, Proc.drun {} (Proc.discharge fuel acts (Proc.PS.init ins)).1.toks = some d := by
  cases hd : Proc.discharge fuel acts (Proc.PS.init ins) with
  | mk ps' r =>
    obtain ⟨extra, d', ht, hdr⟩ := Proc.dischargeN acts fuel (Proc.PS.init ins) ps' r 0
      (Proc.shape_init acts ins) rfl hs hnb hd
    refine ⟨d', ?_⟩
    have : ps'.toks = extra := by simpa [Proc.PS.init] using ht
    simpa [this] using hdr

/-- the discipline automaton is exactly the processor side of M2: every M2 step is one of its steps … -/
theorem m2_step_is_discipline_step {s s' : StreamProc.SS} {op : StreamProc.Op}
    (h : StreamProc.step? s op = some s') : Proc.dstep? (Proc.proj s) op = some (Proc.proj s') :=
  Proc.proj_step h

/-- … and what the processor does with an event it has (hold, drop, propagate, out) is enabled in
    M2 whenever the automaton enables it (these steps have no stream-side guard beyond `quiet`) -/
theorem m2_enables_disposal {s : StreamProc.SS} {op : StreamProc.Op} {d' : Proc.DS}
    (hq : StreamProc.quiet s = true)
    (hop : (∃ q, op = .hold q) ∨ (∃ q, op = .drop q) ∨ (∃ q, op = .propagate q) ∨ (∃ q, op = .out q))
    (h : Proc.dstep? (Proc.proj s) op = some d') :
    ∃ s', StreamProc.step? s op = some s' ∧ Proc.proj s' = d' := by
  rcases hop with ⟨q, rfl⟩ | ⟨q, rfl⟩ | ⟨q, rfl⟩ | ⟨q, rfl⟩
  · simp only [Proc.dstep?] at h
    by_cases hi : (Proc.proj s).inhand = some q
    · rw [if_pos hi] at h; cases h
      have hi' : s.inhand = some q := hi
      exact ⟨{ s with inhand := none, held := s.held ++ [q] }, by simp [StreamProc.step?, hq, hi'], rfl⟩
    · rw [if_neg hi] at h
      by_cases hp : q ∈ (Proc.proj s).propd
      · rw [if_pos hp] at h; cases h
        have hi' : ¬ s.inhand = some q := hi
        have hp' : q ∈ s.propd := hp
        exact ⟨{ s with propd := s.propd.erase q, held := s.held ++ [q] }, by simp [StreamProc.step?, hq, hi', hp'], rfl⟩
      · rw [if_neg hp] at h; cases h
  · simp only [Proc.dstep?] at h
    by_cases hi : (Proc.proj s).inhand = some q
    · rw [if_pos hi] at h; cases h
      have hi' : s.inhand = some q := hi
      exact ⟨{ s with inhand := none, dropped := s.dropped ++ [q] }, by simp [StreamProc.step?, hq, hi'], rfl⟩
    · rw [if_neg hi] at h
      by_cases hp : q ∈ (Proc.proj s).propd
      · rw [if_pos hp] at h; cases h
        have hi' : ¬ s.inhand = some q := hi
        have hp' : q ∈ s.propd := hp
        exact ⟨{ s with propd := s.propd.erase q, dropped := s.dropped ++ [q] }, by simp [StreamProc.step?, hq, hi', hp'], rfl⟩
      · rw [if_neg hp] at h; cases h
  · simp only [Proc.dstep?] at h
    by_cases hi : q ∈ (Proc.proj s).held
    · rw [if_pos hi] at h; cases h
      have hi' : q ∈ s.held := hi
      exact ⟨{ s with held := s.held.erase q, propd := q :: s.propd }, by simp [StreamProc.step?, hq, hi'], rfl⟩
    · rw [if_neg hi] at h; cases h
  · simp only [Proc.dstep?] at h
    by_cases hg : ∀ x ∈ (Proc.proj s).propd ++ (Proc.proj s).held ++ (Proc.proj s).inhand.toList, q ≤ x
    · rw [if_pos hg] at h
      by_cases hp : q ∈ (Proc.proj s).propd
      · rw [if_pos hp] at h; cases h
        have hg' : ∀ x ∈ s.propd ++ s.held ++ s.inhand.toList, q ≤ x := hg
        have hp' : q ∈ s.propd := hp
        exact ⟨{ s with propd := s.propd.erase q, outd := s.outd ++ [q] }, by simp only [StreamProc.step?, hq, true_and]; rw [if_pos hg', if_pos hp'], rfl⟩
      · rw [if_neg hp] at h
        by_cases hi : (Proc.proj s).inhand = some q
        · rw [if_pos hi] at h; cases h
          have hg' : ∀ x ∈ s.propd ++ s.held ++ s.inhand.toList, q ≤ x := hg
          have hp' : ¬ q ∈ s.propd := hp
          have hi' : s.inhand = some q := hi
          exact ⟨{ s with inhand := none, outd := s.outd ++ [q] }, by simp only [StreamProc.step?, hq, true_and]; rw [if_pos hg', if_neg hp', if_pos hi'], rfl⟩
        · rw [if_neg hi] at h; cases h
    · rw [if_neg hg] at h; cases h

/-- non-vacuity: a chain [plain, join, split] meets the hypotheses and its run holds, collapses,
    flushes on a time-out and spawns -/
example : Proc.Chain [.plain 0, .holder 0, .spawner] 1 :=
  ⟨Or.inl ⟨0, rfl⟩, by
    intro j g hj
    rcases j with _ | _ | _ | j <;> simp at hj ⊢⟩

example : (Proc.discharge 40 [.plain 0, .holder 0, .spawner] (Proc.PS.init
      [.ev { seq := 1, js := [.start] }, .ev { seq := 2, js := [.cont] }, .tmo,
       .ev { seq := 3, js := [.other], kids := 2 }, .gap])).1.toks =
    [.get 1, .hold 1, .get 2, .drop 2, .getTimeout, .propagate 1, .out 1, .get 3, .out 3, .leave] := by decide +kernel

/-- two joins in one chain: before `fix: processor.Propagate` the nested frame of the first
    join's flush waited for the stream's next event itself (the second join held the re-injected
    event), took event 5 while 4 was still in hand and handed 5 over first. With Propagate running
    the remaining actions once, the same input stays inside the discipline. -/
def twoHolders : List Proc.Act := [.holder 0, .holder 1]
def twoHoldersIns : List Proc.Item :=
  [.ev { seq := 1, js := [.other, .start] }, .ev { seq := 2, js := [.start, .cont] }, .ev { seq := 3, js := [.cont, .cont] },
   .ev { seq := 4, js := [.other, .other] }, .ev { seq := 5, js := [.other, .other] }]

example : (Proc.discharge 40 twoHolders (Proc.PS.init twoHoldersIns)).1.toks =
    [.get 1, .hold 1, .get 2, .hold 2, .get 3, .drop 3, .get 4, .propagate 2, .drop 2, .propagate 1, .out 1,
     .out 4, .get 5, .out 5] := by decide +kernel

example : (Proc.drun {} (Proc.discharge 40 twoHolders (Proc.PS.init twoHoldersIns)).1.toks).isSome = true := by
  decide +kernel

/-- the full statement is false for a reason no shipped plugin set exhibits: a plain action that
    *breaks* upstream of a busy holder sends its event past the held one (source fact: only split
    returns ActionBreak, and Spawn first flushes every busy action) -/
def breakUpstream : List Proc.Act := [.plain 0, .holder 0]
def breakUpstreamIns : List Proc.Item :=
  [.ev { seq := 1, js := [.start] }, .ev { seq := 2, vs := [.brk], js := [.cont] }]

theorem processor_discipline_counterexample_break_upstream : ¬ ProcessorObeysDiscipline := by
  intro h
  have hab : Proc.Above 0 breakUpstreamIns := by simp [Proc.Above, breakUpstreamIns]
  obtain ⟨d, hd⟩ := h breakUpstream breakUpstreamIns 40 hab
  have : Proc.drun {} (Proc.discharge 40 breakUpstream (Proc.PS.init breakUpstreamIns)).1.toks = none := by decide +kernel
  rw [this] at hd; cases hd

end FileD.PropsC02
