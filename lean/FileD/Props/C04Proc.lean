/-
  C04 — no stream stays blocked behind a multi-line action: the processor side (M3,
  Model/Proc.lean). Property theorems only; the stream side (a blocked stream gets a time-out
  event within event_timeout) is in Props/C04.lean.
-/
import FileD.Lemmas.Proc
namespace FileD.PropsC04Proc
open FileD.Proc
open FileD.StreamProc (Op)

/-- **a time-out event makes the holder let go**: in a chain with one holding action, when the
    processor waits for the next event of the stream while that action holds `x`, a time-out
    event — whatever action disposed of the previous event (`last`) — is delivered to the holder,
    the held event is re-injected and handed to the output or dropped, and processEvent returns
    with no action busy: the stream is free to be left. Needs call depth ≥ chain length +
    children of `x` + 8 (the real stack is unbounded). -/
theorem timeout_flushes_held_event (acts : List Act) (h f : Nat) (hch : Chain acts h)
    (hget : acts[h]? = some (.holder f)) (ps : PS) (x : EvSpec) (hh : Holding ps h x)
    (last fuel : Nat) (hfuel : acts.length + x.kids + 8 ≤ fuel) :
    ∃ ps', procEv fuel acts .tmo (timeoutAction ps last) ps = (ps', .stopped h) ∧ Clean ps' ∧ ps'.ins = ps.ins ∧
      (ps'.toks = ps.toks ++ [.propagate x.seq, .out x.seq] ∨ ps'.toks = ps.toks ++ [.propagate x.seq, .drop x.seq]) :=
  timeout_flushes acts h hch ps x f hh hget last fuel hfuel

/-- the defect repaired by `fix: processor.timeoutAction` (7f35701), in the model: had the
    time-out been delivered to `last` (the action that merely discarded the previous event)
    instead of the busy holder, it would be swallowed — here action 0 discards it and the
    holder at position 1 keeps its event -/
example : (doActs 20 [.plain 0, .holder 0] 0 .tmo
      { busy := [1], held := [(1, { seq := 1 })] }).1.held = [(1, { seq := 1 })] := by decide +kernel

/-- non-vacuity: event 1 starts a run, event 2 is discarded upstream of the join (last = 0),
    the time-out still reaches the join -/
example : (discharge 40 [.plain 0, .holder 0] (PS.init
      [.ev { seq := 1, js := [.start] }, .ev { seq := 2, vs := [.discard] }, .tmo, .gap])).1.toks =
    [.get 1, .hold 1, .get 2, .drop 2, .getTimeout, .propagate 1, .out 1, .leave] := by decide +kernel

end FileD.PropsC04Proc
