/-
  C04 — no stream stays blocked behind a multi-line action: the processor side (M3,
  Model/Proc.lean). Property theorems only; the stream side (a blocked stream gets a time-out
  event within event_timeout) is in Props/C04.lean.
-/
import FileD.Lemmas.Proc
namespace FileD.PropsC04Proc
open FileD.Proc
open FileD.StreamProc (Op)

/-- **a time-out event makes the holder let go**: in a chain with one holding action, when the
    processor waits for the next event of the stream while that action holds `x`, a time-out
    event — whatever action disposed of the previous event (`last`) — is delivered to the holder,
    the held event is re-injected and handed to the output or dropped, and processEvent returns
    with no action busy: the stream is free to be left. Needs call depth ≥ chain length +
    children of `x` + 8 (the real stack is unbounded). -/
theorem timeout_flushes_held_event (acts : List Act) [NoCol acts] (h f : Nat) (hch : Chain acts h)
    (hget : acts[h]? = some (.holder f)) (ps : PS) (x : EvSpec) (hh : Holding ps h x)
    (last fuel : Nat) (hfuel : acts.length + x.kids + 8 ≤ fuel) :
    ∃ ps', procEv fuel acts .tmo (timeoutAction ps last) ps = (ps', .stopped h) ∧ Clean ps' ∧ ps'.ins = ps.ins ∧
      (ps'.toks = ps.toks ++ [.propagate x.seq, .out x.seq] ∨ ps'.toks = ps.toks ++ [.propagate x.seq, .drop x.seq]) :=
  timeout_flushes acts h hch ps x f hh hget last fuel hfuel

/-- the defect repaired by `fix: processor.timeoutAction` (7f35701), in the model: had the
    time-out been delivered to `last` (the action that merely discarded the previous event)
    instead of the busy holder, it would be swallowed — here action 0 discards it and the
    holder at position 1 keeps its event -/
example : (doActs 20 [.plain 0, .holder 0] 0 .tmo
      { busy := [1], held := [(1, { seq := 1 })] }).1.held = [(1, { seq := 1 })] := by decide +kernel

/-- non-vacuity: event 1 starts a run, event 2 is discarded upstream of the join (last = 0),
    the time-out still reaches the join -/
example : (discharge 40 [.plain 0, .holder 0] (PS.init
      [.ev { seq := 1, js := [.start] }, .ev { seq := 2, vs := [.discard] }, .tmo, .gap])).1.toks =
    [.get 1, .hold 1, .get 2, .drop 2, .getTimeout, .propagate 1, .out 1, .leave] := by decide +kernel

/-- **a time-out event makes a collapse-only action let go**: an action that answered
    ActionCollapse (busy, holding nothing — k8s multi-line, parse_es) gets the time-out event
    whatever action handled the previous event, answers ActionDiscard, its busy flag is reset and
    processEvent returns with no action busy: the stream is free to be left -/
theorem timeout_releases_collapser (acts : List Act) (idx i : Nat) (hget : acts[idx]? = some (.collapser i))
    (ps : PS) (hb : ps.busy = [idx]) (last fuel : Nat) :
    procEv (fuel+2) acts .tmo (timeoutAction ps last) ps = (resetBusy ps idx, .stopped idx) ∧
      busyTotal (resetBusy ps idx) = 0 := by
  have hta : timeoutAction ps last = idx := by
    unfold timeoutAction isBusy
    rw [hb]
    by_cases h : last = idx <;> simp [h]
  have hbz : busyTotal (resetBusy ps idx) = 0 := by simp [busyTotal, resetBusy, hb]
  refine ⟨?_, hbz⟩
  rw [hta, procEv.eq_def]; simp only
  rw [doActs.eq_def]; simp only [hget]
  have hbusy : isBusy ps idx = true := by simp [isBusy, hb]
  simp [hbusy, skips, hbz]

/-- non-vacuity, and the whole turn: event 1 is collapsed (dropped, action busy), the time-out is
    answered with a discard, the processor leaves the stream -/
example : (discharge 40 [.plain 0, .collapser 1] (PS.init
      [.ev { seq := 1, cs := [1] }, .tmo, .gap])).1.toks =
    [.get 1, .drop 1, .getTimeout, .leave] := by decide +kernel

/-- a collapse-only action downstream of a busy join: both get their time-out in turn -/
example : (discharge 60 [.holder 0, .collapser 1] (PS.init
      [.ev { seq := 1, js := [.start] }, .ev { seq := 2, js := [.other], cs := [1] }, .tmo, .gap])).1.toks =
    [.get 1, .hold 1, .get 2, .propagate 1, .out 1, .drop 2, .getTimeout, .leave] := by decide +kernel

end FileD.PropsC04Proc
