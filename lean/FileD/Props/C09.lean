/-
  C09 — Retry and dead-queue routing: a failed batch goes exactly one way.
  Property theorems only (models: Model/Retry.lean, Model/Batcher.lean; lemmas: Lemmas/Retry.lean,
  Lemmas/Batcher.lean). The send function and the back-off library are oracles: every theorem
  quantifies over all result lists, all retry settings (negative included), with and without a
  dead queue, all batch contents.
-/
import FileD.Lemmas.Retry
namespace FileD.PropsC09
open FileD FileD.Batcher FileD.Retry

def ev1 : Ev := ⟨1, 10, .regular⟩
def ev2 : Ev := ⟨2, 5, .childParent⟩

/-! ## retries before giving up -/

/-- **retries_ge_configured_partial.** If the back-off never answers Stop, a batch is given up
    only for a non-negative `AttemptNum`, and only after `AttemptNum + 2` failed sends
    (= `AttemptNum + 1` retries ≥ the configured number), for every failure pattern. -/
theorem retries_ge_configured_partial (cfg : RCfg) (evs : List Ev) (sends : List Bool) (backs : List BackOff)
    (hns : ∀ b ∈ backs, b ≠ .stop) (hg : (out cfg evs sends backs 0).gaveUp = true) :
    cfg.attemptNum ≥ 0 ∧ (failedSends (out cfg evs sends backs 0).log : Int) ≥ cfg.attemptNum + 2 := by
  simpa using gaveUp_counts cfg evs sends backs 0 hns hg

/-- a negative `AttemptNum` means "retry forever": such a batch is never given up -/
theorem negative_never_given_up (cfg : RCfg) (evs : List Ev) (sends : List Bool) (backs : List BackOff)
    (hneg : cfg.attemptNum < 0) (hns : ∀ b ∈ backs, b ≠ .stop) :
    (out cfg evs sends backs 0).gaveUp = false := by
  cases h : (out cfg evs sends backs 0).gaveUp with
  | false => rfl
  | true => have := (gaveUp_counts cfg evs sends backs 0 hns h).1; omega

example : (out ⟨1, false⟩ [ev1] [false, false, false] [.dur 1, .dur 2, .dur 4] 0).gaveUp = true ∧
    failedSends (out ⟨1, false⟩ [ev1] [false, false, false] [.dur 1, .dur 2, .dur 4] 0).log = 3 := by decide

example : (out ⟨-1, true⟩ [ev1] [false, false, false, true] [.dur 1, .dur 2, .dur 4] 0).gaveUp = false ∧
    (out ⟨-1, true⟩ [ev1] [false, false, false, true] [.dur 1, .dur 2, .dur 4] 0).finished = true := by decide

/-- Full statement: whatever the back-off library answers, a batch is given up only after at
    least the configured number of retries (failed sends − 1 ≥ AttemptNum ≥ 0). -/
def RetriesGeConfigured : Prop :=
  ∀ (cfg : RCfg) (evs : List Ev) (sends : List Bool) (backs : List BackOff),
    (out cfg evs sends backs 0).gaveUp = true →
    cfg.attemptNum ≥ 0 ∧ (failedSends (out cfg evs sends backs 0).log : Int) ≥ cfg.attemptNum + 1

/-- **retries_ge_configured_counterexample.** With the back-off literal as found
    (`MaxElapsedTime = 15 min`) `NextBackOff` answers Stop as soon as elapsed + next pause exceeds
    15 minutes — with `retention: 1h` at the very first failure: `retry: 5`, one send, zero
    retries, given up. (Repaired in /repo by `MaxElapsedTime: 0`; the witness is replayed from
    corpus/C09.) -/
theorem retries_ge_configured_counterexample : ¬ RetriesGeConfigured := by
  intro h
  have := h ⟨5, false⟩ [ev1] [false] [.stop] (by decide)
  revert this; decide

/-! ## growing pauses -/

/-- **pauses_follow_own_schedule.** The n-th pause of an `Out` call is the n-th answer of that
    call's own back-off (built and `Reset()` inside the call), so if the library follows its
    schedule (`BacksWellFormed`: the n-th answer lies within ±50 % of `min·multⁿ`, capped), the n-th
    pause of every batch lies in the interval of that batch's *own* retry index n — independent of
    what other workers do with other batches. -/
theorem pauses_follow_own_schedule (minRet mult : Nat) (cfg : RCfg) (evs : List Ev) (sends : List Bool)
    (backs : List BackOff) (hw : BacksWellFormed minRet mult backs) (n d : Nat)
    (hn : (sleepsOf (out cfg evs sends backs 0).log)[n]? = some d) :
    pauseOk minRet mult n d = true := by
  obtain ⟨r, h1, h2⟩ := sleeps_prefix cfg evs sends backs 0
  rw [h1] at hn
  simp only [List.getElem?_map, List.getElem?_take] at hn
  split at hn
  · rename_i hlt
    cases hb : backs[n]? with
    | none => simp [hb] at hn
    | some b =>
      simp [hb] at hn
      cases b with
      | dur d' => simp at hn; subst hn; exact hw n d' hb
      | stop =>
        exfalso
        have : BackOff.stop ∈ backs.take r := by
          rw [List.mem_iff_getElem?]
          exact ⟨n, by simp [List.getElem?_take, hlt, hb]⟩
        exact h2 _ this rfl
  · simp at hn

/-- with the outputs' multiplier 2 the intervals two retries apart are disjoint: pauses grow -/
theorem pause_intervals_grow (minRet n : Nat) (h6 : interval minRet 2 n ≥ 8)
    (hcap : interval minRet 2 n * 4 < maxIntervalNs) :
    pauseHi minRet 2 n < pauseLo minRet 2 (n + 2) := by
  have h1 : interval minRet 2 (n + 1) = interval minRet 2 n * 2 := by
    simp only [interval]; split <;> omega
  have h2 : interval minRet 2 (n + 2) = interval minRet 2 n * 4 := by
    show (let i := interval minRet 2 (n + 1); if i * 2 ≥ maxIntervalNs then maxIntervalNs else i * 2) = _
    simp only [h1]; split <;> omega
  simp only [pauseHi, pauseLo, h2]; omega

example : pauseOk 1000000 2 2 4755701 = true ∧ pauseOk 1000000 2 2 1452140 = false := by decide

/-! ## no commit while retrying -/

/-- **no_commit_while_retrying.** While `Out` has not returned for a batch that has something to
    send (`sendDone` not yet executed), `commit` of that batch is not enabled — whatever the
    commit sequence, the other workers and the retry state are. -/
theorem no_commit_while_retrying (c : Cfg) (s : State) (b : Batch) (bs : List Batch) (k : Nat)
    (hf : s.full = b :: bs) (hit : b.iter = true) (hns : b.sent = false) :
    step? c s (.commit k) = none := by
  simp [step?, hf, hit, hns]

/-- and `Out` returns (`finished`) only through a successful send or through the give-up branch -/
theorem finished_iff (cfg : RCfg) (evs : List Ev) (sends : List Bool) (backs : List BackOff) (tries : Nat)
    (hf : (out cfg evs sends backs tries).finished = true) :
    (out cfg evs sends backs tries).gaveUp = true ∨ REv.send true ∈ (out cfg evs sends backs tries).log := by
  induction sends generalizing backs tries with
  | nil => simp [out] at hf
  | cons s ss ih =>
    cases s with
    | true => right; simp [out]
    | false =>
      cases backs with
      | nil => simp [out] at hf
      | cons b bs =>
        rw [out_fail_cons] at hf ⊢
        split
        · left; rfl
        · rename_i hc
          simp only [hc, ↓reduceIte] at hf
          rcases ih bs (tries + 1) hf with h | h
          · left; exact h
          · right; simp [h]

example : ∃ s, TS.run (step? ⟨1, 1, 0, 10, true⟩) (init ⟨1, 1, 0, 10, true⟩) [.add ev1 0 0, .sealB, .sendStart 0] = some s ∧
    step? ⟨1, 1, 0, 10, true⟩ s (.commit 0) = none := ⟨_, rfl, by decide⟩

/-! ## exhaustion -/

/-- **exhaust_with_dq (hand-over).** With a dead queue, a given-up batch: the error callback
    runs once, every event of the batch (parents included) is passed exactly once, in order, to
    the dead-queue output, and the batch is reset (`keep = false`). -/
theorem exhaust_with_dq (cfg : RCfg) (evs : List Ev) (sends : List Bool) (backs : List BackOff)
    (hdq : cfg.dq = true) (hg : (out cfg evs sends backs 0).gaveUp = true) :
    errorCalls (out cfg evs sends backs 0).log = 1 ∧
    failedIds (out cfg evs sends backs 0).log = evs.map (·.id) ∧
    (out cfg evs sends backs 0).keep = false := by
  have := gaveUp_shape cfg evs sends backs 0 hg
  simp [hdq] at this
  exact ⟨this.2.2.1, this.2.2.2, this.2.1⟩

/-- **exhaust_with_dq (main commits nothing).** After `Out` returned with the batch reset
    (`sendDone k false`), the commit of that batch adds nothing to the main output's commits;
    its events are recorded as handed over. -/
theorem exhaust_with_dq_main_commits_nothing (c : Cfg) (s s1 s2 : State) (b : Batch) (bs : List Batch)
    (hf : s.full = b :: bs) (h1 : step? c s (.sendDone b.seq false) = some s1)
    (h2 : step? c s1 (.commit b.seq) = some s2) :
    s2.committed = s.committed ∧ s2.resolved = s.resolved ++ b.evs.map (fun e => (e, false)) := by
  simp only [step?, hf, findBatch, ↓reduceIte] at h1
  split at h1
  · simp at h1; subst h1
    simp only [step?, updBatch, ↓reduceIte] at h2
    split at h2
    · simp at h2; subst h2; simp
    · simp at h2
  · simp at h1

/-- **exhaust_with_dq (dead queue commits once).** Whatever is appended to the dead-queue
    batcher is committed by it in order, at most once each (and, by `staleness`, flushed by its
    heartbeat even if nothing else arrives): C08's refinement for that instance. -/
theorem dead_queue_commits_once (c : Cfg) (ops : List Op) (s : State)
    (hr : TS.run (step? c) (init c) ops = some s) (hd : s.added.Nodup) :
    s.committed.Sublist s.added ∧ s.committed.Nodup := by
  have hi := reachable_inv c s ⟨ops, hr⟩
  have hsub : s.committed.Sublist s.added := by
    rw [hi.comm, ← hi.flow, List.append_assoc]
    exact List.Sublist.trans (List.Sublist.map _ List.filter_sublist) (List.sublist_append_left _ _)
  exact ⟨hsub, hsub.nodup hd⟩

/-- **exhaust_without_dq.** Without a dead queue a given-up batch: the error callback runs
    once, nothing is handed over, the batch keeps its events (`keep = true`) … -/
theorem exhaust_without_dq (cfg : RCfg) (evs : List Ev) (sends : List Bool) (backs : List BackOff)
    (hdq : cfg.dq = false) (hg : (out cfg evs sends backs 0).gaveUp = true) :
    errorCalls (out cfg evs sends backs 0).log = 1 ∧
    failedIds (out cfg evs sends backs 0).log = [] ∧
    (out cfg evs sends backs 0).keep = true := by
  have := gaveUp_shape cfg evs sends backs 0 hg
  simp [hdq] at this
  exact ⟨this.2.2.1, this.2.2.2, this.2.1⟩

/-- … and the main batcher then commits exactly the events of that batch (`sendDone k true`). -/
theorem exhaust_without_dq_main_commits (c : Cfg) (s s1 s2 : State) (b : Batch) (bs : List Batch)
    (hf : s.full = b :: bs) (hnr : b.reset = false) (h1 : step? c s (.sendDone b.seq true) = some s1)
    (h2 : step? c s1 (.commit b.seq) = some s2) :
    s2.committed = s.committed ++ b.evs := by
  simp only [step?, hf, findBatch, ↓reduceIte] at h1
  split at h1
  · simp at h1; subst h1
    simp only [step?, updBatch, ↓reduceIte] at h2
    split at h2
    · simp at h2; subst h2; simp [hnr]
    · simp at h2
  · simp at h1

example : let r := out ⟨0, true⟩ [ev1, ev2] [false, false] [.dur 1, .dur 2] 0
    r.gaveUp = true ∧ failedIds r.log = [1, 2] ∧ r.keep = false ∧ failedSends r.log = 2 := by decide

example : let r := out ⟨0, false⟩ [ev1, ev2] [false, false] [.dur 1, .dur 2] 0
    r.gaveUp = true ∧ failedIds r.log = [] ∧ r.keep = true ∧ errorCalls r.log = 1 := by decide

/-- **exactly_one_way.** For every `Out` call, on every oracle: the events are handed to the dead
    queue iff the batch is not kept, and then all of them, once; the error callback runs at most
    once, exactly when the batch is given up. A batch never goes both ways or neither. -/
theorem exactly_one_way (cfg : RCfg) (evs : List Ev) (sends : List Bool) (backs : List BackOff) :
    let r := out cfg evs sends backs 0
    (r.keep = true ∧ failedIds r.log = []) ∨
    (r.keep = false ∧ failedIds r.log = evs.map (·.id) ∧ cfg.dq = true ∧ r.gaveUp = true) := by
  intro r
  cases hg : r.gaveUp with
  | false =>
    have := notGaveUp_shape cfg evs sends backs 0 hg
    exact Or.inl ⟨this.1, this.2.2⟩
  | true =>
    have := gaveUp_shape cfg evs sends backs 0 hg
    cases hdq : cfg.dq with
    | false => left; simp [hdq] at this; exact ⟨this.2.1, this.2.2.2⟩
    | true => right; simp [hdq] at this; exact ⟨this.2.1, this.2.2.2, rfl, rfl⟩

theorem error_callback_once (cfg : RCfg) (evs : List Ev) (sends : List Bool) (backs : List BackOff) :
    errorCalls (out cfg evs sends backs 0).log = if (out cfg evs sends backs 0).gaveUp then 1 else 0 := by
  cases hg : (out cfg evs sends backs 0).gaveUp with
  | false => simp [(notGaveUp_shape cfg evs sends backs 0 hg).2.1]
  | true => simp [(gaveUp_shape cfg evs sends backs 0 hg).2.2.1]

end FileD.PropsC09
