/-
  C12 — Decoders are total and faithful: totality and frame theorems
  (round trips: Props/C12F.lean; JSON: Props/C12J.lean; helper lemmas: FileD/Lemmas/Dec/*.lean).

  The models (FileD/Model/Dec/*.lean) mirror the Go scanners statement by statement; every Go
  index / slice expression is a checked access, so a Go panic is the value `.error .bounds`.
  `.error .other` is used for two things the theorems below also exclude: loop fuel running out and
  an in-place `append` that would write past the end of the caller's line.
  The decoder's own error return is the value `none`.

  The models are the models of the code AFTER the `fix:` commits recorded in known_findings.jsonl;
  the pre-fix witnesses are replayed from corpus/C12/ on every run.
-/
import FileD.Lemmas.Dec.CRI
import FileD.Lemmas.Dec.Postgres
import FileD.Lemmas.Dec.Syslog3164
import FileD.Lemmas.Dec.CSV
import FileD.Lemmas.Dec.Nginx
import FileD.Lemmas.Dec.Syslog5424
import FileD.Model.Dec.Raw
import FileD.Lemmas.Dec.Input
namespace FileD.PropsC12
open FileD GoSlice FileD.Dec

/-- **CRI, totality**: `DecodeCRI` returns a row or its error on every byte string. -/
theorem cri_total (data : Bytes) : ∃ r, CRI.decode data = .ok r := CRI.decode_total data

example : CRI.decode [116, 32, 115, 116, 100, 111, 117, 116, 32, 80, 32] -- "t stdout P " (pre-fix: panic)
    = .ok (some ⟨[], [116], [115, 116, 100, 111, 117, 116], true⟩) := by rfl

/-- **Postgres, totality and frame**: `DecodePostgres` returns a row or its error on every byte
    string, every in-place `append` of the timestamp stays inside the line, and the caller's line is
    byte for byte what it was (the appends rewrite the bytes that are already there). -/
theorem postgres_total_frame (buf : Bytes) : ∃ r, Postgres.decode buf = .ok (r, buf) :=
  Postgres.decode_total_frame buf

theorem postgres_total (buf : Bytes) : ∃ r, Postgres.decode buf = .ok r := by
  obtain ⟨r, h⟩ := Postgres.decode_total_frame buf
  exact ⟨_, h⟩

theorem postgres_frame (buf : Bytes) (r : Option Postgres.Row) (buf' : Bytes)
    (h : Postgres.decode buf = .ok (r, buf')) : buf' = buf := by
  obtain ⟨r0, h0⟩ := Postgres.decode_total_frame buf
  rw [h0] at h
  cases h
  rfl

example : Postgres.decode [97, 32, 98, 32, 99, 32, 93, 32, 120] -- "a b c ] x" (pre-fix: panic)
    = .ok (none, [97, 32, 98, 32, 99, 32, 93, 32, 120]) := by rfl

/-- **syslog RFC3164, totality** (includes the shared priority parser). -/
theorem s3164_total (facStr sevStr : Bool) (data : Bytes) : ∃ r, Syslog3164.decode facStr sevStr data = .ok r :=
  Syslog3164.decode_total facStr sevStr data

/-- **syslog priority parser, totality**: `syslogParsePriority` (shared by both syslog decoders)
    never panics, and a parsed priority has its `>` at offset 2..4 inside the line. -/
theorem syslog_priority_total (data : Bytes) :
    ∃ r, Syslog.parsePriority data = .ok r ∧ ∀ p off, r = some (p, off) → 2 ≤ off ∧ off ≤ 4 ∧ off < data.length :=
  Syslog.parsePriority_spec data

-- "<34>Oct 11 22:14:15 h a[1]" (pre-fix: panic at data[offset+1])
example : Syslog3164.decode false false
    [60, 51, 52, 62, 79, 99, 116, 32, 49, 49, 32, 50, 50, 58, 49, 52, 58, 49, 53, 32, 104, 32, 97, 91, 49, 93] = .ok none := by rfl

/-- **syslog RFC5424, totality**: header fields, timestamp validation, the structured-data state
    machine (`parseStructuredData`), message and BOM handling. -/
theorem s5424_total (facStr sevStr : Bool) (data : Bytes) : ∃ r, Syslog5424.decode facStr sevStr data = .ok r :=
  Syslog5424.decode_total facStr sevStr data

-- "<34>1 - - - - - [ab ]" and `[ab "` (pre-fix: panic at data[idx-1] with idx = 0)
example : Syslog5424.decode false false
    [60, 51, 52, 62, 49, 32, 45, 32, 45, 32, 45, 32, 45, 32, 45, 32, 91, 97, 98, 32, 93] = .ok none := by rfl
example : Syslog5424.decode false false
    [60, 51, 52, 62, 49, 32, 45, 32, 45, 32, 45, 32, 45, 32, 45, 32, 91, 97, 98, 32, 34] = .ok none := by rfl

/-- **nginx error log, totality**: for every byte string, with and without custom-field extraction
    and for every verdict of the `unicode.IsLetter` oracle. -/
theorem nginx_total (withCustom : Bool) (letters : Bytes → Bool) (data : Bytes) :
    ∃ r, Nginx.decode withCustom letters data = .ok r := Nginx.decode_total withCustom letters data

example : Nginx.decode true (fun _ => false) [97, 32, 98, 32, 91, 101, 93, 32, 49, 35, 50, 58, 32, 42] -- "a b [e] 1#2: *"
    = .ok (some ⟨[97, 32, 98], [101], [49], [50], [], [42], []⟩) := by rfl

/-- **CSV, totality**: for every line, delimiter and `TrimSpace` oracle. -/
theorem csv_total (delim : UInt8) (trim : Bytes → Bytes) (buf : Bytes) : ∃ r, CSV.decode delim trim buf = .ok r :=
  CSV.decode_total delim trim buf

/-- **CSV, frame**: the caller's buffer keeps its length and is either untouched or its final
    "\r\n" has become "\n\n" (the documented rewrite); nothing else is ever written. -/
theorem csv_frame (delim : UInt8) (trim : Bytes → Bytes) (buf : Bytes) (r : Option (List Bytes)) (buf' : Bytes)
    (h : CSV.decode delim trim buf = .ok (r, buf')) :
    buf'.length = buf.length ∧
      (buf' = buf ∨ (2 ≤ buf.length ∧ buf.drop (buf.length - 2) = [CR, NL] ∧ buf' = buf.take (buf.length - 2) ++ [NL, NL])) :=
  CSV.decode_frame delim trim buf r buf' h

example : CSV.decode 44 id [97, 44] = .ok (some [[97], []], [97, 44]) := by rfl          -- `a,` (pre-fix: panic)
example : CSV.decode 44 id [34, 97, 34] = .ok (some [[97]], [34, 97, 34]) := by rfl      -- `"a"` (pre-fix: panic)
example : CSV.decode 44 id [97, 13, 10] = .ok (some [[97, 10]], [97, 10, 10]) := by rfl  -- the CRLF rewrite

/-- **Pipeline.In, first step (`checkInputBytes`), totality**: no index / slice panic for any line,
    any limit, any cut-off setting, whatever follows the line in the caller's buffer. -/
theorem input_total (cfg : Input.Cfg) (line following : Bytes) :
    ∃ r, Input.checkInputBytes cfg line following = .ok r :=
  ⟨_, Input.checkInputBytes_eq cfg line following⟩

/-- **Pipeline.In, frame**: the caller's buffer `line ++ following` (everything within the slice's
    capacity) after the call is `line' ++ following`: the bytes after the line are untouched, the
    line keeps its length, and the line itself is either untouched or — only when the event is cut
    off, which requires `MaxEventSize < len(line)` — has the single byte at index `MaxEventSize`
    (inside the line) overwritten by the re-appended newline. -/
theorem input_frame (cfg : Input.Cfg) (line following : Bytes) (r : Input.Res)
    (h : Input.checkInputBytes cfg line following = .ok r) :
    ∃ line', r.buf = line' ++ following ∧ line'.length = line.length ∧
      (line' = line ∨
        (r.cutoff = true ∧ cfg.maxEventSize < line.length ∧ line' = line.set cfg.maxEventSize NL)) := by
  rw [Input.checkInputBytes_eq] at h
  cases h
  unfold Input.spec
  split
  · exact ⟨line, rfl, rfl, .inl rfl⟩
  · split
    · rename_i hm
      split
      · exact ⟨line, rfl, rfl, .inl rfl⟩
      · split
        · exact ⟨line.set cfg.maxEventSize NL, rfl, by simp, .inr ⟨rfl, hm.2, rfl⟩⟩
        · exact ⟨line, rfl, rfl, .inl rfl⟩
    · exact ⟨line, rfl, rfl, .inl rfl⟩

/-- **Pipeline.In, a line within the limit is passed on as it is**: with no limit, or with
    `len(line) ≤ MaxEventSize` (the newline counts; equality included), nothing is written, nothing
    is cut and the event is not marked as cut off (empty input and a lone newline are refused). -/
theorem input_within_limit (cfg : Input.Cfg) (line following : Bytes)
    (hl : cfg.maxEventSize = 0 ∨ line.length ≤ cfg.maxEventSize) (hne : line ≠ []) (hnl : line ≠ [NL]) :
    Input.checkInputBytes cfg line following = .ok ⟨true, false, line, line ++ following⟩ := by
  rw [Input.checkInputBytes_eq]
  unfold Input.spec
  have h0 : ¬ (line.length = 0 ∨ line = [NL]) := by
    intro h; rcases h with h | h
    · exact hne (List.length_eq_zero_iff.mp h)
    · exact hnl h
  have h1 : ¬ (cfg.maxEventSize ≠ 0 ∧ line.length > cfg.maxEventSize) := by
    intro ⟨a, b⟩; rcases hl with h | h <;> omega
  rw [if_neg h0, if_neg h1]

/-- **Pipeline.In, an oversize line** (`len(line) > MaxEventSize ≠ 0`) is refused when cut-off is
    disabled; otherwise the decoder gets the first `MaxEventSize` bytes, plus a newline if the line
    ended in one. -/
theorem input_oversize (cfg : Input.Cfg) (line following : Bytes)
    (hm : cfg.maxEventSize ≠ 0) (hl : line.length > cfg.maxEventSize) (hne : line ≠ [NL]) :
    ∃ r, Input.checkInputBytes cfg line following = .ok r ∧ r.accepted = cfg.cutOff ∧
      (cfg.cutOff = true → r.cutoff = true ∧
        r.bytes = line.take cfg.maxEventSize ++ (if line.getLast? = some NL then [NL] else [])) := by
  refine ⟨_, Input.checkInputBytes_eq cfg line following, ?_⟩
  unfold Input.spec
  have h0 : ¬ (line.length = 0 ∨ line = [NL]) := by
    intro h; rcases h with h | h
    · omega
    · exact hne h
  rw [if_neg h0, if_pos ⟨hm, hl⟩]
  cases hc : cfg.cutOff with
  | false => simp
  | true =>
    by_cases hn : line.getLast? = some NL <;> simp [hn]

-- "abc\n" with MaxEventSize 4 (= len): passed on untouched; with 3: cut to "abc" + "\n", written inside the line
example : Input.checkInputBytes ⟨4, true⟩ [97, 98, 99, 10] [123, 125] = .ok ⟨true, false, [97, 98, 99, 10], [97, 98, 99, 10, 123, 125]⟩ := by rfl
example : Input.checkInputBytes ⟨3, true⟩ [97, 98, 99, 10] [123, 125] = .ok ⟨true, true, [97, 98, 99, 10], [97, 98, 99, 10, 123, 125]⟩ := by rfl
example : Input.checkInputBytes ⟨2, true⟩ [97, 98, 99, 10] [123, 125] = .ok ⟨true, true, [97, 98, 10], [97, 98, 10, 10, 123, 125]⟩ := by rfl

/-- **RAW, totality**: `Pipeline.In` with the raw decoder never panics: empty input and a lone
    newline are refused by `checkInputBytes`, everything else yields a `message`. -/
theorem raw_total (data : Bytes) : ∃ r, Raw.decode data = .ok r := by
  unfold Raw.decode Raw.accepted
  by_cases h : data.length = 0
  · simp [h]
  · by_cases h2 : data = [NL]
    · simp [h2]
    · simp only [h, h2, decide_false, Bool.or_self, Bool.not_false, Bool.not_true, Bool.false_eq_true, ↓reduceIte]
      rw [sliceTo?_ok _ _ (by omega), ok_bind]
      simp

/-- **RAW, what it does**: the message is the input without its LAST BYTE, whatever that byte is. -/
theorem raw_drops_last_byte (data : Bytes) (h : Raw.accepted data = true) :
    Raw.decode data = .ok (some data.dropLast) := by
  unfold Raw.decode
  have hne : data.length ≠ 0 := by
    intro h0; unfold Raw.accepted at h; simp [h0] at h
  simp only [h, Bool.not_true, Bool.false_eq_true, ↓reduceIte]
  rw [sliceTo?_ok _ _ (by omega), ok_bind]
  have : ((data.length : Int) - 1).toNat = data.length - 1 := by omega
  rw [this, List.dropLast_eq_take]
  rfl

/-- so a newline-terminated line yields the line … -/
theorem raw_line (line : Bytes) (h : line ≠ []) : Raw.decode (line ++ [NL]) = .ok (some line) := by
  have hacc : Raw.accepted (line ++ [NL]) = true := by
    unfold Raw.accepted
    cases line with
    | nil => exact absurd rfl h
    | cons c cs => simp
  rw [raw_drops_last_byte _ hacc]
  simp

/-- … and an input without a trailing newline (kafka messages, the last chunk of an HTTP body)
    loses its last content byte. -/
theorem raw_no_newline (line : Bytes) (c : UInt8) (h : line ≠ []) : Raw.decode (line ++ [c]) = .ok (some line) := by
  have hacc : Raw.accepted (line ++ [c]) = true := by
    unfold Raw.accepted
    cases line with
    | nil => exact absurd rfl h
    | cons c cs => simp
  rw [raw_drops_last_byte _ hacc]
  simp

example : Raw.decode [97, 98, 10] = .ok (some [97, 98]) := by rfl
example : Raw.decode [97, 98] = .ok (some [97]) := by rfl
example : Raw.decode [10] = .ok none := by rfl

end FileD.PropsC12
