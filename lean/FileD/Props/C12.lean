/-
  C12 — Decoders are total and faithful: totality and frame theorems
  (round trips: Props/C12F.lean; helper lemmas: FileD/Lemmas/Dec/*.lean).

  `Total x` (Lemmas/Dec/Basic.lean) = `∃ v, x = .ok v`: the model of the Go function returns
  normally — no index/slice panic (`.error .bounds`), no append past the end of the line and no
  loop-fuel exhaustion (`.error .other`). The decoder's own error return is the value `none`.
-/
import FileD.Lemmas.Dec.CRI
import FileD.Model.Dec.Raw
namespace FileD.PropsC12
open FileD GoSlice FileD.Dec

/-- **CRI, totality**: `DecodeCRI` returns a row or its error on every byte string. -/
theorem cri_total (data : Bytes) : ∃ r, CRI.decode data = .ok r := CRI.decode_total data

example : CRI.decode [116, 32, 115, 116, 100, 111, 117, 116, 32, 80, 32] -- "t stdout P " (pre-fix panic)
    = .ok (some ⟨[], [116], [115, 116, 100, 111, 117, 116], true⟩) := by rfl

/-- **RAW, totality**: `Pipeline.In` with the raw decoder never panics: empty input and a lone
    newline are refused by `checkInputBytes`, everything else yields a `message`. -/
theorem raw_total (data : Bytes) : ∃ r, Raw.decode data = .ok r := by
  unfold Raw.decode Raw.accepted
  by_cases h : data.length = 0
  · simp [h]
  · by_cases h2 : data = [NL]
    · simp [h2]
    · simp only [h, h2, decide_false, Bool.or_self, Bool.not_false, Bool.not_true, Bool.false_eq_true, ↓reduceIte]
      rw [sliceTo?_ok _ _ (by omega), ok_bind]
      simp

example : Raw.decode [97, 98, 10] = .ok (some [97, 98]) := by rfl

end FileD.PropsC12
