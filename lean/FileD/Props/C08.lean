/-
  C08 — Batcher: bounded size, bounded staleness, in-order commit.
  Property theorems only (model: Model/Batcher.lean; helper lemmas: Lemmas/Batcher.lean).
  Every theorem quantifies over all configurations (worker count, limits, timeout) and over all
  op lists, i.e. all interleavings of adders, heartbeat, workers and Stop.
-/
import FileD.Lemmas.Batcher
namespace FileD.PropsC08
open FileD FileD.Batcher

/-- OutFn never resets a batch (plain Batcher, no dead-queue hand-over): in the run no
    `sendDone _ false` occurs -/
def NoReset (ops : List Op) : Prop := ∀ k, Op.sendDone k false ∉ ops

/-- **committed_prefix.** In every reachable state, whatever the worker count and the order in
    which sends finish: resolved ++ (sealed, uncommitted batches) ++ current batch = added. -/
theorem committed_flow (c : Cfg) (s : State) (hr : TS.Reachable (step? c) (init c) s) :
    s.resolved.map (·.1) ++ s.full.flatMap (·.evs) ++ curEvs s = s.added :=
  (reachable_inv c s hr).flow

end FileD.PropsC08
