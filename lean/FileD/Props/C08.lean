/-
  C08 — Batcher: bounded size, bounded staleness, in-order commit.
  Property theorems only (model: Model/Batcher.lean; helper lemmas: Lemmas/Batcher.lean).
  Every theorem quantifies over all configurations (worker count, count/byte limits, timeout) and
  over all op lists, i.e. all interleavings of adders, heartbeat, workers and Stop, all
  completion orders of the sends and all event sizes / kinds. `run … = some s` says that the op
  list is a possible behaviour (every step enabled).
-/
import FileD.Lemmas.Batcher
import FileD.Lemmas.BatcherPool
namespace FileD.PropsC08
open FileD FileD.Batcher

abbrev Run (c : Cfg) (ops : List Op) (s : State) : Prop := TS.run (step? c) (init c) ops = some s

theorem run_reachable {c : Cfg} {ops : List Op} {s : State} (h : Run c ops s) :
    TS.Reachable (step? c) (init c) s := ⟨ops, h⟩

-- concrete instances used by the non-vacuity examples
def e1 : Ev := ⟨1, 10, .regular⟩
def e2 : Ev := ⟨2, 30, .child⟩
def e3 : Ev := ⟨3, 5, .childParent⟩
def e4 : Ev := ⟨4, 7, .regular⟩
def cfg2 : Cfg := { workers := 2, maxCount := 2, maxBytes := 35, timeout := 10 }
/-- two batches, the second send finishes first, commits still in order -/
def demoOps : List Op :=
  [.add e1 0 0, .add e2 1 1, .sealB, .add e3 2 2, .sendStart 0, .add e4 3 3, .sealB, .sendStart 1,
   .sendDone 1 true, .sendDone 0 true, .commit 0, .commit 1]

/-! ## size bounds -/

/-- **size_bounds.** Every sealed batch of every reachable state holds at most `maxCount` events
    and its byte size without its last event is below `maxBytes` (a limit of 0 is "off"). -/
theorem size_bounds (c : Cfg) (ops : List Op) (s : State) (hr : Run c ops s) :
    ∀ b ∈ s.full, b.evs ≠ [] ∧ (c.maxCount ≠ 0 → b.evs.length ≤ c.maxCount) ∧
      (c.maxBytes ≠ 0 → ∀ l, b.evs.getLast? = some l → bytesOf b.evs - l.size < c.maxBytes) := by
  intro b hb
  have := (reachable_sinv c s (run_reachable hr)).full b hb
  exact ⟨this.nonempty, this.ok.1, this.ok.2⟩

/-- the batch being filled obeys the same bound at every moment, and is never left ready while
    the lock is free (it is sealed in the same critical section in which it became ready) -/
theorem size_bounds_cur (c : Cfg) (ops : List Op) (s : State) (hr : Run c ops s) (b : Cur)
    (hb : s.cur = some b) :
    SizeOk c b.evs ∧ (s.locked = false → ¬ SizeReady c b.evs.length (bytesOf b.evs)) := by
  have := (reachable_sinv c s (run_reachable hr)).cur b hb
  exact ⟨this.ok, fun hl => by rw [← this.size]; exact this.notReady hl⟩

example : ∃ s, Run cfg2 [.add e1 0 0, .add e2 1 1, .sealB] s ∧ s.full.map (·.evs) = [[e1, e2]] := by
  refine ⟨_, rfl, ?_⟩; decide

/-! ## staleness (logical ticks) -/

/-- **staleness.** A non-empty current batch whose age exceeds the flush timeout is sealed by
    the next heartbeat, with all its events, whatever else is going on (workers busy, other
    batches in flight). The heartbeat period itself (100 ms) is a real-time assumption. -/
theorem staleness (c : Cfg) (s : State) (b : Cur) (t0 now : Nat)
    (hcur : s.cur = some b) (hne : b.evs ≠ []) (hl : s.locked = false) (hst : s.stopped = false)
    (hage : now - b.start > c.timeout) :
    ∃ s1 s2 st, step? c s (.heartbeat t0 now) = some s1 ∧ step? c s1 .sealB = some s2 ∧
      s2.cur = none ∧ (st = .maxSize ∨ st = .timeout) ∧
      s2.full = s.full ++ [{ seq := s.outSeq, evs := b.evs, status := st, iter := b.iter,
                              queued := c.enqueueLocked }] := by
  have hlen : b.evs.length ≠ 0 := fun h => hne (List.eq_nil_of_length_eq_zero h)
  have hready : readiness c b now = .maxSize ∨ readiness c b now = .timeout := by
    unfold readiness
    simp only [hlen, ↓reduceIte]
    split
    · exact Or.inl rfl
    · right; simp [hage]; omega
  have hne' : (readiness c b now != .notReady) = true := by
    rcases hready with h | h <;> simp [h]
  have h1 : step? c s (.heartbeat t0 now) = some (afterStatus c s b s.free now) := by
    simp [step?, hl, hst, getBatch, hcur]
  have h2 : ∃ s2, step? c (afterStatus c s b s.free now) .sealB = some s2 ∧ s2.cur = none ∧
      s2.full = s.full ++ [{ seq := s.outSeq, evs := b.evs, status := readiness c b now, iter := b.iter,
                              queued := c.enqueueLocked }] := by
    simp [step?, afterStatus, hne', Cur.updateStatus, hlen]
  obtain ⟨s2, h2a, h2b, h2c⟩ := h2
  exact ⟨_, s2, readiness c b now, h1, h2a, h2b, hready, h2c⟩

/-- **staleness for a busy batcher (1): appends never restart the timer.** `startTime` is set when
    the batch is taken from freeBatches (`getBatch` → `reset`, i.e. not later than its first
    append) and an Add into an existing batch leaves it unchanged, whatever the event's size or
    kind. -/
theorem add_keeps_start (c : Cfg) (s s' : State) (b : Cur) (e : Ev) (t0 now : Nat)
    (hcur : s.cur = some b) (hst : s.stopped = false) (hs : step? c s (.add e t0 now) = some s') :
    ∃ b', s'.cur = some b' ∧ b'.start = b.start ∧ b'.evs = b.evs ++ [e] := by
  simp only [step?] at hs
  split at hs; · simp at hs
  simp only [hst] at hs
  simp [getBatch, hcur, afterStatus] at hs
  subst hs
  refine ⟨_, rfl, ?_, ?_⟩
  · unfold Cur.updateStatus; split <;> rfl
  · rw [updateStatus_evs]; rfl

/-- a batch taken from freeBatches by an Add starts its timer at that Add's first clock read -/
theorem add_fresh_start (c : Cfg) (s s' : State) (e : Ev) (t0 now : Nat)
    (hcur : s.cur = none) (hst : s.stopped = false) (hs : step? c s (.add e t0 now) = some s') :
    ∃ b', s'.cur = some b' ∧ b'.start = t0 ∧ b'.evs = [e] := by
  simp only [step?] at hs
  split at hs; · simp at hs
  simp only [hst] at hs
  by_cases hf : s.free = 0
  · simp [getBatch, hcur, hf] at hs
  · simp [getBatch, hcur, hf, afterStatus] at hs
    subst hs
    refine ⟨_, rfl, ?_, ?_⟩
    · unfold Cur.updateStatus; split <;> rfl
    · rw [updateStatus_evs]; rfl

/-- the step after a ready `updateStatus` is the seal of exactly that batch -/
theorem seal_after_ready (c : Cfg) (s0 : State) (b' : Cur) (free now : Nat)
    (hl : (readiness c b' now != .notReady) = true) :
    (afterStatus c s0 b' free now).locked = true ∧
    ∃ s2, step? c (afterStatus c s0 b' free now) .sealB = some s2 ∧ s2.cur = none ∧
      ∃ last, s2.full = s0.full ++ [last] ∧ last.evs = b'.evs := by
  refine ⟨by simp [afterStatus, hl], ?_⟩
  simp [step?, afterStatus, hl, updateStatus_evs]

/-- **staleness for a busy batcher (2): an Add flushes an over-age batch too.** If the current
    batch is older than the timeout when `updateStatus` runs inside an Add, the batch (with the new
    event) is ready: the lock stays held and the next step is its `sealB`. Together with
    `add_keeps_start` and `staleness`: an event never waits in the current batch past the first
    heartbeat or Add that sees `now − start > timeout`, and `start` is not later than the event's
    own append — traffic that keeps arriving cannot postpone the flush. -/
theorem staleness_add (c : Cfg) (s s' : State) (b : Cur) (e : Ev) (t0 now : Nat)
    (hcur : s.cur = some b) (hst : s.stopped = false) (hage : now - b.start > c.timeout)
    (hs : step? c s (.add e t0 now) = some s') :
    s'.locked = true ∧ ∃ s2, step? c s' .sealB = some s2 ∧ s2.cur = none ∧
      ∃ last, s2.full = s.full ++ [last] ∧ last.evs = b.evs ++ [e] := by
  simp only [step?] at hs
  split at hs; · simp at hs
  simp only [hst] at hs
  simp [getBatch, hcur] at hs
  subst hs
  have hlen : (b.append e).evs.length ≠ 0 := by simp [Cur.append]
  have hstart : (b.append e).start = b.start := rfl
  have hready : readiness c (b.append e) now ≠ .notReady := by
    unfold readiness
    simp only [hlen, ↓reduceIte]
    split
    · simp
    · have : (b.append e).evs.length > 0 ∧ now - (b.append e).start > c.timeout := ⟨by omega, by rw [hstart]; exact hage⟩
      simp [this]
  have hl : (readiness c (b.append e) now != .notReady) = true := by simpa using hready
  exact seal_after_ready c _ (b.append e) s.free now hl

/-- the heartbeat iterations happen at logical times `ts` no more than `H` apart, the first one no
    later than `H` after `t0` (H = the heartbeat period: `time.Sleep(100 ms)` plus scheduling slack) -/
def TicksDense (H : Nat) : Nat → List Nat → Prop
  | _, [] => True
  | t0, t :: ts => t ≤ t0 + H ∧ TicksDense H t ts

/-- among dense ticks, the first one after `D` comes no later than `D + H` -/
theorem exists_tick_within (H t0 D : Nat) (ts : List Nat) (hd : TicksDense H t0 ts) (h0 : t0 ≤ D)
    (hex : ∃ t ∈ ts, D < t) : ∃ t ∈ ts, D < t ∧ t ≤ D + H := by
  induction ts generalizing t0 with
  | nil => obtain ⟨t, ht, _⟩ := hex; cases ht
  | cons t ts ih =>
    obtain ⟨h1, h2⟩ := hd
    by_cases hlt : D < t
    · exact ⟨t, by simp, hlt, by omega⟩
    · obtain ⟨t', ht', hgt⟩ := hex
      have : t' ∈ ts := by
        rcases List.mem_cons.1 ht' with rfl | h
        · exact absurd hgt hlt
        · exact h
      obtain ⟨u, hu, hu1, hu2⟩ := ih t h2 (by omega) ⟨t', this, hgt⟩
      exact ⟨u, List.mem_cons_of_mem _ hu, hu1, hu2⟩

/-- **staleness with the heartbeat period as a parameter.** If heartbeat iterations are never more than
    `H` apart, then a batch opened at `start` is flushed no later than `start + timeout + H`: there is
    an iteration at a time `t` with `start + timeout < t ≤ start + timeout + H`, and at that iteration —
    in whatever state the batcher is then, if the batch is still the current one — the heartbeat seals
    it with all its events. The check reads `H` off every trace (reference-clock ticks between two
    `h`) so that it cannot silently grow with FlushTimeout. -/
theorem staleness_within_period (c : Cfg) (H start : Nat) (ts : List Nat)
    (hd : TicksDense H start ts) (hex : ∃ t ∈ ts, start + c.timeout < t) :
    ∃ t ∈ ts, start + c.timeout < t ∧ t ≤ start + c.timeout + H ∧
      ∀ (s : State) (b : Cur) (t0 : Nat), s.cur = some b → b.start = start → b.evs ≠ [] →
        s.locked = false → s.stopped = false →
        ∃ s1 s2, step? c s (.heartbeat t0 t) = some s1 ∧ step? c s1 .sealB = some s2 ∧ s2.cur = none ∧
          ∃ last, s2.full = s.full ++ [last] ∧ last.evs = b.evs := by
  obtain ⟨t, ht, h1, h2⟩ := exists_tick_within H start (start + c.timeout) ts hd (by omega) hex
  refine ⟨t, ht, h1, h2, ?_⟩
  intro s b t0 hcur hstart hne hl hst
  obtain ⟨s1, s2, st, e1, e2, e3, _, e5⟩ := staleness c s b t0 t hcur hne hl hst (by rw [hstart]; omega)
  exact ⟨s1, s2, e1, e2, e3, _, e5, rfl⟩

example : TicksDense 100 0 [30, 130, 230, 330] ∧ ∃ t ∈ [30, 130, 230, 330], 0 + 150 < t := by
  refine ⟨by simp [TicksDense], 230, by simp, by omega⟩

example : ∃ s, Run cfg2 [.add e1 0 0, .heartbeat 5 5, .heartbeat 11 11, .sealB] s ∧
    s.cur = none ∧ s.full.map (fun b => (b.evs, b.status)) = [([e1], .timeout)] := by
  refine ⟨_, rfl, rfl, ?_⟩; decide

/-! ## commit order -/

/-- **commit_in_seq_order.** In every run the batches are committed in the order of their
    sequence numbers 0, 1, 2, … without gaps, for any worker count and completion order. -/
theorem commit_in_seq_order (c : Cfg) (ops : List Op) (s : State) (hr : Run c ops s) :
    commitsOf ops = List.range s.commitSeq := by
  have ⟨h1, h2⟩ := run_commits c (init c) s ops hr
  simp [init] at h1 h2
  rw [h2, List.range_eq_range']; exact h1

example : ∃ s, Run cfg2 demoOps s ∧ commitsOf demoOps = [0, 1] := ⟨_, rfl, rfl⟩

/-- **commit_after_own_send.** When `commit k` happens, batch k is the oldest uncommitted batch
    and, if it holds anything `ForEach` would yield, its own `sendStart k` and `sendDone k` are
    in the past of the run. -/
theorem commit_after_own_send (c : Cfg) (pre : List Op) (k : Nat) (s s' : State)
    (hr : Run c pre s) (hs : step? c s (.commit k) = some s') :
    ∃ b bs, s.full = b :: bs ∧ b.seq = k ∧
      (hasIter b.evs = true → Op.sendStart k ∈ pre ∧ ∃ keep, Op.sendDone k keep ∈ pre) := by
  simp only [step?] at hs
  split at hs; · simp at hs
  rename_i b bs hf
  split at hs
  · rename_i hg
    refine ⟨b, bs, hf, hg.1, fun hit => ?_⟩
    have hmem : b ∈ s.full := by rw [hf]; simp
    have hb := (reachable_sinv c s (run_reachable hr)).full b hmem
    have hq := (TS.invariant_reachable (step? c) (QInv c) (init c)
      ⟨by simp [init], by simp [init], by simp [init]⟩ (fun s op s' => step_qinv c s s' op) s
      (run_reachable hr)).flags b hmem
    have hh := (run_hinv c pre s hr).full b hmem
    have hsent : b.sent = true := hg.2.2.2 (by rw [hb.iter]; exact hit)
    have := hh.started (hq.sentStarted hsent)
    have := hh.sent hsent
    rw [hg.1] at *
    exact ⟨by assumption, by assumption⟩
  · simp at hs

example : ∃ s, Run cfg2 [.add e1 0 0, .add e2 1 1, .sealB] s ∧ step? cfg2 s (.commit 0) = none :=
  ⟨_, rfl, by decide⟩

/-! ## committed = prefix of added -/

/-- OutFn never resets a batch (the plain Batcher; resets only come from a RetriableBatcher
    with a dead queue, §C09) -/
def NoReset (ops : List Op) : Prop := ∀ k, Op.sendDone k false ∉ ops

/-- the refinement equation: resolved ++ (sealed, uncommitted) ++ current = added -/
theorem committed_flow (c : Cfg) (ops : List Op) (s : State) (hr : Run c ops s) :
    s.resolved.map (·.1) ++ s.full.flatMap (·.evs) ++ curEvs s = s.added :=
  (reachable_inv c s (run_reachable hr)).flow

/-- **committed_prefix.** For any worker count and any completion order of the sends: what has
    been committed, followed by the sealed uncommitted batches in sequence order, followed by
    the current batch, is exactly what was added. Hence commits are in Add order, every event
    at most once, and no event is skipped. -/
theorem committed_prefix (c : Cfg) (ops : List Op) (s : State) (hr : Run c ops s) (hn : NoReset ops) :
    s.committed ++ s.full.flatMap (·.evs) ++ curEvs s = s.added ∧ s.committed <+: s.added := by
  have hi := reachable_inv c s (run_reachable hr)
  have hh := (run_hinv c ops s hr).resolved
  have hall : s.resolved.filter (·.2) = s.resolved := by
    apply List.filter_eq_self.2
    intro q hq
    cases hq2 : q.2 with
    | true => rfl
    | false => obtain ⟨k, hk⟩ := hh q hq hq2; exact absurd hk (hn k)
  have hc : s.committed = s.resolved.map (·.1) := by rw [hi.comm, hall]
  refine ⟨by rw [hc]; exact hi.flow, ?_⟩
  rw [hc, ← hi.flow, List.append_assoc]
  exact List.prefix_append _ _

/-- with resets (dead-queue hand-over) the committed events still are a subsequence of the added
    ones, in Add order; the handed-over ones are exactly those flagged in `resolved` -/
theorem committed_sublist (c : Cfg) (ops : List Op) (s : State) (hr : Run c ops s) :
    s.committed.Sublist s.added := by
  have hi := reachable_inv c s (run_reachable hr)
  rw [hi.comm, ← hi.flow, List.append_assoc]
  exact List.Sublist.trans (List.Sublist.map _ List.filter_sublist) (List.sublist_append_left _ _)

/-- exactly once: distinct events are committed at most once each -/
theorem committed_nodup (c : Cfg) (ops : List Op) (s : State) (hr : Run c ops s)
    (hd : s.added.Nodup) : s.committed.Nodup :=
  (committed_sublist c ops s hr).nodup hd

example : ∃ s, Run cfg2 demoOps s ∧ NoReset demoOps ∧ s.committed = [e1, e2, e3, e4] ∧
    s.added = [e1, e2, e3, e4] := by
  refine ⟨_, rfl, ?_, ?_, ?_⟩
  · intro k; simp [demoOps]
  · decide
  · decide

/-! ## child-parent events -/

/-- **child_parent_skipped (1).** `ForEach` yields exactly the events that are not parents of
    split events, in order. -/
theorem foreach_skips_parents (evs : List Ev) (e : Ev) :
    e ∈ forEach evs ↔ e ∈ evs ∧ e.kind ≠ .childParent := by
  simp [forEach]

theorem foreach_sublist (evs : List Ev) : (forEach evs).Sublist evs := List.filter_sublist

/-- **child_parent_skipped (2).** A sealed batch without iterable events is never handed to
    OutFn, and once it is the oldest batch its commit is enabled without any send; parents are
    still committed (they are part of `evs`). -/
theorem child_parent_skipped (c : Cfg) (ops : List Op) (s : State) (hr : Run c ops s)
    (b : Batch) (bs : List Batch) (hf : s.full = b :: bs) (hq : b.queued = true)
    (hnone : forEach b.evs = []) :
    step? c s (.sendStart b.seq) = none ∧
    ∃ s', step? c s (.commit b.seq) = some s' ∧
      s'.committed = s.committed ++ (if b.reset then [] else b.evs) := by
  have hmem : b ∈ s.full := by rw [hf]; simp
  have hb := (reachable_sinv c s (run_reachable hr)).full b hmem
  have hi := reachable_inv c s (run_reachable hr)
  have hiter : b.iter = false := by
    rw [hb.iter]
    simp only [hasIter, List.any_eq_false]
    intro e he
    have : e ∉ forEach b.evs := by rw [hnone]; simp
    rw [foreach_skips_parents] at this
    simp at this ⊢
    exact this he
  have hseq : b.seq = s.commitSeq := by have := hi.seqs; rw [hf] at this; exact this.1
  constructor
  · simp [step?, hf, findBatch, hiter]
  · simp [step?, hf, hseq, hq, hiter]

example : ∃ s, Run cfg2 [.add e3 0 0, .add e3 1 1, .sealB] s ∧ step? cfg2 s (.sendStart 0) = none ∧
    (step? cfg2 s (.commit 0)).map (·.committed) = some [e3, e3] := ⟨_, rfl, by decide, by decide⟩

/-! ## batch pool -/

/-- **batch_pool_conserved.** The `Workers` batches made by `NewBatcher` are conserved in every
    reachable state, for every interleaving: each is in `freeBatches`, is the batch being filled,
    or is sealed and not yet committed. -/
theorem batch_pool_conserved (c : Cfg) (ops : List Op) (s : State) (hr : Run c ops s) :
    s.free + (if s.cur.isSome then 1 else 0) + s.full.length = c.workers :=
  reachable_pool c s (run_reachable hr)

/-- **send_under_lock_never_blocks.** At the moment a batch is sealed (the channel send of the
    repaired `trySendBatchAndUnlock`, done while `b.mu` is held) fewer than `Workers` batches are
    sealed and uncommitted, so `fullBatches` (capacity `Workers`) has room: the send that the
    repair of the Stop race moved under the lock cannot block and so cannot deadlock `b.mu`. -/
theorem send_under_lock_never_blocks (c : Cfg) (ops : List Op) (s s' : State) (hr : Run c ops s)
    (hs : step? c s .sealB = some s') : s.full.length < c.workers ∧ s'.full.length ≤ c.workers := by
  have h := reachable_pool c s (run_reachable hr)
  have h' := reachable_pool c s' (run_reachable (ops := ops ++ [.sealB]) (by
    show TS.run (step? c) (init c) (ops ++ [.sealB]) = some s'
    rw [TS.run_append, show TS.run (step? c) (init c) ops = some s from hr]
    simp [TS.run, hs]))
  unfold PoolInv at h h'
  simp only [step?] at hs
  split at hs; · simp at hs
  split at hs; · simp at hs
  rename_i b hc
  simp [curCount, hc] at h
  exact ⟨by omega, by omega⟩

/-- **in_flight_bounded.** Sequence numbers handed out run at most `Workers` ahead of the commit
    sequence: never more than `Workers` batches are sealed and uncommitted. -/
theorem in_flight_bounded (c : Cfg) (ops : List Op) (s : State) (hr : Run c ops s) :
    s.outSeq ≤ s.commitSeq + c.workers ∧ s.full.length ≤ c.workers := by
  have h := reachable_pool c s (run_reachable hr)
  have hc := (reachable_inv c s (run_reachable hr)).count
  unfold PoolInv at h
  omega

/-- **uncommitted_events_bounded.** With a count limit, the events held in sealed, uncommitted
    batches never exceed `Workers * maxCount`, for every interleaving and completion order. -/
theorem uncommitted_events_bounded (c : Cfg) (ops : List Op) (s : State) (hr : Run c ops s)
    (hm : c.maxCount ≠ 0) : (s.full.flatMap (·.evs)).length ≤ c.workers * c.maxCount := by
  have h1 := flatMap_evs_le c.maxCount s.full (fun b hb => (size_bounds c ops s hr b hb).2.1 hm)
  have h2 := (in_flight_bounded c ops s hr).2
  exact Nat.le_trans h1 (Nat.mul_le_mul_right _ h2)

/-- **add_blocks_only_when_all_in_flight.** Back-pressure is exact: an `Add` that finds `b.mu` free
    is disabled (blocks in `getBatch`) only when all `Workers` batches are sealed and uncommitted. -/
theorem add_blocks_only_when_all_in_flight (c : Cfg) (ops : List Op) (s : State) (hr : Run c ops s)
    (e : Ev) (t0 now : Nat) (hl : s.locked = false) (hb : step? c s (.add e t0 now) = none) :
    s.cur = none ∧ s.free = 0 ∧ s.full.length = c.workers := by
  have h := reachable_pool c s (run_reachable hr)
  unfold PoolInv curCount at h
  simp only [step?, hl, Bool.false_eq_true, if_false] at hb
  split at hb; · simp at hb
  split at hb
  · rename_i hg
    unfold getBatch at hg
    cases hc : s.cur with
    | some b0 => simp [hc] at hg
    | none =>
      simp only [hc] at hg
      split at hg
      · rename_i hf; simp [hc, hf] at h; exact ⟨rfl, hf, h⟩
      · simp at hg
  · simp at hb

example : ∃ s, Run cfg2 [.add e1 0 0, .add e2 1 1, .sealB, .add e3 2 2, .add e4 3 3] s ∧
    s.free = 0 ∧ s.cur.isSome ∧ s.full.length = 1 ∧ (step? cfg2 s .sealB).isSome :=
  ⟨_, rfl, by decide, by decide, by decide, by decide⟩

example : ∃ s, Run cfg2 [.add e1 0 0, .add e2 1 1, .sealB, .add e3 2 2, .add e4 3 3, .sealB] s ∧
    s.locked = false ∧ step? cfg2 s (.add e1 4 4) = none ∧ s.full.length = 2 :=
  ⟨_, rfl, by decide, by decide, by decide⟩

/-! ## Stop -/

/-- **stop_never_panics.** In the repaired shape (the channel send happens before `mu.Unlock`)
    no placement of Stop among concurrent Adds, heartbeats and workers reaches the panic state. -/
theorem stop_never_panics (c : Cfg) (hc : c.enqueueLocked = true) (ops : List Op) (s : State)
    (hr : Run c ops s) : s.panicked = false :=
  (TS.invariant_reachable (step? c) (QInv c) (init c)
    ⟨by simp [init], by simp [init], by simp [init]⟩ (fun s op s' => step_qinv c s s' op) s
    (run_reachable hr)).noPanic hc

/-- **stop_commits_only_sent.** Also after Stop (and for any placement of it) a commit only
    happens for the oldest batch, after OutFn has been entered and has returned for it (or it
    has nothing to send), and it commits exactly the events of that batch. -/
theorem stop_commits_only_sent (c : Cfg) (ops : List Op) (s s' : State) (k : Nat)
    (hr : Run c ops s) (_hstop : s.stopped = true) (hs : step? c s (.commit k) = some s') :
    ∃ b bs, s.full = b :: bs ∧ b.seq = k ∧ b.queued = true ∧
      (hasIter b.evs = true → b.started = true ∧ b.sent = true) ∧
      s'.committed = s.committed ++ (if b.reset then [] else b.evs) ∧ s'.stopped = true := by
  have hq := TS.invariant_reachable (step? c) (QInv c) (init c)
    ⟨by simp [init], by simp [init], by simp [init]⟩ (fun s op s' => step_qinv c s s' op) s
    (run_reachable hr)
  simp only [step?] at hs
  split at hs; · simp at hs
  rename_i b bs hf
  split at hs
  · rename_i hg
    simp at hs; subst hs
    have hmem : b ∈ s.full := by rw [hf]; simp
    have hb := (reachable_sinv c s (run_reachable hr)).full b hmem
    refine ⟨b, bs, hf, hg.1, hg.2.2.1, fun hit => ?_, rfl, _hstop⟩
    have hsent := hg.2.2.2 (by rw [hb.iter]; exact hit)
    exact ⟨(hq.flags b hmem).sentStarted hsent, hsent⟩
  · simp at hs

/-- after Stop nothing new is accepted: an Add is a no-op -/
theorem add_after_stop_dropped (c : Cfg) (s : State) (e : Ev) (t0 now : Nat)
    (hl : s.locked = false) (hst : s.stopped = true) : step? c s (.add e t0 now) = some s := by
  simp [step?, hl, hst]

example : ∃ s, Run cfg2 [.add e1 0 0, .add e2 1 1, .sealB, .stop, .sendStart 0, .sendDone 0 true, .commit 0] s ∧
    s.committed = [e1, e2] ∧ s.panicked = false := ⟨_, rfl, by decide, by decide⟩

/-- Full statement for *any* shape of `trySendBatchAndUnlock`: no reachable state is the panic
    state. It is false for the shape found in the code (`mu.Unlock()` before
    `fullBatches <- batch`); kept as the documentation of the repaired defect. -/
def StopSafe : Prop :=
  ∀ (c : Cfg) (ops : List Op) (s : State), Run c ops s → s.panicked = false

/-- the code as found: Unlock first, then send -/
def cfgUnfixed : Cfg := { workers := 2, maxCount := 1, maxBytes := 0, timeout := 10, enqueueLocked := false }

/-- **stop_safe_counterexample.** One Add that fills the batch, Stop between its Unlock and its
    channel send: "send on closed channel". -/
theorem stop_safe_counterexample : ¬ StopSafe := by
  intro h
  have := h cfgUnfixed [.add e1 0 0, .sealB, .stop, .enqueue 0] _ rfl
  revert this; decide

end FileD.PropsC08
