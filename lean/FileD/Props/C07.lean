/-
  C07 — The offsets file is always a loadable snapshot, never ahead of commits.
  Property theorems only (helper lemmas: FileD/Lemmas/OffsetsFile.lean, FileD/Lemmas/SaveProto.lean).

  Models: Model/OffsetsFile.lean (render = offsetDB.save's buffer, parse = offsetDB.parse…),
  Model/CommitSnap.lean (commit / truncate against the save's per-job critical sections),
  Model/SaveProto.lean (the syscalls of a save on a two-level file system, every outcome).
  The models describe /repo AFTER the three `fix:` commits of this property; the programs of the
  code as found (`fileOrig`, `genOrig`) are kept, with the counterexamples that motivated the fixes.
-/
import FileD.Lemmas.OffsetsFile
import FileD.Lemmas.SaveProto
import FileD.Lemmas.SaveSnap
namespace FileD.PropsC07
open FileD FileD.OffsetsFile

/-! ## 1. Format: what save writes, load reads back -/

/-- what the Go types guarantee of a snapshot: uint64 inode / source id, int64 timestamp, offsets an
    event can carry (0 … 2^63−1), distinct stream names per job (`SliceMap.Set`), distinct source
    ids (keys of the `jobs` map). Nothing is assumed about the names. -/
structure Structural (t : JobTable) : Prop where
  inode    : ∀ j ∈ live t, j.inode < two64
  source   : ∀ j ∈ live t, j.sourceID < two64
  ts       : ∀ j ∈ live t, -(two63 : Int) ≤ j.ts ∧ j.ts < (two63 : Int)
  offsets  : ∀ j ∈ live t, ∀ kv ∈ j.offsets, 0 ≤ kv.2 ∧ kv.2 < (two63 : Int)
  streams  : ∀ j ∈ live t, (names j.offsets).Nodup
  sources  : ((live t).map (·.sourceID)).Nodup

/-- the names the line format can carry: no newline in a file name or a stream name.
    Empty, ':'-containing, non-ASCII, space- or '-'-leading names are all allowed. -/
def NamesOk (t : JobTable) : Prop :=
  ∀ j ∈ live t, NL ∉ j.filename ∧ ∀ kv ∈ j.offsets, NL ∉ kv.1

/-- **round trip**: for every snapshot whose names contain no newline, parsing the rendered
    buffer gives back exactly the jobs that have a committed stream — every file name, inode,
    source id, timestamp, stream name and offset, in order. No bound on sizes. -/
theorem parse_render_partial (now : Int) (t : JobTable) (hs : Structural t) (hn : NamesOk t) :
    parse now (render t) = .ok (live t) := by
  have hok : ∀ j ∈ live t, JobOk j := fun j hj =>
    { file := (hn j hj).1, inode := hs.inode j hj, source := hs.source j hj,
      tsLo := (hs.ts j hj).1, tsHi := (hs.ts j hj).2,
      streams := fun kv hkv => ⟨(hn j hj).2 kv hkv, (hs.offsets j hj kv hkv).1, (hs.offsets j hj kv hkv).2⟩,
      distinct := hs.streams j hj }
  have := parseLoop_render now t [] ((render t).length + 1) hok (by simpa using hs.sources)
    (by have := live_length_le_render t; omega)
  simpa [parse] using this

/-- the explicit fuel of the model's parsing loops is an artefact only: it never runs out, for any
    content (so `parse` is the Go parser's result on every input, not only on rendered files) -/
theorem parse_never_out_of_fuel (now : Int) (content : Bytes) : parse now content ≠ .error .fuel :=
  parse_fuel_ok now content

example : parse 0 [45, 32] = .error .format := by decide

/-- the same through `load`, as a restarted plugin sees it -/
theorem load_render_partial (now : Int) (t : JobTable) (hs : Structural t) (hn : NamesOk t) :
    load now (some (render t)) = .ok (live t) := parse_render_partial now t hs hn

def exJob : Job :=
  ⟨[47, 118, 97, 114, 47, 108, 111, 103, 47, 97, 32, 98, 46, 108, 111, 103], 7, 18446744073709551615, -5,
   [([], 0), ([97, 58, 98], 9223372036854775807), ([45, 120], 10), ([195, 169], 1), ([58, 32, 49], 2)]⟩

example : Structural [exJob] ∧ NamesOk [exJob] := by
  refine ⟨⟨?_, ?_, ?_, ?_, ?_, ?_⟩, ?_⟩ <;> (try unfold NamesOk) <;> decide

/-- the full statement: every name an event can carry (the stream field's value is arbitrary) -/
def ParseRender : Prop :=
  ∀ (now : Int) (t : JobTable), Structural t → parse now (render t) = .ok (live t)

def nlJob (stream : Bytes) : Job := ⟨[102], 1, 2, 3, [(stream, 7)]⟩

/-- **counterexample** (known finding C07-newline-in-name): a stream name with a newline. "a\nb"
    makes the file unloadable; "x: 1\n    y" loads as two other streams. -/
theorem parse_render_counterexample : ¬ ParseRender := by
  intro h
  have hs : Structural [nlJob [97, 10, 98]] := by
    refine ⟨?_, ?_, ?_, ?_, ?_, ?_⟩ <;> decide
  have := h 0 [nlJob [97, 10, 98]] hs
  revert this
  decide

example : parse 0 (render [nlJob [97, 10, 98]]) = .error .format := by decide
example : parse 0 (render [nlJob [120, 58, 32, 49, 10, 32, 32, 32, 32, 121]])
    = .ok [⟨[102], 1, 2, 3, [([120], 1), ([121], 7)]⟩] := by decide
/-- a stream name ending in ":\n" drives `line[pos+2:]` past the end of the line: Go panics -/
example : parse 0 (render [nlJob [97, 58, 10]]) = .error .panicBounds := by decide

/-! ## 2. Never ahead of commits: the snapshot under the job locks -/

open FileD.CommitSnap in
/-- **never ahead, one moment per source**: for every interleaving of commits, truncations, new
    jobs and the per-job critical sections of saves, every finished snapshot buffer holds, per
    source, an entry `e = (source, its WHOLE stream table)` that is a value the job's offsets map
    had — all streams together, at one single moment — at or before the moment the buffer was
    complete (`hist` is the ghost log of every value any job's table ever had; `n` its length when
    the buffer was handed to `write`). This is what `saveVisit` = ONE `job.mu` critical section that
    reads the job's table and formats all its stream lines buys; a save that formats outside the lock
    is not an instance of the model (source fact in checks/p_C07.py, `c07.conc` oracle). -/
theorem never_ahead (ops : List CommitSnap.Op) (s : CommitSnap.St)
    (hr : CommitSnap.run CommitSnap.init ops = some s) :
    ∀ sn ∈ s.snaps, sn.2 ≤ s.hist.length ∧ ∀ e ∈ sn.1, e ∈ s.hist.take sn.2 :=
  (TS.invariant_of_step CommitSnap.step? CommitSnap.HInv CommitSnap.hinv_step
    CommitSnap.init s ops CommitSnap.hinv_init hr).2.2

/-- a commit that lands between two visits of a running save: the snapshot mixes moments across
    sources but each source's entry is a past value of that source -/
example :
    (CommitSnap.run CommitSnap.init
      [.addJob 1, .addJob 2, .commit 1 [115] 10, .saveBegin [1, 2], .saveVisit,
       .commit 2 [115] 5, .commit 1 [115] 20, .saveVisit, .saveEnd]).map (·.snaps)
    = some [([(1, [([115], 10)]), (2, [([115], 5)])], 5)] := by rfl

/-- the statement excludes tables that mix moments: a↦1,b↦1 then a↦2 then b↦2 — the table
    (a↦1, b↦2) never existed, so by `never_ahead` no snapshot can hold it -/
example :
    (CommitSnap.run CommitSnap.init
      [.addJob 1, .commit 1 [97] 1, .commit 1 [98] 1, .commit 1 [97] 2, .commit 1 [98] 2]).map
      (fun s => (s.hist.contains (1, [([97], 2), ([98], 1)]), s.hist.contains (1, [([97], 1), ([98], 2)])))
    = some (true, false) := by rfl

/-! ## 2b. Concurrent saves on one offsetDB: a save formats the snapshot it took -/

/-- full statement for a lock order `o`: for every interleaving of the `lock` / `snap` / `visit` /
    `finish` steps of any number of saving goroutines on ONE offsetDB, every finished save formatted
    exactly the jobs it snapshotted, in that order — each job once, none missing (the array behind
    `o.jobsSnapshot` is shared between the savers; only its length is the saver's own). -/
def SaveFormatsOwnSnapshot (o : SaveSnap.Order) : Prop :=
  ∀ (ops : List SaveSnap.Op) (s : SaveSnap.St), SaveSnap.run o SaveSnap.init ops = some s →
    ∀ p ∈ s.done, p.2 = p.1

/-- **the code**: the snapshot is taken while holding `o.mu` -/
theorem save_formats_own_snapshot : SaveFormatsOwnSnapshot .lockFirst := by
  intro ops s hr
  exact (TS.invariant_of_step (SaveSnap.step? .lockFirst) SaveSnap.LInv SaveSnap.linv_step
    SaveSnap.init s ops SaveSnap.linv_init hr).done_ok

/-- two savers taking turns: the second can only refill the shared slice after the first finished -/
example : (SaveSnap.run .lockFirst SaveSnap.init
    [.lock 1, .snap 1 [1, 2], .visit 1, .visit 1, .finish 1, .lock 2, .snap 2 [2, 1], .visit 2, .visit 2, .finish 2]).map
    (·.done) = some [([1, 2], [1, 2]), ([2, 1], [2, 1])] := by decide
example : (SaveSnap.run .lockFirst SaveSnap.init [.lock 1, .snap 1 [1, 2], .visit 1, .lock 2]).isNone = true := by decide

/-- **counterexample** (seeded change C07-e: `snapshotJobs` before `o.mu.Lock()`): saver 1 formats
    job 1, saver 2 refills the shared slice in another map order, saver 1 reads cell 1 again — its
    file names job 1 twice ("duplicate inode": the next start panics) and job 2 is missing. -/
theorem save_formats_own_snapshot_counterexample : ¬ SaveFormatsOwnSnapshot .snapFirst := by
  intro h
  have := h [.snap 1 [1, 2], .lock 1, .visit 1, .snap 2 [2, 1], .visit 1, .finish 1]
  revert this
  simp [SaveSnap.run, TS.run, SaveSnap.step?, SaveSnap.init, SaveSnap.setPc, SaveSnap.refill]

/-! ## 3. The save protocol: every failure pattern, every crash point -/

open FileD.SaveProto

/-- the full statement for a program `v`: whatever the outcomes of the syscalls and wherever the
    run stops, the offsets file is the previous or the new snapshot — on the volatile level (what a
    restart after a process kill reads) and on the durable level (after power loss). In particular
    an unsuccessful write never replaces a good file. -/
def UnsuccessfulWriteKeepsGoodFile (v : Variant) : Prop :=
  ∀ (old : Option Bytes) (new : Bytes) (ops : List Op) (s : St),
    run v new (init old) ops = some s → Good old new s.fs

/-- **plugin/input/file/offset.go as fixed** -/
theorem unsuccessful_write_keeps_good_file : UnsuccessfulWriteKeepsGoodFile .fileFixed := by
  intro old new ops s hr
  obtain ⟨hv, hd⟩ := inv_run .fileFixed trivial old new ops s hr
  exact ⟨hv.1, hd.1⟩

/-- a failed write followed by the clean-up, and a kill right after the rename -/
example : run .fileFixed [1, 2, 3] (init (some [9]))
    [.openTrunc true, .write 2 false, .unlink true, .close true]
    = some ⟨⟨⟨some [9], some [9]⟩, absent⟩, .done⟩ := by decide
example : (run .fileFixed [1, 2, 3] (init (some [9]))
    [.openTrunc true, .write 3 true, .fsync true, .rename true]).map (·.fs.cur)
    = some ⟨some [1, 2, 3], some [1, 2, 3]⟩ := by decide

/-- **the code as found**: when write and fsync succeed (or the process dies before), the file
    is good at every crash point, for every outcome of open / rename / close -/
theorem crash_safe_file_partial (old : Option Bytes) (new : Bytes) (ops : List Op) (s : St)
    (hok : ∀ op ∈ ops, opOk op = true)
    (hr : run .fileOrig new (init old) ops = some s) : Good old new s.fs :=
  unsuccessful_write_keeps_good_file old new ops s (orig_run_fixed new ops (init old) s hok hr)

example : run .fileOrig [1, 2] (init (some [9])) [.openTrunc true, .write 2 true, .fsync true, .rename false]
    ≠ none ∧ (∀ op ∈ [Op.openTrunc true, .write 2 true, .fsync true, .rename false], opOk op = true) := by
  decide

/-- **counterexample on the code as found** (defect 1, fixed in /repo): `write` fails after 0
    bytes, the error is only logged, `fsync` and `rename` are still issued — the good offsets
    file is replaced by an empty one. Witness: corpus/C07/defect1_failed_write_renamed.case -/
theorem unsuccessful_write_counterexample : ¬ UnsuccessfulWriteKeepsGoodFile .fileOrig := by
  intro h
  have := h (some [9]) [1, 2] [.openTrunc true, .write 0 false, .fsync true, .rename true]
    ⟨⟨⟨some [], some []⟩, absent⟩, .renamed⟩ (by decide)
  revert this
  unfold Good
  decide

/-- **offset/offset.go, process kill**: as found and as fixed, at every crash point and for every
    failure pattern a restarted process reads the previous or the new content -/
theorem crash_safe_generic_kill (v : Variant) (hv : v = .genOrig ∨ v = .genFixed)
    (old : Option Bytes) (new : Bytes) (ops : List Op) (s : St)
    (hr : run v new (init old) ops = some s) :
    crashKill s.fs = old ∨ crashKill s.fs = some new := by
  have hn : NotOrigFile v := by rcases hv with h | h <;> subst h <;> trivial
  exact (invV_run v hn old new ops s hr).1

example : (run .genOrig [1] (init none) [.openTrunc true, .write 1 true, .close true, .rename true]).map
    (fun s => crashKill s.fs) = some (some [1]) := by decide

/-- durability statement: the new content is durable before it replaces the previous one -/
def DurableBeforeReplace (v : Variant) : Prop :=
  ∀ (old : Option Bytes) (new : Bytes) (ops : List Op) (s : St),
    run v new (init old) ops = some s → crashPower s.fs = old ∨ crashPower s.fs = some new

/-- **offset/offset.go as fixed** (Sync before Close and Rename) -/
theorem durable_before_replace : DurableBeforeReplace .genFixed := by
  intro old new ops s hr
  exact (inv_run .genFixed trivial old new ops s hr).2.1

example : (run .genFixed [1] (init (some [9]))
    [.openTrunc true, .write 1 true, .fsync true, .close true, .rename true]).map
    (fun s => crashPower s.fs) = some (some [1]) := by decide

/-- **counterexample on the code as found** (defect 3, fixed in /repo): open · write · close ·
    rename without fsync — after power loss the renamed file is empty.
    Witness: corpus/C07/defect3_generic_no_fsync.case (the observed syscall order) -/
theorem durable_before_replace_counterexample : ¬ DurableBeforeReplace .genOrig := by
  intro h
  have := h (some [9]) [1] [.openTrunc true, .write 1 true, .close true, .rename true]
    ⟨⟨⟨some [], some [1]⟩, absent⟩, .done⟩ (by decide)
  revert this
  decide

/-! ## 3b. Histories of saves: temp files left behind by interrupted saves -/

/-- full statement for a program `v`: after ANY history of saves — each with its own buffer, any
    failure pattern, stopped anywhere (killed saves leave their temp file behind; the generic
    package re-uses the name `<path>.tmp`) — the offsets file holds, on both levels, what it held
    before the history or exactly the buffer of one of the saves: a snapshot that was saved at some
    earlier moment, never a mixture. -/
def HistoryKeepsSavedSnapshot (v : Variant) : Prop :=
  ∀ (fs0 : FS) (saves : List (Bytes × List Op)) (fs : FS), runHist v fs0 saves = some fs →
    (crashKill fs = crashKill fs0 ∨ ∃ sv ∈ saves, crashKill fs = some sv.1) ∧
    (crashPower fs = crashPower fs0 ∨ ∃ sv ∈ saves, crashPower fs = some sv.1)

/-- **offset/offset.go as fixed** (journalctl, dmesg): `os.Create` truncates a left-over `<path>.tmp` -/
theorem history_keeps_saved_snapshot_generic : HistoryKeepsSavedSnapshot .genFixed :=
  fun fs0 saves fs hr => hist_inv .genFixed trivial saves fs0 fs hr

/-- **plugin/input/file/offset.go as fixed** (fresh temp name per save) -/
theorem history_keeps_saved_snapshot_file : HistoryKeepsSavedSnapshot .fileFixed :=
  fun fs0 saves fs hr => hist_inv .fileFixed trivial saves fs0 fs hr

/-- a save killed before its rename leaves a 5-byte temp file; the next save of a 2-byte state
    truncates it and the offsets file gets exactly the 2 bytes -/
example : (runHist .genFixed (init (some [9])).fs
    [([1, 2, 3, 4, 5], [.openTrunc true, .write 5 true, .fsync true, .close true]),
     ([7, 8], [.openTrunc true, .write 2 true, .fsync true, .close true, .rename true])]).map (·.cur)
    = some ⟨some [7, 8], some [7, 8]⟩ := by decide

/-- **why the truncation matters** (seeded change C07-d): the same program opening the temp file
    without O_TRUNC. The left-over 5 bytes are only partly overwritten and `7 8 3 4 5` — a state that
    was never saved — replaces the good offsets file. -/
theorem history_counterexample_without_truncate : ¬ HistoryKeepsSavedSnapshot .genNoTrunc := by
  intro h
  have := h (init (some [9])).fs
    [([1, 2, 3, 4, 5], [.openKeep true, .write 5 true, .fsync true, .close true]),
     ([7, 8], [.openKeep true, .write 2 true, .fsync true, .close true, .rename true])]
    ⟨⟨some [7, 8, 3, 4, 5], some [7, 8, 3, 4, 5]⟩, absent⟩ (by decide)
  revert this
  simp only [crashKill, crashPower]
  decide

/-! ## 3c. One long-lived offsetDB: the formatting buffer carried from save to save -/

/-- full statement for a reset point `r`: saves on ONE object (its buffer `o.buf` and the file
    system carried along), each with its own snapshot, any failure pattern: the offsets file holds
    what it held before or the rendering of exactly ONE of the snapshots — the bytes a save writes
    depend only on the snapshot it took, not on how earlier saves ended. -/
def ObjectHistoryKeepsSavedSnapshot (r : Reset) : Prop :=
  ∀ (fs0 : FS) (buf0 : Bytes) (saves : List (Bytes × List Op)) (fs : FS) (buf : Bytes),
    runObjHist .fileFixed r fs0 buf0 saves = some (fs, buf) →
    (crashKill fs = crashKill fs0 ∨ ∃ sv ∈ saves, crashKill fs = some sv.1) ∧
    (crashPower fs = crashPower fs0 ∨ ∃ sv ∈ saves, crashPower fs = some sv.1)

/-- **the code**: `o.buf = o.buf[:0]` right before the formatting loop -/
theorem object_history_keeps_saved_snapshot : ObjectHistoryKeepsSavedSnapshot .beforeFormat := by
  intro fs0 buf0 saves fs buf hr
  have h := objHist_eq_hist .fileFixed saves fs0 buf0
  rw [hr] at h
  exact hist_inv .fileFixed trivial saves fs0 fs h.symm

/-- what every save hands to `write` is its own snapshot, whatever the buffer held -/
theorem written_is_own_snapshot (buf snap : Bytes) : saveData .beforeFormat buf snap = snap := rfl

/-- a failed write (temp file discarded, good file kept), then a successful save of another snapshot -/
example : (runObjHist .fileFixed .beforeFormat (init (some [9])).fs []
    [([1, 2], [.openTrunc true, .write 0 false, .unlink true, .close true]),
     ([3], [.openTrunc true, .write 1 true, .fsync true, .rename true, .close true])]).map (·.1.cur)
    = some ⟨some [3], some [3]⟩ := by decide

/-- **counterexample** (seeded change C07-f: the reset moved to the end of `save`): the failed save
    leaves `1 2` in the buffer, the next save writes `1 2 3` — every source twice, "duplicate
    inode" on load — and renames it over the good file. -/
theorem object_history_counterexample_reset_at_end : ¬ ObjectHistoryKeepsSavedSnapshot .atEnd := by
  intro h
  have := h (init (some [9])).fs []
    [([1, 2], [.openTrunc true, .write 0 false, .unlink true, .close true]),
     ([3], [.openTrunc true, .write 3 true, .fsync true, .rename true, .close true])]
    ⟨⟨some [1, 2, 3], some [1, 2, 3]⟩, absent⟩ [] (by decide)
  revert this
  simp only [crashKill, crashPower]
  decide

/-! ## 4. Together: what a restarted plugin loads after any save -/

/-- **the property**: previous snapshot `told` in place, a save of `tnew` runs with any failure
    pattern and stops anywhere (completion, process kill or power loss): a fresh `load` of the
    offsets file succeeds and gives exactly the live jobs of the previous or of the new snapshot. -/
theorem crash_safe_file (now : Int) (told tnew : JobTable)
    (hso : Structural told) (hno : NamesOk told) (hsn : Structural tnew) (hnn : NamesOk tnew)
    (ops : List Op) (s : St)
    (hr : run .fileFixed (render tnew) (init (some (render told))) ops = some s) :
    (load now (crashKill s.fs) = .ok (live told) ∨ load now (crashKill s.fs) = .ok (live tnew)) ∧
    (load now (crashPower s.fs) = .ok (live told) ∨ load now (crashPower s.fs) = .ok (live tnew)) := by
  have hg := unsuccessful_write_keeps_good_file (some (render told)) (render tnew) ops s hr
  have ho := load_render_partial now told hso hno
  have hn := load_render_partial now tnew hsn hnn
  constructor
  · rcases hg.1 with h | h <;> simp only [crashKill, h]
    · left; exact ho
    · right; exact hn
  · rcases hg.2 with h | h <;> simp only [crashPower, h]
    · left; exact ho
    · right; exact hn

/-- first save ever: no offsets file yet loads as the empty table -/
theorem crash_safe_file_first (now : Int) (tnew : JobTable) (hsn : Structural tnew) (hnn : NamesOk tnew)
    (ops : List Op) (s : St) (hr : run .fileFixed (render tnew) (init none) ops = some s) :
    (load now (crashKill s.fs) = .ok [] ∨ load now (crashKill s.fs) = .ok (live tnew)) ∧
    (load now (crashPower s.fs) = .ok [] ∨ load now (crashPower s.fs) = .ok (live tnew)) := by
  have hg := unsuccessful_write_keeps_good_file none (render tnew) ops s hr
  have hn := load_render_partial now tnew hsn hnn
  constructor
  · rcases hg.1 with h | h <;> simp only [crashKill, h]
    · left; rfl
    · right; exact hn
  · rcases hg.2 with h | h <;> simp only [crashPower, h]
    · left; rfl
    · right; exact hn

set_option maxRecDepth 8000 in
example : (run .fileFixed (render [exJob]) (init (some (render [nlJob [115]])))
    [.openTrunc true, .write 5 false, .unlink false]).isSome = true := by decide

end FileD.PropsC07
