/-
  C16 — Throttle never passes more than the limit per key and time bucket (in-memory backend).
  Property theorems only (helper lemmas: FileD/Lemmas/Throttle.lean).

  Reading guide. `results cfg State.init ops` are the answers (`pass` / `discard` / `expired` /
  `panic`) of the model of `throttle.Plugin.Do` + the limiters map on an op sequence; an op is an
  event `(key, event time, now, size, fields)` or the expiry of one limiter. `observe ops rs` pairs
  the events with their answers. `passed cfg lk id obs` (Spec) is the amount (count or size) of the
  passed events of limiter key `lk` attributed to bucket `id`, `arrived` the same over all arrivals.

  Hypotheses (`Hyp`, Spec/C16.lean): `cfgOK` (buckets_count ≥ 1, bucket_interval > 0, ≤ 256 rules, distribution
  tables well formed, shares ≥ 0), `nowOK` (`now` never goes back and is ≥ buckets_count ×
  bucket_interval, i.e. the clock is later than 1970-01-01 plus one window: the `minID == 0`
  sentinel of `rebuildBuckets` is then never hit by a set id), and — for the `…_partial`
  statements — `SafeExpiry` (a limiter is missing for an event only if no earlier event of its key
  is attributed to a bucket still inside the retained window).
-/
import FileD.Lemmas.Throttle
namespace FileD.PropsC16
open FileD FileD.Throttle FileD.SpecC16 FileD.ThrottleLemmas

/-! ### refinement: the model is the abstract machine of unbounded counters -/

/-- **core**: for every op sequence satisfying the hypotheses the model answers exactly like the
    abstract machine that keeps one never-reset counter per (limiter key, bucket id, distribution
    column): the ring shift, the resets, the id ↔ slot mapping, the re-mapping of out-of-window
    events to the newest bucket, the limiter map and its (safe) expiry are all invisible. -/
theorem refines_counters (cfg : Cfg) (ops : List Op) (h : Hyp cfg ops) :
    results cfg State.init ops = absResults cfg Cnt.zero ops :=
  hyp_results cfg ops h

example : results cfg1 State.init ops1 = [.pass, .discard, .pass, .pass, .discard] := by decide
example : results cfg1 State.init ops1 = absResults cfg1 Cnt.zero ops1 := refines_counters _ _ hyp1

/-- no index / slice panic of the Go code is reachable -/
theorem run_total (cfg : Cfg) (ops : List Op) (h : Hyp cfg ops) (p : Panic) :
    Res.panic p ∉ results cfg State.init ops := by
  rw [refines_counters cfg ops h]
  exact absResults_no_panic cfg ops Cnt.zero p

example : Res.panic .bounds ∉ results cfg1 State.init ops2 := run_total _ _ hyp2 _

/-! ### the limit per key and bucket -/

/-- **C16, partial**: for every op sequence (event times out of order, in the past, in the future;
    `now` standing still or advancing by any amount), every rule `i` with a limit ≥ 0 and no
    distribution, every throttle key and every bucket id: the amount of passed events of that
    (rule, key) attributed to that bucket is at most the rule's limit. The events counted are those
    whose *first matching* rule is `i` (`limKeyOf`). -/
theorem passed_le_limit_partial (cfg : Cfg) (ops : List Op) (h : Hyp cfg ops)
    (hsz : sizesOK (evs ops) = true) (i : Nat) (r : Rule) (key : Bytes) (id : Int)
    (hr : cfg.rules[i]? = some r) (h0 : 0 ≤ r.limit) (hd : r.distr.isEnabled = false) :
    passed cfg (limKey i key) id (observe ops (results cfg State.init ops)) ≤ r.limit := by
  rw [observed_eq cfg ops h]
  have := abs_passed_le cfg (cfgOK_wf cfg h.hcfg) i r key id hr h0 hd (evs ops) Cnt.zero 0 hsz
    (Int.le_refl _) h0
  omega

example : passed cfg1 (limKey 0 ka) 10 (observe ops1 (results cfg1 State.init ops1)) = 1 := by decide
example : passed cfg1 (limKey 0 ka) 16 (observe ops1 (results cfg1 State.init ops1)) = 1 := by decide
example : passed cfg1 (limKey 0 ka) 10 (observe ops2 (results cfg1 State.init ops2)) ≤ 1 :=
  passed_le_limit_partial cfg1 ops2 hyp2 (by decide) 0 _ ka 10 rfl (by decide) rfl

/-- the expiry hypothesis holds in particular when a key that lost its limiter comes back only
    after the clock moved by a whole retained window since the key's last event — what
    `limiter_expiration ≥ bucket_interval × buckets_count` provides when the clock is the wall clock -/
theorem silent_window_is_safe (cfg : Cfg) (ops : List Op) (hc : 0 < cfg.count)
    (h : SilentExpiry cfg [] [] ops) : SafeExpiry cfg [] [] ops :=
  safe_of_silent cfg hc ops [] [] h

example : SilentExpiry cfg1 [] [] ops2 := by
  simp only [ops2, ev1, SilentExpiry, List.mem_cons, List.not_mem_nil, or_false, false_or,
    true_and, and_true, forall_eq, forall_eq_or_imp, false_implies, implies_true]
  decide

/-- the full statement: the same without any assumption on when limiters expire -/
def PassedLeLimit : Prop :=
  ∀ (cfg : Cfg) (ops : List Op), cfgOK cfg = true →
    nowOK cfg ((cfg.count : Int) * cfg.interval) (evs ops) = true → sizesOK (evs ops) = true →
    ∀ (i : Nat) (r : Rule) (key : Bytes) (id : Int), cfg.rules[i]? = some r → 0 ≤ r.limit →
      r.distr.isEnabled = false →
      passed cfg (limKey i key) id (observe ops (results cfg State.init ops)) ≤ r.limit

/-- witness `opsBad` (Lemmas): limit 1; the bucket is exhausted, the limiter expires although its
    bucket is still retained, the next event of the same bucket passes through a fresh limiter
    (corpus/C16/expiry.case replays it on the implementation: reachable with limiter_expiration <
    bucket_interval × buckets_count before the fix) -/
theorem passed_le_limit_counterexample : ¬ PassedLeLimit := by
  intro h
  have := h cfg1 opsBad (by decide) (by decide) (by decide) 0 _ ka 10 rfl (by decide) rfl
  revert this
  decide

example : results cfg1 State.init opsBad = [.pass, .discard, .expired, .pass] := by decide

/-! ### limit distributions -/

/-- **shares**: with a limit distribution, per (rule, key, bucket): the passed events whose value is
    listed under ratio `j` stay within that ratio's share, and all passed events together stay
    within the sum of the shares (default share included). The shares are inputs: the harness
    reports how Σ shares compares with the rule's limit (float rounding at configuration time). -/
theorem distribution_shares (cfg : Cfg) (ops : List Op) (h : Hyp cfg ops)
    (hsz : sizesOK (evs ops) = true) (i : Nat) (r : Rule) (key : Bytes) (id : Int)
    (hr : cfg.rules[i]? = some r) (h0 : 0 ≤ r.limit) (he : r.distr.isEnabled = true) :
    (∀ j sj, r.distr.limits[j]? = some sj →
        passedListed cfg r.distr (limKey i key) id j (observe ops (results cfg State.init ops)) ≤ sj) ∧
    passed cfg (limKey i key) id (observe ops (results cfg State.init ops)) ≤ sumShares r.distr := by
  have hw := cfgOK_wf cfg h.hcfg
  obtain ⟨_, hmem⟩ := rule_idx_lt cfg hw i r hr
  obtain ⟨hsh1, hsh2⟩ := cfgOK_shares cfg h.hcfg r hmem he
  rw [observed_eq cfg ops h]
  refine ⟨?_, ?_⟩
  · intro j sj hsj
    have := abs_listed_le cfg hw i r key id hr h0 he j sj hsj (evs ops) Cnt.zero 0 hsz (Int.le_refl _)
      (hsh1 sj (List.mem_of_getElem? hsj))
    omega
  · have := abs_total_le cfg hw i r key id hr h0 he (evs ops) Cnt.zero (fun _ => 0) hsz
      (fun κ _ => ⟨Int.le_refl _, shareOf_nonneg _ hsh1 hsh2 κ⟩)
    rw [sumF_zero, sumF_shares] at this
    omega

example : results cfgD State.init opsD = [.pass, .pass, .pass, .discard, .discard, .discard] := by decide
example : passedListed cfgD ⟨fd, [(ve, 0)], [2], 1, true⟩ (limKey 0 ka) 10 0
    (observe opsD (results cfgD State.init opsD)) ≤ 2 :=
  (distribution_shares cfgD opsD hypD (by decide) 0 _ ka 10 rfl (by decide) rfl).1 0 2 rfl

/-- stealing: the default distribution takes the free room of a listed share -/
example : results cfgD State.init [evD vq 100, evD vq 101, evD vq 102, evD vq 103, evD ve 104]
    = [.pass, .pass, .pass, .discard, .discard] := by decide

/-! ### never rejected under the limit -/

/-- **no reject under the limit**: a discarded event (rule with limit ≥ 0, no distribution) saw a
    bucket whose counted arrivals, itself included, exceed the limit. For the count kind: the
    limit had already been reached by earlier arrivals. -/
theorem no_reject_under_limit (cfg : Cfg) (ops : List Op) (h : Hyp cfg ops)
    (a : List (Ev × Bool)) (x : Ev × Bool) (b : List (Ev × Bool))
    (hsplit : observe ops (results cfg State.init ops) = a ++ x :: b) (hx : x.2 = false)
    (ir : Nat × Rule) (hro : ruleOf cfg x.1 = some ir) (hd : ir.2.distr.isEnabled = false)
    (h0 : 0 ≤ ir.2.limit) :
    ir.2.limit < arrived cfg (limKey ir.1 (throttleKey x.1)) (attr cfg x.1) (a.map (·.1) ++ [x.1]) := by
  have hrej : rejectOK cfg [] (observe ops (results cfg State.init ops)) = true := by
    rw [observed_eq cfg ops h]
    exact abs_rejectOK cfg (cfgOK_wf cfg h.hcfg) (evs ops) Cnt.zero [] (fun _ _ _ _ _ _ _ => rfl)
  have := rejectOK_spec cfg _ [] hrej a x b hsplit hx ir hro hd h0
  simpa using this

example : rejectOK cfg1 [] (observe ops1 (results cfg1 State.init ops1)) = true := by decide

/-! ### keys never share a budget -/

/-- different rules or different throttle keys have different limiters (at most 256 rules: the
    rule index is one byte of the limiter key) -/
theorem limiter_keys_distinct (i j : Nat) (k1 k2 : Bytes) (hi : i < 256) (hj : j < 256)
    (h : limKey i k1 = limKey j k2) : i = j ∧ k1 = k2 := limKey_inj i j k1 k2 hi hj h

example : limKey 0 ka ≠ limKey 1 ka := by decide

/-- the rule index byte wraps: rule 256 would use the limiter of rule 0 (hence `≤ 256` in `cfgOK`) -/
theorem rule_index_byte_wraps (k : Bytes) : limKey 256 k = limKey 0 k := by
  simp [limKey]

/-- **keys are independent**: the answers given to the events of one limiter key are the answers
    the throttle gives when it only ever sees that key's events (and that key's expiries) -/
theorem keys_independent (cfg : Cfg) (ops : List Op) (h : Hyp cfg ops) (k : Bytes) :
    answersFor cfg k ops (results cfg State.init ops)
      = answersFor cfg k (onKey cfg k ops) (results cfg State.init (onKey cfg k ops)) := by
  have h' : Hyp cfg (onKey cfg k ops) :=
    ⟨h.hcfg, nowOK_onKey cfg k ops _ h.hnow,
     safe_onKey cfg k ops [] [] [] [] (fun x => x) (fun _ x => x) h.hsafe⟩
  rw [refines_counters cfg ops h, refines_counters cfg _ h']
  exact abs_keys_independent cfg k ops Cnt.zero Cnt.zero (fun _ _ => rfl)

example : answersFor cfg1 (limKey 0 ka) ops1 (results cfg1 State.init ops1)
    = [.pass, .discard, .pass, .discard] := by decide
example : onKey cfg1 (limKey 0 ka) ops1 = [ev1 ka 100 100, ev1 ka 105 105, ev1 ka 165 165, ev1 ka 100 166] := by
  decide

/-! ### the bucket ring -/

/-- **buckets reset on shift**: when the clock has left the window, `rebuild` keeps exactly the
    counters of the bucket ids that are in both windows and zeroes every bucket that enters the
    window (`slotOf` reads a limiter as a function from bucket ids to counters, 0 outside its
    window); the new window ends at the clock's bucket. -/
theorem buckets_reset_on_shift (count w : Nat) (I : Int) (l : Lim) (now ts : Int) (hc : 0 < count)
    (hs : Shape count w l.b) (hr : Ready count l) (hle : l.maxID ≤ timeToBucketID I now) :
    ∃ l1 id, rebuild count I l now ts = .ok (l1, id) ∧
      l1.maxID = timeToBucketID I now ∧ l1.minID = timeToBucketID I now - count + 1 ∧
      (∀ x d, l1.minID ≤ x → x ≤ l.maxID → slotOf l1 x d = slotOf l x d) ∧
      (∀ x d, l.maxID < x → slotOf l1 x d = 0) := by
  obtain ⟨l1, h1, _, _, _, _, h6, h7, h8⟩ := rebuild_ok count w I l now ts hc hs (Or.inr ⟨hr, hle⟩)
  refine ⟨l1, _, h1, h6, h7, ?_, ?_⟩
  · intro x d hx1 hx2
    rw [h8, if_pos ⟨hx1, by omega⟩]
  · intro x d hx
    rw [h8]
    split
    · exact slotOf_out l x d (by omega)
    · rfl

/-- a ring `[5, 7]` over ids 10..11 shifted by one bucket becomes `[7, 0]` over ids 11..12 -/
example : rebuild 2 10 ⟨1, .count, Distr.empty, 10, 11, [[5], [7]]⟩ 125 125
    = .ok (⟨1, .count, Distr.empty, 11, 12, [[7], [0]]⟩, 12) := by rfl

/-- events timed outside the retained window are attributed to the newest bucket, events inside
    to their own: the id `rebuildBuckets` computes with Go's truncating division is the spec's
    `attr` (floor division) as soon as the window starts after bucket 0 -/
theorem attribution (cfg : Cfg) (e : Ev) (hI : 0 < cfg.interval) (hc0 : 0 < cfg.count)
    (hc : (cfg.count : Int) ≤ bucketOf cfg e.now) :
    idIn cfg.count (bucketOf cfg e.now) (timeToBucketID cfg.interval e.ts) = attr cfg e ∧
    bucketOf cfg e.now - cfg.count + 1 ≤ attr cfg e ∧ attr cfg e ≤ bucketOf cfg e.now := by
  exact ⟨idIn_eq_attr cfg e hI hc, attr_window cfg e hc0⟩

example : attr cfg1 ⟨ka, -5, 100, 1, []⟩ = 10 ∧ attr cfg1 ⟨ka, 95, 100, 1, []⟩ = 9 ∧
    attr cfg1 ⟨ka, 85, 100, 1, []⟩ = 10 ∧ attr cfg1 ⟨ka, 115, 100, 1, []⟩ = 10 := by decide

/-- the `minID == 0` sentinel: a limiter whose set minID is 0 is re-initialised from the clock
    without any reset - the reason for `nowOK`'s lower bound on the clock -/
example : rebuild 2 10 ⟨1, .count, Distr.empty, 0, 1, [[5], [7]]⟩ 25 25
    = .ok (⟨1, .count, Distr.empty, 1, 2, [[5], [7]]⟩, 2) := by rfl

/-! ### unlimited rules -/

/-- a limiter with a negative limit lets every event through and does not touch its buckets -/
theorem limit_negative_allows (count : Nat) (interval : Int) (l : Lim) (e : Ev) (h : l.limit < 0) :
    isAllowed count interval l e = .ok (l, true) := by
  simp [isAllowed, h]; rfl

example : isAllowed 3 10 (newLim ⟨3, 10, []⟩ ⟨[], -1, .count, Distr.empty⟩) ⟨[], 5, 5, 1, []⟩
    = .ok (newLim ⟨3, 10, []⟩ ⟨[], -1, .count, Distr.empty⟩, true) :=
  limit_negative_allows _ _ _ _ (by decide)

/-- in a run: every event whose first matching rule has a negative limit (or that no rule
    matches) passes -/
theorem unlimited_rules_pass (cfg : Cfg) (ops : List Op) (h : Hyp cfg ops) :
    ∀ x ∈ observe ops (results cfg State.init ops), mustPassOK cfg x = true := by
  rw [observed_eq cfg ops h]
  exact abs_mustPass cfg (evs ops) Cnt.zero

example : results cfgU State.init ops1 = [.pass, .pass, .pass, .pass, .pass] := by decide

/-! ### the limiters map: generations and maintenance on the wall clock -/

/-- **maintenance is safe**: when one clock drives events and maintenance (`ClockOK`, `δ` = how
    stale a generation stamp can be = the longest gap between maintenance iterations) and the
    effective expiration covers the bucket window plus that staleness, the deletions of
    `limitersMap.maintenance` (with `getOrAdd` refreshing the generation on every access) satisfy
    the expiry hypothesis of every `…_partial` theorem above -/
theorem maintenance_is_safe (cfg : Cfg) (exp δ g0 : Int) (ops : List MOp) (hc : cfgOK cfg = true)
    (hclk : ClockOK cfg δ g0 ((cfg.count : Int) * cfg.interval) ops)
    (hexp : (cfg.count : Int) * cfg.interval + δ ≤ exp * 1000) :
    Hyp cfg (expand cfg exp true ⟨g0, []⟩ ops) :=
  hyp_of_clock cfg exp δ g0 ops hc hclk hexp

/-- **per key and bucket passes ≤ limit across maintenance ticks**: idle keys lose their limiter,
    busy keys keep it, re-created limiters start empty only when nothing of the key's history is
    retained - the passed amount per (rule, key, bucket) never exceeds the rule's limit -/
theorem passed_le_limit_across_ticks (cfg : Cfg) (exp δ g0 : Int) (ops : List MOp) (hc : cfgOK cfg = true)
    (hclk : ClockOK cfg δ g0 ((cfg.count : Int) * cfg.interval) ops)
    (hexp : (cfg.count : Int) * cfg.interval + δ ≤ exp * 1000) (hsz : sizesOK (mevs ops) = true)
    (i : Nat) (r : Rule) (key : Bytes) (id : Int)
    (hr : cfg.rules[i]? = some r) (h0 : 0 ≤ r.limit) (hd : r.distr.isEnabled = false) :
    passed cfg (limKey i key) id
      (observe (expand cfg exp true ⟨g0, []⟩ ops) (results cfg State.init (expand cfg exp true ⟨g0, []⟩ ops)))
      ≤ r.limit :=
  passed_le_limit_partial cfg _ (hyp_of_clock cfg exp δ g0 ops hc hclk hexp)
    (by rw [evs_expand]; exact hsz) i r key id hr h0 hd

example : results cfgT State.init (expand cfgT 14 true ⟨100, []⟩ opsBusy)
    = [.pass, .discard, .discard, .discard, .pass, .discard] := by decide
example : passed cfgT (limKey 0 ka) 11 (observe (expand cfgT 14 true ⟨100, []⟩ opsBusy)
    (results cfgT State.init (expand cfgT 14 true ⟨100, []⟩ opsBusy))) ≤ 1 :=
  passed_le_limit_across_ticks cfgT 14 4000 100 opsBusy (by decide) clockBusy (by decide) (by decide)
    0 _ ka 11 rfl (by decide) rfl

/-- **a key accessed at least once per expiration is never deleted** (`BusyKey`: at every
    maintenance iteration `t`, `t - g < exp` for the generation `g` of the key's last access):
    no maintenance iteration produces an `expire` of its limiter, so its buckets persist -/
theorem busy_key_never_expires (cfg : Cfg) (exp g0 : Int) (k : Bytes) (ops : List MOp)
    (hb : BusyKey cfg exp k g0 none ops) : Op.expire k ∉ expand cfg exp true ⟨g0, []⟩ ops :=
  busy_never_expired cfg exp k ops ⟨g0, []⟩ none (fun _ h => by simp at h) hb

example : BusyKey cfgT 14 (limKey 0 ka) 100 none opsBusy := by
  simp only [opsBusy, evT, BusyKey]
  decide
/-- an idle key does expire: its limiter is dropped 14 µs after its last generation -/
example : expand cfgT 14 true ⟨100, []⟩ [evT 100000, .tick 104, .tick 113, .tick 114]
    = [.ev ⟨ka, 100000, 100000, 1, []⟩, .expire (limKey 0 ka)] := by decide

/-- the same statement for a `getOrAdd` that does not store the generation on access
    (`refresh = false`: a limiter keeps the generation of its creation) -/
def PassedLeLimitWithoutRefresh : Prop :=
  ∀ (cfg : Cfg) (exp δ g0 : Int) (ops : List MOp), cfgOK cfg = true →
    ClockOK cfg δ g0 ((cfg.count : Int) * cfg.interval) ops →
    (cfg.count : Int) * cfg.interval + δ ≤ exp * 1000 → sizesOK (mevs ops) = true →
    ∀ (i : Nat) (r : Rule) (key : Bytes) (id : Int), cfg.rules[i]? = some r → 0 ≤ r.limit →
      r.distr.isEnabled = false →
      passed cfg (limKey i key) id
        (observe (expand cfg exp false ⟨g0, []⟩ ops) (results cfg State.init (expand cfg exp false ⟨g0, []⟩ ops)))
        ≤ r.limit

/-- the refresh is necessary: without it a key in continuous use loses its limiter one expiration
    after its creation and its current, exhausted bucket gets a second budget (`opsBusy`: the
    limiter is dropped at 116 µs, the event at 116.5 µs passes in bucket 11 again) -/
theorem gen_not_refreshed_counterexample : ¬ PassedLeLimitWithoutRefresh := by
  intro h
  have := h cfgT 14 4000 100 opsBusy (by decide) clockBusy (by decide) (by decide) 0 _ ka 11 rfl
    (by decide) rfl
  revert this
  decide

example : results cfgT State.init (expand cfgT 14 false ⟨100, []⟩ opsBusy)
    = [.pass, .discard, .discard, .discard, .pass, .expired, .pass] := by decide

/-- what the fix provides: the effective expiration `Start` hands to the map (configured value
    raised to `bucket_interval × buckets_count`, in µs) covers the bucket window up to the µs
    truncation - but not the staleness `δ` of a stamp (known finding C16-expiry-stamp-granularity) -/
theorem effective_expiration_covers_window (expNs interval : Int) (count : Nat) (h1 : 0 ≤ expNs)
    (h2 : 0 ≤ interval) : interval * (count : Int) ≤ effExp expNs interval count * 1000 + 999 := by
  unfold effExp
  have h3 : 0 ≤ interval * (count : Int) := Int.mul_nonneg h2 (by omega)
  rw [Int.tdiv_eq_ediv_of_nonneg (by omega)]
  omega

example : effExp 1000000 2000000000 1 = 2000000 := by decide

/-! ### the oracle of the correspondence check -/

/-- the executable oracle `./check` applies to the implementation's answers accepts the model's
    answers on every op sequence inside the hypotheses (so an oracle failure on the implementation
    is a difference from the model or a violated hypothesis, never an artefact of the oracle) -/
theorem oracle_accepts_model (cfg : Cfg) (ops : List Op) (h : Hyp cfg ops)
    (hsz : sizesOK (evs ops) = true) (b : Bool) :
    verdict cfg (observe ops (results cfg State.init ops)) b = Verdict.ok := by
  rw [observed_eq cfg ops h]
  exact abs_verdict cfg h.hcfg (evs ops) h.hnow hsz b

example : verdict cfg1 (observe ops1 (results cfg1 State.init ops1)) true = Verdict.ok := by decide
example : verdict cfg1 (observe opsBad (results cfg1 State.init opsBad)) false = Verdict.overLimit := by decide

end FileD.PropsC16
