/-
  C16 — Throttle never passes more than the limit per key and time bucket (in-memory backend).
  Property theorems only (helper lemmas: FileD/Lemmas/Throttle.lean).
-/
import FileD.Model.Throttle
import FileD.Spec.C16
namespace FileD.PropsC16
open FileD FileD.Throttle FileD.SpecC16

/-- a limiter with a negative limit lets every event through and does not touch its buckets -/
theorem limit_negative_allows (count : Nat) (interval : Int) (l : Lim) (e : Ev) (h : l.limit < 0) :
    isAllowed count interval l e = .ok (l, true) := by
  simp [isAllowed, h]; rfl

example : isAllowed 3 10 (newLim ⟨3, 10, []⟩ ⟨[], -1, .count, Distr.empty⟩) ⟨[], 5, 5, 1, []⟩
    = .ok (newLim ⟨3, 10, []⟩ ⟨[], -1, .count, Distr.empty⟩, true) :=
  limit_negative_allows _ _ _ _ (by decide)

end FileD.PropsC16
