/-
  C01 — Commit frontier safety: nothing is committed past an unfinished event.
  Property theorems only; the invariant and its lemmas are in FileD/Lemmas/Core.lean.
-/
import FileD.Lemmas.Core
import FileD.Lemmas.Sys
import FileD.Lemmas.CoreKids
import FileD.Spec.C01
namespace FileD.PropsC01
open FileD.Core

/-- an event is finished for the output: acknowledged by a send that returned nil, or reported
    through the error callback after the configured retries (C09: "the failure is reported once
    through the error callback and the events are committed") -/
def Finished (s : State) (e : Ev) : Prop := e ∈ s.acked ∨ e ∈ s.gaveUp

/-- the frontier property of a state: every commit notification so far concerns a finished event
    and every earlier event of its stream is finished or was deliberately dropped -/
def Safe (s : State) : Prop :=
  ∀ e ∈ s.commits, Finished s e ∧
    ∀ e' ∈ s.accepted, e'.st = e.st → e'.seq < e.seq → Finished s e' ∨ e' ∈ s.dropped

/-- **C01 (full statement)**: every reachable state of every configuration is safe. -/
def FrontierSafe : Prop := ∀ (hasDQ : Bool) (ops : List Op) (s : State), run (init hasDQ) ops = some s → Safe s

/-- the frontier property follows from the invariant of the commit path -/
theorem safe_of_cinv {s : State} (inv : CInv s) : Safe s := by
  intro e he
  have hpre : ∃ rest, s.main.added = s.commits ++ rest := by
    refine ⟨s.main.committing ++ s.main.full.flatMap (·.evs) ++ s.main.cur, ?_⟩
    rw [← inv.layout, ← inv.loop]; simp [List.append_assoc]
  obtain ⟨rest, hrest⟩ := hpre
  have hdone : e ∈ s.main.done := by rw [← inv.loop]; exact List.mem_append_left _ he
  refine ⟨inv.doneFin e hdone, ?_⟩
  intro e' he' hst hlt
  obtain ⟨pre, post, hsplit⟩ := List.append_of_mem he
  have hadd : s.main.added = pre ++ e :: (post ++ rest) := by rw [hrest, hsplit]; simp
  rcases inv.ordered pre e (post ++ rest) hadd e' he' hst hlt with h | h
  · exact Or.inr h
  · left
    have : e' ∈ s.main.done := by
      rw [← inv.loop]; apply List.mem_append_left; rw [hsplit]; exact List.mem_append_left _ h
    exact inv.doneFin e' this

/-- **C01, proved part**: without a dead queue, for every interleaving of readers, processors,
    batch workers and flush timers (`ops` is any list), any batch sizes / worker counts / retry
    and failure patterns: whenever the input has been told that `e` is committed, the output has
    finished `e`, and every event read earlier from the same source and stream is finished or
    was deliberately dropped. (Since the statement holds in the state right after each `commit`
    op and `acked`, `gaveUp`, `dropped` only grow, it holds at the moment of the notification.) -/
theorem frontier_safe_partial (ops : List Op) (s : State) (hr : run (init false) ops = some s) : Safe s :=
  safe_of_cinv (cinv_run cinv_init hr)

/-- **C01 for the composed system** (commit path + one stream/processor machine per stream,
    Model/Sys.lean): here `add` has NO hand-over guard — events reach the batcher whenever the
    stream layer's `out` step fires — and the frontier property still holds for every
    interleaving of both layers' steps. The order in which events of a stream reach the output
    is no longer an assumption of the theorem; it is derived from the stream protocol. -/
theorem sys_frontier_safe (ops : List Sys.Op) (s : Sys.State)
    (hr : Sys.run (Sys.init false) ops = some s) : Safe s.core :=
  safe_of_cinv (Sys.sinv_run Sys.sinv_init hr).cinv

/-- non-vacuity of the composed theorem: put / attach / get / out through both layers, then
    seal, send, commit -/
example : ((Sys.run (Sys.init false)
    [.put ⟨0, 1, 10⟩, .stream 0 .charge, .stream 0 .pop, .stream 0 .attach, .stream 0 (.get 1), .out ⟨0, 1, 10⟩,
     .core (.sealB false 0), .core (.sendOk false 0 [⟨0, 1, 10⟩]), .core (.bcommit false 0),
     .core (.commit ⟨0, 1, 10⟩)]).map (·.core.commits)) = some [⟨0, 1, 10⟩] := by decide

/-- the composed system refuses to hand over event 2 while event 1 is still in hand -/
example : Sys.run (Sys.init false)
    [.put ⟨0, 1, 10⟩, .stream 0 .charge, .put ⟨0, 2, 20⟩, .stream 0 .pop, .stream 0 .attach, .stream 0 (.get 1),
     .out ⟨0, 2, 20⟩] = none := by decide

/-- corollary: if no batch is ever given up (the output retries for ever or exits the process on
    exhaustion — `fatal_on_failed_insert`), "finished" is literally "acknowledged" -/
theorem frontier_acked_if_never_given_up (ops : List Op) (s : State) (hr : run (init false) ops = some s)
    (hg : s.gaveUp = []) :
    ∀ e ∈ s.commits, e ∈ s.acked ∧
      ∀ e' ∈ s.accepted, e'.st = e.st → e'.seq < e.seq → e' ∈ s.acked ∨ e' ∈ s.dropped := by
  intro e he
  obtain ⟨h1, h2⟩ := frontier_safe_partial ops s hr e he
  simp only [Finished, hg, List.not_mem_nil, or_false] at h1 h2
  exact ⟨h1, h2⟩

/-- `restart_never_skips`: resuming a stream after any committed event re-reads every event
    that was neither finished nor deliberately dropped (they all have larger sequence numbers). -/
theorem restart_never_skips (ops : List Op) (s : State) (hr : run (init false) ops = some s)
    (e : Ev) (he : e ∈ s.commits) (e' : Ev) (he' : e' ∈ s.accepted) (hst : e'.st = e.st)
    (hunf : ¬ (Finished s e' ∨ e' ∈ s.dropped)) : e.seq ≤ e'.seq := by
  have := (frontier_safe_partial ops s hr e he).2 e' he' hst
  exact Nat.le_of_not_lt fun hlt => hunf (this hlt)

/-! non-vacuity: a run with two streams, a failed send that is retried, a drop, and commits -/
def demoOps : List Op :=
  [.accept ⟨0, 1, 10⟩, .accept ⟨1, 1, 100010⟩, .accept ⟨0, 2, 20⟩, .add false ⟨0, 1, 10⟩,
   .drop ⟨0, 2, 20⟩, .add false ⟨1, 1, 100010⟩, .sealB false 0, .accept ⟨0, 3, 30⟩, .add false ⟨0, 3, 30⟩,
   .sendFail false 0 [⟨0, 1, 10⟩, ⟨1, 1, 100010⟩], .sealB false 1, .sendOk false 1 [⟨0, 3, 30⟩],
   .sendOk false 0 [⟨0, 1, 10⟩, ⟨1, 1, 100010⟩], .bcommit false 0, .commit ⟨0, 1, 10⟩, .commit ⟨1, 1, 100010⟩,
   .bcommit false 1, .commit ⟨0, 3, 30⟩]

example : ((run (init false) demoOps).map (·.commits)) = some [⟨0, 1, 10⟩, ⟨1, 1, 100010⟩, ⟨0, 3, 30⟩] := by decide

/-- the model refuses to commit batch 1 before batch 0 (commitBatch's sequence wait) -/
example : run (init false) (demoOps.take 13 ++ [.bcommit false 1]) = none := by decide


/-! ### split parents and their children -/

/-- **a split parent is committed only after its children were sent**: for every interleaving
    (no dead queue), when the input is told that a parent event `e` (processor.Spawn made it
    child-parent; Batch.ForEach skips it) is committed, every child of `e` that was handed to the
    output sits in a batch whose send returned nil or that was given up through the error
    callback. Children reach the batcher before their parent and batches are committed in
    sealing order, each only after its own send. -/
theorem parent_commit_after_children (ops : List Op) (s : State) (hr : run (init false) ops = some s) :
    ∀ e ∈ s.commits, ∀ k, (e, k) ∈ s.kidsAdded → (e, k) ∈ s.kidsDone := by
  obtain ⟨cinv, kinv⟩ := ckinv_run cinv_init kinv_init hr
  intro e he k hk
  have hdone : e ∈ s.main.done := by rw [← cinv.loop]; exact List.mem_append_left _ he
  have := kinv.before [] (shape s.main.full) (by simp) e (by simpa using hdone) k hk
  exact kinv.loopOK _ (by simpa using this)

/-- non-vacuity: parent 10 with two children; the children's batch is sent, the parent's batch
    has nothing iterable and is committed without a send -/
example : ((run (init false)
    [.accept ⟨0, 1, 10⟩, .spawn ⟨0, 1, 10⟩ 0, .addKid ⟨0, 1, 10⟩ 0, .spawn ⟨0, 1, 10⟩ 1, .addKid ⟨0, 1, 10⟩ 1,
     .sealB false 0, .add false ⟨0, 1, 10⟩, .sealB false 1, .sendOk false 0 [], .bcommit false 0, .bcommit false 1,
     .commit ⟨0, 1, 10⟩]).map (fun s => (s.commits, s.kidsDone))) =
    some ([⟨0, 1, 10⟩], [(⟨0, 1, 10⟩, 0), (⟨0, 1, 10⟩, 1)]) := by decide

/-- the model refuses to commit the children's batch before its send returned -/
example : run (init false)
    [.accept ⟨0, 1, 10⟩, .spawn ⟨0, 1, 10⟩ 0, .addKid ⟨0, 1, 10⟩ 0, .sealB false 0, .bcommit false 0] = none := by decide

/-! ### dead queue: the full statement is false of the unchanged code -/

/-- witness (replayed on the real pipeline from corpus/C01): batch [10, 20] exhausts its retries
    and is routed to the dead queue; the next main batch [30, 40] of the same stream is committed
    first. -/
def dqWitness : List Op :=
  [.accept ⟨0, 1, 10⟩, .accept ⟨0, 2, 20⟩, .add false ⟨0, 1, 10⟩, .add false ⟨0, 2, 20⟩, .sealB false 0,
   .accept ⟨0, 3, 30⟩, .accept ⟨0, 4, 40⟩, .add false ⟨0, 3, 30⟩, .add false ⟨0, 4, 40⟩, .sealB false 1,
   .sendFail false 0 [⟨0, 1, 10⟩, ⟨0, 2, 20⟩], .giveUp false 0 [⟨0, 1, 10⟩, ⟨0, 2, 20⟩],
   .add true ⟨0, 1, 10⟩, .add true ⟨0, 2, 20⟩, .bcommit false 0,
   .sendOk false 1 [⟨0, 3, 30⟩, ⟨0, 4, 40⟩], .bcommit false 1, .commit ⟨0, 3, 30⟩]

theorem frontier_safe_counterexample_dq : ¬ FrontierSafe := by
  intro h
  have hs : (run (init true) dqWitness).isSome = true := by decide
  obtain ⟨s, hrun⟩ := Option.isSome_iff_exists.1 hs
  have hsafe := h true dqWitness s hrun
  have hc : (⟨0, 3, 30⟩ : Ev) ∈ s.commits := by
    have : (run (init true) dqWitness).map (·.commits) = some [⟨0, 3, 30⟩] := by decide
    rw [hrun] at this; simp at this; rw [this]; simp
  have hacc : (⟨0, 1, 10⟩ : Ev) ∈ s.accepted := by
    have : (run (init true) dqWitness).map (·.accepted) = some [⟨0, 1, 10⟩, ⟨0, 2, 20⟩, ⟨0, 3, 30⟩, ⟨0, 4, 40⟩] := by decide
    rw [hrun] at this; simp at this; rw [this]; simp
  have hbad := (hsafe _ hc).2 _ hacc rfl (by decide)
  have hA : (run (init true) dqWitness).map (·.acked) = some [⟨0, 3, 30⟩, ⟨0, 4, 40⟩] := by decide
  have hG : (run (init true) dqWitness).map (·.gaveUp) = some [] := by decide
  have hD : (run (init true) dqWitness).map (·.dropped) = some [] := by decide
  rw [hrun] at hA hG hD; simp at hA hG hD
  simp [Finished, hA, hG, hD] at hbad

end FileD.PropsC01
