/-
  C17 — Mask hides every matched secret and touches nothing else.
  Property theorems only (helper lemmas: FileD/Lemmas/Mask.lean).
-/
import FileD.Model.Mask
import FileD.Spec.C17
namespace FileD.PropsC17
open FileD FileD.Mask FileD.SpecC17

/-- no matches: the value is not touched and the mask does not count as applied -/
theorem mask_value_no_match (m : MaskCfg) (value buf : Bytes) :
    maskValue m [] value buf = .ok (buf, false) := rfl

end FileD.PropsC17
