/-
  C17 — Mask hides every matched secret and touches nothing else.
  Property theorems only (helper lemmas: FileD/Lemmas/Mask.lean).

  `maskValue`, `processMask`, `trav`, `doEvent` with `fixedImpl` are the model of the code that is
  in /repo now (four `fix:` commits); `Orig.maskValue` / `origImpl` model the code as it was found.
  For each defect the full statement is a `def … : Prop`, proved of the repaired model and refuted
  of the original one by a concrete witness (the same witnesses are replayed on the real plugin
  from corpus/C17/defects.case).

  Assumption about the regexp library (`re2Shape`, checked on every generated case): every match
  has an index pair per group, group 0 lies within the value after the previous match, every other
  group either did not take part (negative index) or lies within group 0.
-/
import FileD.Lemmas.Mask
namespace FileD.PropsC17
open FileD FileD.GoSlice FileD.Mask FileD.SpecC17 FileD.MaskLemmas

/-! ## 1. One mask on one value -/

/-- **full statement** for an implementation `mv` of `maskValue`: on every answer of the regexp
    library that has the assumed shape — any subset and order of selected groups, nested,
    alternated, optional, empty, repeated — no panic, and the result is the value with exactly
    the sections of the selected groups replaced; "masked" is reported iff there was a match -/
def MaskValueSpec (mv : MaskCfg → Matches → Bytes → Bytes → GoM (Bytes × Bool)) : Prop :=
  ∀ (m : MaskCfg) (value buf : Bytes) (nsub : Nat) (idx : Matches),
    groupsOk m.groups nsub = true → re2Shape nsub value.length 0 idx = true →
    mv m idx value buf = .ok (if idx.isEmpty then (buf, false) else (maskedValue m idx value, true))

/-- the repaired `maskValue` satisfies the full statement -/
theorem mask_value_spec : MaskValueSpec maskValue :=
  fun m value buf nsub idx hg hs => maskValue_eq m value buf nsub idx hg hs

/-- `(a)|(b)` groups [1,2] on "xax" (the witness that made the original code panic) -/
example : maskValue { groups := [1, 2] } [[1, 2, 1, 2, -1, -1]] [120, 97, 120] []
    = .ok ([120, 42, 120], true) := by rfl

/-- the repaired `maskValue` never panics, for ALL oracle outputs of the assumed shape -/
theorem mask_never_panics (m : MaskCfg) (value buf : Bytes) (nsub : Nat) (idx : Matches)
    (hg : groupsOk m.groups nsub = true) (hs : re2Shape nsub value.length 0 idx = true) :
    ∃ r, maskValue m idx value buf = .ok r :=
  ⟨_, maskValue_eq m value buf nsub idx hg hs⟩

/-- nested groups `(a(b))` groups [2,1] on "xabx" -/
example : ∃ r, maskValue { groups := [2, 1] } [[1, 3, 1, 3, 2, 3]] [120, 97, 98, 120] [] = .ok r :=
  mask_never_panics _ _ _ 2 _ (by decide) (by decide)

/-- **partial theorem about the ORIGINAL `maskValue`**: when the selected groups that took part
    are, in listing order and match after match, ascending and non-overlapping (`AscFrom`) and the
    last listed group of the last match took part, the original code also computes the spec -/
theorem mask_value_spec_partial (m : MaskCfg) (value buf : Bytes) (idx : Matches)
    (hne : m.groups ≠ []) (hidx : idx ≠ [])
    (hsome : ∀ index ∈ idx, ∀ g ∈ m.groups, (groupOf index g).isSome)
    (hasc : AscFrom m.groups value.length 0 idx)
    (hlast : ∀ index, idx.getLast? = some index → LastPresent m.groups index) :
    Orig.maskValue m idx value buf = .ok (maskedValue m idx value, true) :=
  orig_maskValue_eq m value buf idx hne hidx hsome hasc hlast

/-- `(a)(b)?` groups [1,2] on "ab": ascending, both took part -/
example : Orig.maskValue { groups := [1, 2] } [[0, 2, 0, 1, 1, 2]] [97, 98] [] = .ok ([42, 42], true) := by rfl

/-- defect 1: the last selected group did not take part → `value[-1:]` -/
theorem orig_counterexample_absent_group : ¬ MaskValueSpec Orig.maskValue := by
  intro h
  have := h { groups := [1, 2] } [120, 97, 120] [] 2 [[1, 2, 1, 2, -1, -1]] (by decide) (by decide)
  have e : Orig.maskValue { groups := [1, 2] } [[1, 2, 1, 2, -1, -1]] [120, 97, 120] [] = .error .bounds := by rfl
  rw [e] at this
  cases this

/-- defect 2a: groups listed against their positions (`(a)(b)` groups [2,1] on "xabx") -/
theorem orig_counterexample_descending : ¬ MaskValueSpec Orig.maskValue := by
  intro h
  have := h { groups := [2, 1] } [120, 97, 98, 120] [] 2 [[1, 3, 1, 2, 2, 3]] (by decide) (by decide)
  have e : Orig.maskValue { groups := [2, 1] } [[1, 3, 1, 2, 2, 3]] [120, 97, 98, 120] [] = .error .bounds := by rfl
  rw [e] at this
  cases this

/-- defect 2b: nested groups (`(a(b))` groups [1,2] on "xabx") -/
theorem orig_counterexample_nested : ¬ MaskValueSpec Orig.maskValue := by
  intro h
  have := h { groups := [1, 2] } [120, 97, 98, 120] [] 2 [[1, 3, 1, 3, 2, 3]] (by decide) (by decide)
  have e : Orig.maskValue { groups := [1, 2] } [[1, 3, 1, 3, 2, 3]] [120, 97, 98, 120] [] = .error .bounds := by rfl
  rw [e] at this
  cases this

/-! ### what the sections are (the spec's `sections`, said without the sorting) -/

/-- every selected group that took part in a match lies inside one section of that match:
    no byte of a selected group is outside the replaced ranges -/
theorem sections_cover_selected (groups : List Nat) (index : Match) (r : Range)
    (h : r ∈ selRanges groups index) : ∃ sec ∈ sections groups index, Within r sec :=
  sections_cover groups index r h

example : ∃ sec ∈ sections [1, 2] [0, 2, 0, 2, 1, 2], Within (1, 2) sec :=
  sections_cover_selected _ _ _ (by decide)

/-- every section is a union of selected groups: it starts where one starts, ends where one
    ends and every position in it belongs to one — nothing else is replaced -/
theorem sections_nothing_else (groups : List Nat) (index : Match) (sec : Range)
    (h : sec ∈ sections groups index) : Tight (selRanges groups index) sec :=
  sections_tight groups index sec h

/-- the sections of a whole well-shaped answer are ordered, disjoint and inside the value -/
theorem sections_ordered (groups : List Nat) (nsub : Nat) (value : Bytes) (idx : Matches)
    (hg : groupsOk groups nsub = true) (hs : re2Shape nsub value.length 0 idx = true) :
    Chain 0 (allSections groups idx) value.length :=
  allSections_chain hg hs (by omega)

example : Chain 0 (allSections [2, 1] [[1, 3, 1, 2, 2, 3]]) ([120, 97, 98, 120] : Bytes).length :=
  sections_ordered _ 2 _ _ (by decide) (by decide)

/-- **secret removed**: what the repaired `maskValue` returns does not depend on the bytes inside
    the sections. Two values of the same length that agree outside the sections (and, in asterisk
    mode, have as many runes in each section) are masked to the same bytes. Together with
    `sections_cover_selected`: no byte of a matched selected group survives. -/
theorem secret_removed (m : MaskCfg) (nsub : Nat) (idx : Matches) (v1 v2 buf : Bytes)
    (hlen : v1.length = v2.length) (hne : idx ≠ [])
    (hg : groupsOk m.groups nsub = true) (hs : re2Shape nsub v1.length 0 idx = true)
    (hout : ∀ i : Nat, (∀ sec ∈ allSections m.groups idx, ¬ (sec.1 ≤ (i : Int) ∧ (i : Int) < sec.2)) → v1[i]? = v2[i]?)
    (hrunes : m.mode = .mask → ∀ sec ∈ allSections m.groups idx,
      runeCount (segment v1 sec.1 sec.2) = runeCount (segment v2 sec.1 sec.2)) :
    maskValue m idx v1 buf = maskValue m idx v2 buf := by
  have hs2 : re2Shape nsub v2.length 0 idx = true := by rw [← hlen]; exact hs
  rw [maskValue_eq m v1 buf nsub idx hg hs, maskValue_eq m v2 buf nsub idx hg hs2]
  have he : idx.isEmpty = false := by cases idx <;> simp_all
  simp only [he, Bool.false_eq_true, ↓reduceIte, maskedValue]
  congr 2
  apply replaceFrom_congr m v1 v2 v1.length _ 0 (Int.le_refl _) (allSections_chain hg hs (by omega))
  · intro i _ hn; exact hout i hn
  · intro sec hm
    unfold replacement
    cases hmode : m.mode with
    | replace => rfl
    | cut => rfl
    | mask => simp only; rw [hrunes hmode sec hm]

/-- "xsecretx" and "xSECRETx" with the match on bytes 1..7: the same masked value -/
example : maskValue { groups := [1] } [[1, 7, 1, 7]] [120, 115, 101, 99, 114, 101, 116, 120] []
    = maskValue { groups := [1] } [[1, 7, 1, 7]] [120, 83, 69, 67, 82, 69, 84, 120] [] := by rfl

/-! ## 2. The mask list on one leaf -/

/-- **full statement** for `processMask`: for every mask list, with every answer of the regexp
    library well shaped, the node ends with the spec's leaf value — every mask that is left by
    the lists, the do_if verdict and the match rules replaces the sections of ITS matches in the
    value the previous masks left — and the marks / counters are those of the masks that applied -/
def ProcessMaskSpec (impl : Impl) : Prop :=
  ∀ (c : Cfg) (re : Oracle) (value : Bytes) (fm : Option FMNode) (st : St), LoopOk re 0 c.masks →
    processMask impl c re value fm st =
      match specLeaf (eligible c fm) c.masks re value with
      | none => .error .oracleMiss
      | some (nv, ap) => .ok (nv, { effs := st.effs ++ marks ap, counts := bumps st.counts ap,
                                    applied := st.applied || !ap.isEmpty })

/-- the repaired `processMask` satisfies it (secret removed for ALL mask lists) -/
theorem process_mask_spec : ProcessMaskSpec fixedImpl :=
  fun c re value fm st hok => processMask_eq c re value fm st hok

/-- the repaired code empties the value and keeps it empty -/
example : processMask fixedImpl wCutCfg wCutRe wSecret none {} = .ok (some [], { applied := true }) := by rfl

/-- defect 3: a cutting mask that empties the value followed by another mask hands the ORIGINAL
    secret back (`len(sourceBuf) == 0` read as "not copied yet") -/
theorem orig_counterexample_cut_then_mask : ¬ ProcessMaskSpec origImpl := by
  intro h
  have h1 := h wCutCfg wCutRe wSecret none {} wCutRe_ok
  have h2 := process_mask_spec wCutCfg wCutRe wSecret none {} wCutRe_ok
  have e1 : processMask origImpl wCutCfg wCutRe wSecret none {} = .ok (some wSecret, { applied := true }) := by rfl
  have e2 : processMask fixedImpl wCutCfg wCutRe wSecret none {} = .ok (some [], { applied := true }) := by rfl
  rw [← h2, e2, e1] at h1
  simp [wSecret] at h1

/-- **applied mark iff, mask by mask**: a mask is recorded as applied (mark field, metric) exactly
    when the lists leave it for the node, its do_if and match rules pass, and — when it has a
    regexp with groups — the regexp matched the value handed to it; and then the value it hands
    on is the spec's masked value -/
theorem applied_mark_iff (el : Nat → MaskCfg → Bool) (re : Oracle) (value : Bytes) (i : Nat) (m : MaskCfg)
    (s s' : LeafSt) (h : leafStep el re value i m s = some s') :
    (s'.applied = s.applied ++ [(i, m)] ∨ s'.applied = s.applied) ∧
    (s'.applied = s.applied ++ [(i, m)] ↔
      (el i m = true ∧ m.use = true ∧ checkMatchRules m value = true ∧
        ((m.hasRe && !m.groups.isEmpty) = true → ∃ idx, re i s.cur = some idx ∧ idx ≠ []))) ∧
    ((m.hasRe && !m.groups.isEmpty) = true → s'.applied = s.applied ++ [(i, m)] →
        ∃ idx, re i s.cur = some idx ∧ s'.cur = maskedValue m idx s.cur) := by
  have hne : ∀ l : List (Nat × MaskCfg), l ++ [(i, m)] ≠ l := by
    intro l hl
    have := congrArg List.length hl
    simp at this
  unfold leafStep at h
  by_cases h1 : el i m
  · by_cases h2 : (m.use && checkMatchRules m value)
    · have h2' := h2
      simp only [Bool.and_eq_true] at h2'
      simp only [h1, h2, Bool.not_true, Bool.false_eq_true, ↓reduceIte] at h
      by_cases h3 : (m.hasRe && !m.groups.isEmpty)
      · simp only [h3, ↓reduceIte] at h
        cases hre : re i s.cur with
        | none => rw [hre] at h; cases h
        | some idx =>
          rw [hre] at h
          by_cases he : idx.isEmpty
          · simp only [he, ↓reduceIte, Option.some.injEq] at h
            subst h
            refine ⟨Or.inr rfl, ⟨fun hh => absurd hh.symm (hne _), ?_⟩, fun _ hh => absurd hh.symm (hne _)⟩
            rintro ⟨_, _, _, hx⟩
            obtain ⟨idx', e', n'⟩ := hx h3
            cases e'
            cases idx <;> simp_all
          · simp only [he, Bool.false_eq_true, ↓reduceIte, Option.some.injEq] at h
            subst h
            refine ⟨Or.inl rfl, ⟨fun _ => ⟨h1, h2'.1, h2'.2, fun _ => ⟨idx, rfl, ?_⟩⟩, fun _ => rfl⟩,
              fun _ _ => ⟨idx, rfl, rfl⟩⟩
            intro hnil; subst hnil; simp at he
      · simp only [h3, Bool.false_eq_true, ↓reduceIte, Option.some.injEq] at h
        subst h
        exact ⟨Or.inl rfl, ⟨fun _ => ⟨h1, h2'.1, h2'.2, fun hx => absurd hx h3⟩, fun _ => rfl⟩,
          fun hx => absurd hx h3⟩
    · simp only [h1, h2, Bool.not_true, Bool.not_false, Bool.false_eq_true, ↓reduceIte, Option.some.injEq] at h
      subst h
      refine ⟨Or.inr rfl, ⟨fun hh => absurd hh.symm (hne _), ?_⟩, fun _ hh => absurd hh.symm (hne _)⟩
      rintro ⟨_, hu, hr, _⟩
      simp [hu, hr] at h2
  · simp only [h1, Bool.not_false, ↓reduceIte, Option.some.injEq] at h
    subst h
    refine ⟨Or.inr rfl, ⟨fun hh => absurd hh.symm (hne _), ?_⟩, fun _ hh => absurd hh.symm (hne _)⟩
    rintro ⟨he, _⟩
    exact absurd he h1

example : (leafStep (fun _ _ => true) wCutRe wSecret 0 { groups := [1], mode := .cut } { cur := wSecret }).map (·.applied.length)
    = some 1 := by rfl

/-! ## 3. Process / ignore lists and the traversal of the event -/

/-- **the repaired field-masks tree means what the documentation says**: standing at `path`,
    traverseTree leaves mask `i` for the node exactly when the mask's own list (or, without one,
    the plugin's list) covers / does not cover the path — a listed path covers its whole subtree -/
theorem field_lists_prefix_semantics (c : Cfg) (path : List Bytes) (i : Nat) (m : MaskCfg)
    (hm : c.masks[i]? = some m) : eligible c (fmAt c path) i m = pathEligible c m path :=
  eligible_eq c path i m hm

/-- **full statement** for the traversal: traverseTree over the field-masks tree computes the
    spec's event — every string / number leaf through the masks the lists leave for its path
    (prefix semantics), everything else untouched — with the spec's marks and counters -/
def TraverseSpec (impl : Impl) : Prop :=
  ∀ (c : Cfg) (re : Oracle) (t : JTree) (st : St), LoopOk re 0 c.masks →
    trav impl c re t c.fmRoot st = expect st (specTree c re [] t)

/-- the repaired traversal satisfies it -/
theorem traverse_spec : TraverseSpec fixedImpl := by
  intro c re t st hok
  have := trav_eq c re hok t [] st
  rwa [fmAt_nil] at this

example : trav fixedImpl wListCfg wCutRe wListEvent wListCfg.fmRoot {}
    = .ok (.obj [(ka, .obj [(kb, .str [107]), (kc, .str [42, 42, 42, 42, 42, 42])])], { applied := true }) := by rfl

/-- defect 4: a list entry is forgotten below a node through which another list goes deeper:
    `a.c` is under mask 0's process_fields entry `a`, yet it leaves unmasked -/
theorem orig_counterexample_field_lists : ¬ TraverseSpec origImpl := by
  intro h
  have h1 := h wListCfg wCutRe wListEvent {} wList_ok
  have h2 := traverse_spec wListCfg wCutRe wListEvent {} wList_ok
  have e1 : trav origImpl wListCfg wCutRe wListEvent wListCfg.fmRoot {} = .ok (wListEvent, {}) := by rfl
  have e2 : trav fixedImpl wListCfg wCutRe wListEvent wListCfg.fmRoot {}
      = .ok (.obj [(ka, .obj [(kb, .str [107]), (kc, .str [42, 42, 42, 42, 42, 42])])], { applied := true }) := by rfl
  rw [← h2, e2, e1] at h1
  simp [wListEvent, wSecret] at h1

/-- **untouched outside (structure)**: whatever the masks do, the event keeps its structure, all
    its keys, every null / bool / number that was not masked; only string / number leaves change,
    into strings -/
theorem untouched_outside (c : Cfg) (re : Oracle) (hok : LoopOk re 0 c.masks) (t t' : JTree)
    (path : List Bytes) (st st' : St) (h : trav fixedImpl c re t (fmAt c path) st = .ok (t', st')) :
    sameShape t t' = true := by
  rw [trav_eq c re hok t path st] at h
  cases hs : specTree c re path t with
  | none => rw [hs] at h; cases h
  | some r =>
    obtain ⟨t2, ap⟩ := r
    rw [hs] at h
    simp only [expect, Except.ok.injEq, Prod.mk.injEq] at h
    rw [← h.1]
    exact specTree_shape c re t path t2 ap hs

/-- **untouched outside (ignored / non-processed fields)**: below a path for which the lists
    leave no mask (`Dead`: every mask is ruled out for every path under it) the traversal changes
    nothing at all, sets no mark and counts nothing -/
theorem untouched_ignored (c : Cfg) (re : Oracle) (hok : LoopOk re 0 c.masks) (t : JTree)
    (path : List Bytes) (st : St) (hdead : Dead c path) :
    trav fixedImpl c re t (fmAt c path) st = .ok (t, st) := by
  rw [trav_eq c re hok t path st, specTree_dead c re t path hdead]
  simp [expect, addAp_nil]

/-- a global ignore list makes the listed subtree dead -/
theorem ignored_subtree_dead (c : Cfg) (path : List Bytes) (hk : c.gkind = 1)
    (hown : ∀ m ∈ c.masks, m.fkind = 0) (hcov : covers c.gpaths path = true) : Dead c path := by
  intro q m hm hp
  unfold pathEligible
  simp [hown m hm, hk, covers_mono hcov hp]

example : Dead { masks := [{ groups := [1] }], gkind := 1, gpaths := [[ka]] } [ka, kb] :=
  ignored_subtree_dead _ _ rfl (by simp) (by decide)

/-- **applied mark iff, event level**: the traversal reports "applied" exactly when the spec's
    walk found a leaf and a mask that applied (`ap` lists them); `Do` then sets
    `mask_applied_field` and bumps the plugin metric iff that flag is set, and the per-mask
    counters are the numbers of leaves each metric-carrying mask applied to -/
theorem applied_mark_iff_event (c : Cfg) (re : Oracle) (hok : LoopOk re 0 c.masks) (t t' : JTree)
    (path : List Bytes) (st st' : St) (h : trav fixedImpl c re t (fmAt c path) st = .ok (t', st')) :
    ∃ ap, specTree c re path t = some (t', ap) ∧ st'.applied = (st.applied || !ap.isEmpty) ∧
      st'.counts = bumps st.counts ap ∧ st'.effs = st.effs ++ marks ap := by
  rw [trav_eq c re hok t path st] at h
  cases hs : specTree c re path t with
  | none => rw [hs] at h; cases h
  | some r =>
    obtain ⟨t2, ap⟩ := r
    rw [hs] at h
    simp only [expect, Except.ok.injEq, Prod.mk.injEq] at h
    refine ⟨ap, by rw [h.1], ?_, ?_, ?_⟩ <;> rw [← h.2] <;> rfl

/-- `Do` writes `mask_applied_field` and bumps the plugin metric iff the traversal says applied -/
theorem do_mark_iff (c : Cfg) (r : JTree × St) :
    ((finish c r).globalMetric = 1 ↔ (r.2.applied = true ∧ c.metricOn = true)) ∧
    (finish c r).root = (if r.2.applied && !c.gField.isEmpty then setField r.1 c.gField c.gValue else r.1) := by
  unfold finish
  refine ⟨?_, rfl⟩
  cases r.2.applied <;> cases c.metricOn <;> simp

example : (finish { masks := [], gField := ka, gValue := kb } (.obj [], { applied := true })).root
    = .obj [(ka, .str kb)] := by rfl

/-- **`Do` end to end** (object event, general path, no per-mask `applied_field`): the event
    after `Do` is the spec's event — every leaf through the masks the lists leave for its path —
    plus `mask_applied_field` iff some mask applied, with the spec's metric increments.
    (With per-mask `applied_field`s, and on the global-process_fields fast path, the order of the
    root writes is tied to the code by the correspondence runs only.) -/
theorem do_event_spec (c : Cfg) (re : Oracle) (hok : LoopOk re 0 c.masks) (hn : NoMarks c)
    (hfast : (c.hasGlobalProcess && !c.hasMaskSpecific) = false) (kvs : List (Bytes × JTree)) :
    doEvent fixedImpl c re (.obj kvs) =
      match specTree c re [] (.obj kvs) with
      | none => .error .oracleMiss
      | some (t', ap) => .ok (finish c (t', addAp { counts := c.masks.map (fun _ => 0) } ap)) :=
  doEvent_eq c re hok hn hfast kvs

example : (doEvent fixedImpl wListCfg wCutRe wListEvent).map (·.root)
    = .ok (.obj [(ka, .obj [(kb, .str [107]), (kc, .str [42, 42, 42, 42, 42, 42])])]) := by rfl

/-! ## 4. No event content can make the action panic (also serves C13) -/

/-- `Do` of the repaired plugin: for every configuration, every event and every well-shaped
    behaviour of the regexp library, no Go panic -/
theorem do_never_panics (c : Cfg) (re : Oracle) (hok : LoopOk re 0 c.masks) (root : JTree) :
    ∀ p, doEvent fixedImpl c re root ≠ .error (.panic p) :=
  doEvent_noPanic c re hok root

example : ∀ p, doEvent fixedImpl wCutCfg wCutRe (.obj [(ka, .str wSecret)]) ≠ .error (.panic p) :=
  do_never_panics _ _ wCutRe_ok _

end FileD.PropsC17
