/-
  C12 — JSON: the reference codec round trip and the json_max_fields_size cutting.
  insane-json itself is library code: it is compared with the reference codec on every run
  (`c12.json` cases), not proved. gjson (`ValidBytes`, `GetBytes`) is an oracle: `Probe` carries
  what it reports for one configured path; `ProbeOk` is what the theorems assume about it.
-/
import FileD.Lemmas.Dec.Json
import FileD.Lemmas.Dec.JsonCut
namespace FileD.PropsC12J
open FileD FileD.Dec

/-- **reference codec round trip**: every JSON tree — arbitrary bytes in keys and strings (quotes,
    backslashes, control bytes, non-UTF-8), duplicate keys, any nesting — whose number leaves are
    spelled so that the number scanner reads them back (`numOk`: starts with `-` or a digit, only
    number characters) is decoded from its encoding unchanged. -/
theorem json_roundtrip (t : JTree) (h : Json.WfNum t) : Json.decode (Json.encode t) = some t :=
  Json.json_roundtrip t h

example : Json.decode (Json.encode (.obj [([97], .arr [.num [49], .str [34, 10, 1]])]))
    = some (.obj [([97], .arr [.num [49], .str [34, 10, 1]])]) := by rfl

/-- **json_max_fields_size, totality**: for every document, every number of configured paths and
    every limit (negative ones included), whatever gjson reports as long as each reported string
    literal lies inside the document and is not shorter than its unescaped value (`ProbeOk`):
    no slice panic — also when several paths resolve to the same value. -/
theorem jsoncut_total (valid : Bool) (ps : List JsonCut.Probe) (data : Bytes)
    (hok : ∀ p ∈ ps, JsonCut.ProbeOk data p) : ∃ r, JsonCut.cutFields valid ps data = .ok r :=
  JsonCut.cutFields_total valid ps data hok

-- {"a":"xxxxxxxx"} with the same literal reported for two paths (pre-fix: slice bounds panic)
example : JsonCut.cutFields true [⟨1, true, 5, 8, 10⟩, ⟨1, true, 5, 8, 10⟩]
      [123, 34, 97, 34, 58, 34, 120, 120, 120, 120, 120, 120, 120, 120, 34, 125]
    = .ok [123, 34, 97, 34, 58, 34, 120, 34, 125] := rfl

/-- **json_max_fields_size, validity** (one configured path): if the document is
    `pre ++ "body" ++ post` where `"body"` is a string literal for the reference parser (`strBody`)
    and gjson points at it, the result is `pre ++ "body'" ++ post` with `pre` and `post` untouched,
    `body'` a prefix of `body`, `"body'"` again a string literal (no escape sequence is split, the
    closing quote survives), `body' = body` when the value is within the limit, and at most `limit`
    raw bytes kept otherwise. -/
theorem jsoncut_valid (pre body post : Bytes) (p : JsonCut.Probe)
    (hlit : Json.strBody (body ++ cQuote :: post) [] = some (body, post))
    (hpre : pre ≠ []) (hidx : p.index = pre.length) (hraw : p.rawLen = body.length + 2)
    (hfound : p.found = true) (hstr : p.strLen ≤ body.length) :
    ∃ body', JsonCut.cutFields true [p] (pre ++ cQuote :: (body ++ cQuote :: post))
          = .ok (pre ++ cQuote :: (body' ++ cQuote :: post))
      ∧ (∃ tail, body = body' ++ tail)
      ∧ (∀ acc, Json.strBody (body' ++ cQuote :: post) acc = some (acc ++ body', post))
      ∧ (p.strLen ≤ p.limit → body' = body)
      ∧ (p.limit < p.strLen → (body'.length : Int) ≤ max 0 p.limit) :=
  JsonCut.cutFields_valid pre body post p hlit hpre hidx hraw hfound hstr

-- the historical failing input {"a":"x\"\"\"\""}, limit 2 → {"a":"x"} (pre-fix: invalid JSON)
example : JsonCut.cutFields true [⟨2, true, 5, 5, 11⟩]
      [123, 34, 97, 34, 58, 34, 120, 92, 34, 92, 34, 92, 34, 92, 34, 34, 125]
    = .ok [123, 34, 97, 34, 58, 34, 120, 34, 125] := rfl

/-- **json_max_fields_size touches nothing else**: an invalid document, a path that is absent or
    not a string, and a value without a position in the document (gjson `Index = 0`: computed by a
    modifier) leave the document byte for byte as it was. -/
theorem jsoncut_untouched (ps : List JsonCut.Probe) (p : JsonCut.Probe) (data : Bytes) :
    JsonCut.cutFields false ps data = .ok data ∧
    (p.found = false → JsonCut.cutFields true [p] data = .ok data) ∧
    (p.index = 0 → JsonCut.cutFields true [p] data = .ok data) :=
  ⟨JsonCut.cutFields_invalid ps data, JsonCut.cutFields_not_found p data, JsonCut.cutFields_index_zero p data⟩

example : JsonCut.cutFields true [⟨1, true, 0, 8, 10⟩] [34, 120, 120, 120, 120, 120, 120, 120, 120, 34]
    = .ok [34, 120, 120, 120, 120, 120, 120, 120, 120, 34] := rfl

end FileD.PropsC12J
