/-
  C12 — JSON: the reference codec round trip and the json_max_fields_size cutting.
  insane-json itself is library code: it is compared with the reference codec on every run
  (`c12.json` cases), not proved.
-/
import FileD.Lemmas.Dec.Json
namespace FileD.PropsC12J
open FileD FileD.Dec

/-- **reference codec round trip**: every JSON tree — arbitrary bytes in keys and strings (quotes,
    backslashes, control bytes, non-UTF-8), duplicate keys, any nesting — whose number leaves are
    spelled so that the number scanner reads them back (`numOk`: starts with `-` or a digit, only
    number characters) is decoded from its encoding unchanged. -/
theorem json_roundtrip (t : JTree) (h : Json.WfNum t) : Json.decode (Json.encode t) = some t :=
  Json.json_roundtrip t h

example : Json.decode (Json.encode (.obj [([97], .arr [.num [49], .str [34, 10, 1]])]))
    = some (.obj [([97], .arr [.num [49], .str [34, 10, 1]])]) := by rfl

end FileD.PropsC12J
