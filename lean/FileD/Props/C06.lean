/-
  C06 — File reader emits each complete line once with its end-of-line offset.
  Property theorems only (helper lemmas: FileD/Lemmas/Worker.lean).
-/
import FileD.Lemmas.Worker
namespace FileD.PropsC06
open FileD FileD.Worker FileD.SpecC06

def unlimited : Cfg := ⟨0, false⟩

theorem over_unlimited (a b : Nat) : over unlimited a b = false := by simp [over, unlimited]

/-- invariant of the parsing loop with no size limit -/
theorem parseLoop_unlimited (base : Nat) (buf : Bytes) (w : W) (hs : w.skip = false) (more : Bytes) :
    (parseLoop unlimited base buf w).1.skip = false ∧
    (parseLoop unlimited base buf w).1.out ++
        specLines more (base + (parseLoop unlimited base buf w).1.scanned)
          ((parseLoop unlimited base buf w).1.accum ++ (parseLoop unlimited base buf w).2)
      = w.out ++ specLines (buf ++ more) (base + w.scanned) w.accum := by
  induction h : buf.length using Nat.strongRecOn generalizing buf w with
  | _ n ih =>
    unfold parseLoop
    split
    · rename_i hc
      simp [hs, specLines_nocut hc, Nat.add_assoc]
    · rename_i line rest hc
      have hl := cutLine_length hc
      have := ih rest.length (by omega) rest
        { accum := [], scanned := w.scanned + line.length, skip := false,
          out := w.out ++ [(base + (w.scanned + line.length), w.accum ++ line)] } rfl rfl
      simp only [hs, over_unlimited, Bool.false_or, Bool.false_eq_true, ↓reduceIte]
      refine ⟨this.1, ?_⟩
      rw [this.2, specLines_cut (cut_append hc more)]
      simp [Nat.add_assoc]

/-- invariant of one read with no size limit: emitted so far ++ spec of the rest is constant -/
theorem procRead_unlimited (base : Nat) (buf : Bytes) (w : W) (hs : w.skip = false) (more : Bytes) :
    (procRead unlimited base w buf).skip = false ∧
    (procRead unlimited base w buf).out ++
        specLines more (base + (procRead unlimited base w buf).scanned) (procRead unlimited base w buf).accum
      = w.out ++ specLines (buf ++ more) (base + w.scanned) w.accum := by
  have := parseLoop_unlimited base buf w hs more
  simpa [procRead, afterRead, unlimited] using this

theorem procReads_unlimited (base : Nat) (cs : List Bytes) (w : W) (hs : w.skip = false) (more : Bytes) :
    (procReads unlimited base cs w).skip = false ∧
    (procReads unlimited base cs w).out ++
        specLines more (base + (procReads unlimited base cs w).scanned) (procReads unlimited base cs w).accum
      = w.out ++ specLines (cs.flatten ++ more) (base + w.scanned) w.accum := by
  induction cs generalizing w with
  | nil => simp [procReads, hs]
  | cons c cs ih =>
    simp only [procReads, List.flatten_cons, List.append_assoc]
    have h1 := procRead_unlimited base c w hs (cs.flatten ++ more)
    have h2 := ih (procRead unlimited base w c) h1.1
    exact ⟨h2.1, by rw [h2.2, h1.2]⟩

/-- **C06 core, one turn**: for every content and every way the OS splits it into reads
    (any chunk sizes, including empty reads), the `In` calls of a turn that starts on a line
    boundary are exactly the complete lines of what was read, each once, in order, with the
    offset just after its newline. No bound on sizes or on the number of reads. -/
theorem worker_lines (base : Nat) (reads : List Bytes) :
    (turn unlimited ⟨base, [], false⟩ reads).2 = specLines reads.flatten base [] := by
  have := (procReads_unlimited base reads ⟨[], 0, false, []⟩ rfl []).2
  simpa [turn, specLines] using this

example : (turn unlimited ⟨0, [], false⟩ [[97, 10, 98], [99, 10, 100]]).2
    = [(2, [97, 10]), (5, [98, 99, 10])] := by
  rw [worker_lines]; decide

end FileD.PropsC06
