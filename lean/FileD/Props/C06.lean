/-
  C06 — File reader emits each complete line once with its end-of-line offset.
  Property theorems only (helper lemmas: FileD/Lemmas/Worker.lean).

  Everything below is about `Worker.turns` / `Worker.turn` (Model/Worker.lean, the model of
  `(*worker).work` that the driver executes against the real worker on every run) and holds for
  arbitrary byte contents, arbitrary splits of the content into turns (appends) and of every turn
  into reads (any sizes, empty reads included), arbitrary base offsets. No size bound anywhere.
  `content` is always `ts.flatten.flatten`: the bytes the turns read, in order.
-/
import FileD.Lemmas.Worker
import FileD.Lemmas.WorkerPipe
namespace FileD.PropsC06
open FileD FileD.Worker FileD.SpecC06

def unlimited : Cfg := ⟨0, false⟩

/-- **C06, the oracle itself**: for every configuration (no limit / skip / cut), every start mode
    (`skip` = job.shouldSkip), every base offset, every content and every split of it into turns and
    reads, the calls made by the worker model satisfy `SpecC06.holds` — literally the predicate
    `./check C06` evaluates on the calls of the real worker. -/
theorem worker_holds (cfg : Cfg) (skip : Bool) (base : Nat) (ts : List (List Bytes)) :
    holds cfg skip base ts.flatten.flatten (turns cfg ⟨base, [], skip⟩ ts).2 = true := by
  rw [holds_iff]
  exact (turns_post cfg ⟨base, [], skip⟩ ts [] (Carry.refl cfg [])).out

-- non-vacuity: skip mode, limit 3, two turns, the 5-byte line straddles three reads and is dropped
example : (turns ⟨3, false⟩ ⟨10, [], false⟩ [[[97, 98], [99, 100]], [[10, 101], [10]]]).2 = [(17, [101, 10])] := by
  simp [turns, turn, procReads, procRead, parseLoop, cutLine, afterRead, over, NL]
example : holds ⟨3, false⟩ false 10 [97, 98, 99, 100, 10, 101, 10] [(17, [101, 10])] = true := by decide
example : holds ⟨3, false⟩ false 10 [97, 98, 99, 100, 10, 101, 10] [(15, [97, 98, 99, 100, 10]), (17, [101, 10])] = false := by decide

/-- **one turn, no limit**: the `In` calls of a turn that starts on a line boundary are exactly the
    complete lines of what was read, each once, in order, with the offset just after its newline. -/
theorem worker_lines (base : Nat) (reads : List Bytes) :
    (turn unlimited ⟨base, [], false⟩ reads).2 = specLines reads.flatten base [] := by
  have := (turn_post unlimited ⟨base, [], false⟩ reads [] (Carry.refl _ [])).out
  simpa [Match, unlimited, dropFirst] using this

example : (turn unlimited ⟨0, [], false⟩ [[97, 10, 98], [99, 10, 100]]).2
    = [(2, [97, 10]), (5, [98, 99, 10])] := by
  rw [worker_lines]; decide

/-- **any number of turns, no limit**: over a whole file life (appends between turns, reads of any
    size inside a turn) the calls are exactly `specLines` of everything read: a line split across
    reads or across turns is emitted once, when its newline arrives, with its end offset. -/
theorem worker_turns_lines (base : Nat) (ts : List (List Bytes)) :
    (turns unlimited ⟨base, [], false⟩ ts).2 = specLines ts.flatten.flatten base [] := by
  have := (turns_post unlimited ⟨base, [], false⟩ ts [] (Carry.refl _ [])).out
  simpa [Match, unlimited, dropFirst] using this

example : (turns unlimited ⟨7, [], false⟩ [[[97], [98]], [[99, 10, 10]], [], [[100], [10, 101]]]).2
    = [(11, [97, 98, 99, 10]), (12, [10]), (14, [100, 10])] := by
  rw [worker_turns_lines]; decide

/-- **read sizes and turn boundaries are irrelevant** (no limit): two histories that read the same
    bytes — split into reads and into turns in any two ways — make exactly the same `In` calls
    (same lines, same offsets, same order). -/
theorem worker_chunking_irrelevant (base : Nat) (t1 t2 : List (List Bytes))
    (h : t1.flatten.flatten = t2.flatten.flatten) :
    (turns unlimited ⟨base, [], false⟩ t1).2 = (turns unlimited ⟨base, [], false⟩ t2).2 := by
  rw [worker_turns_lines, worker_turns_lines, h]

example : (turns unlimited ⟨7, [], false⟩ [[[97], [98]], [[99, 10, 10]], [], [[100], [10, 101]]]).2
    = (turns unlimited ⟨7, [], false⟩ [[[97, 98, 99, 10, 10, 100, 10, 101]]]).2 :=
  worker_chunking_irrelevant _ _ _ (by decide)

/-- **tail and offset**: after any turns `curOffset` has advanced by exactly the bytes read (every
    configuration), and the unterminated remainder is held back in `job.tail` — exactly
    `specTail content` with no limit, and with a limit whenever that remainder fits it. -/
theorem worker_tail (cfg : Cfg) (skip : Bool) (base : Nat) (ts : List (List Bytes)) :
    (turns cfg ⟨base, [], skip⟩ ts).1.curOffset = base + ts.flatten.flatten.length ∧
    (cfg.maxSize = 0 ∨ (specTail ts.flatten.flatten []).length ≤ cfg.maxSize →
      (turns cfg ⟨base, [], skip⟩ ts).1.tail = specTail ts.flatten.flatten []) := by
  obtain ⟨h1, h2, _, _⟩ := turns_post cfg ⟨base, [], skip⟩ ts [] (Carry.refl cfg [])
  exact ⟨h1, fun h => Carry.eq_of_fits h2 h⟩

example : (turns unlimited ⟨3, [], false⟩ [[[97, 10, 98]], [[99]]]).1.tail = [98, 99] ∧
    (turns unlimited ⟨3, [], false⟩ [[[97, 10, 98]], [[99]]]).1.curOffset = 7 := by
  have h := worker_tail unlimited false 3 [[[97, 10, 98]], [[99]]]
  exact ⟨by rw [h.2 (Or.inl rfl)]; decide, by rw [h.1]; decide⟩

/-- **resume**: a reader started at a line-boundary offset `base + pre.length` of a file whose
    bytes before that offset are `pre` emits exactly the lines of the whole file that come after the
    lines of `pre`, with the offsets they have in the whole file. -/
theorem worker_resume (base : Nat) (pre : Bytes) (ts : List (List Bytes))
    (hpre : pre = [] ∨ pre.getLast? = some NL) :
    specLines (pre ++ ts.flatten.flatten) base []
      = specLines pre base [] ++ (turns unlimited ⟨base + pre.length, [], false⟩ ts).2 := by
  rw [worker_turns_lines, specLines_append, specTail_boundary hpre]

example : (turns unlimited ⟨0 + [97, 10, 98, 10].length, [], false⟩ [[[99], [10, 100]]]).2 = [(6, [99, 10])] := by
  have h := worker_resume 0 [97, 10, 98, 10] [[[99], [10, 100]]] (Or.inr (by decide))
  have e1 : specLines ([97, 10, 98, 10] ++ [[[99], [10, 100]]].flatten.flatten) 0 []
      = [(2, [97, 10]), (4, [98, 10]), (6, [99, 10])] := by decide
  have e2 : specLines [97, 10, 98, 10] 0 [] = [(2, [97, 10]), (4, [98, 10])] := by decide
  rw [e1, e2] at h
  simpa using h.symm

/-- **first line skipped**: a job opened with `shouldSkip` (file opened in the middle of a line)
    drops exactly the first line — whenever and in however many pieces it completes — and nothing else;
    `shouldSkip` is cleared exactly when a line has completed. -/
theorem worker_first_line_skipped (base : Nat) (ts : List (List Bytes)) :
    (turns unlimited ⟨base, [], true⟩ ts).2 = (specLines ts.flatten.flatten base []).drop 1 ∧
    (turns unlimited ⟨base, [], true⟩ ts).1.skip = (specLines ts.flatten.flatten base []).isEmpty := by
  obtain ⟨_, _, h3, h4⟩ := turns_post unlimited ⟨base, [], true⟩ ts [] (Carry.refl _ [])
  exact ⟨by simpa [Match, unlimited, dropFirst] using h4, by simpa using h3⟩

example : (turns unlimited ⟨0, [], true⟩ [[[97]], [[98, 10, 99, 10]], [[100, 10]]]).2
    = [(5, [99, 10]), (7, [100, 10])] := by
  rw [(worker_first_line_skipped 0 _).1]; decide

/-- **skip mode** (`max_event_size = max > 0`, cut-off disabled): the calls are exactly the spec
    lines whose length, newline included, is at most `max`; being a filter of `specLines`, every
    surviving line keeps its bytes and its offset, whatever was dropped before it. -/
theorem worker_skip_oversize (max : Nat) (hmax : 0 < max) (base : Nat) (ts : List (List Bytes)) :
    (turns ⟨max, false⟩ ⟨base, [], false⟩ ts).2
      = (specLines ts.flatten.flatten base []).filter (fun x => decide (x.2.length ≤ max)) := by
  have := (turns_post ⟨max, false⟩ ⟨base, [], false⟩ ts [] (Carry.refl _ [])).out
  have hm : ¬ max = 0 := by omega
  have hf : fits max = fun x => decide (x.2.length ≤ max) := by
    funext x; have : (max == 0) = false := by simpa using hm
    simp [fits, this]
  simpa [Match, hm, dropFirst, hf] using this

example : (turns ⟨3, false⟩ ⟨0, [], false⟩ [[[97, 10, 98, 98], [98, 98]], [[10, 99, 99, 10]]]).2
    = [(2, [97, 10]), (10, [99, 99, 10])] := by
  rw [worker_skip_oversize 3 (by decide)]; decide

/-- **cut mode** (`max_event_size = max > 0`, cut-off enabled): as many calls as spec lines, call
    `i` carries the offset of spec line `i`; a line that fits is handed over unchanged; for a line
    over the limit the data is longer than `max`, starts with the line's first `max` bytes and ends
    in the newline (`Pipeline.checkInputBytes` then cuts it at `max`). -/
theorem worker_cut_oversize (max : Nat) (hmax : 0 < max) (base : Nat) (ts : List (List Bytes)) :
    let calls := (turns ⟨max, true⟩ ⟨base, [], false⟩ ts).2
    let want := specLines ts.flatten.flatten base []
    calls.length = want.length ∧
    ∀ (i : Nat) (h1 : i < calls.length) (h2 : i < want.length),
      calls[i].1 = want[i].1 ∧
      (want[i].2.length ≤ max → calls[i].2 = want[i].2) ∧
      (max < want[i].2.length →
        max < calls[i].2.length ∧ calls[i].2.take max = want[i].2.take max ∧ calls[i].2.getLast? = some NL) := by
  have := (turns_post ⟨max, true⟩ ⟨base, [], false⟩ ts [] (Carry.refl _ [])).out
  have hm : ¬ max = 0 := by omega
  simp only [Match, hm, ↓reduceIte, dropFirst, Bool.false_eq_true] at this
  obtain ⟨hl, hi⟩ := allCut_iff.mp this
  exact ⟨hl, fun i h1 h2 => cutOk_iff.mp (hi i h1 h2)⟩

-- non-vacuity: limit 2, the line "abcdefg\n" arrives in four reads; what is handed over is not the
-- line (the middle is dropped) but satisfies the cut contract; the next line is untouched
example : (turns ⟨2, true⟩ ⟨0, [], false⟩ [[[97, 98], [99, 100], [101, 102]], [[103, 10, 120], [10]]]).2
    = [(8, [97, 98, 101, 102, 103, 10]), (10, [120, 10])] := by
  simp [turns, turn, procReads, procRead, parseLoop, cutLine, afterRead, over, NL]
example : specLines [97, 98, 99, 100, 101, 102, 103, 10, 120, 10] 0 []
    = [(8, [97, 98, 99, 100, 101, 102, 103, 10]), (10, [120, 10])] := by decide

/-- **cut mode, after admission**: once `Pipeline.checkInputBytes` has cut the data at `max`
    (`cutAtLimit`, the model of its cut branch — tied to the code by C20, not here), event `i` is
    exactly what cutting the true line gives: the line when it fits, its first `max` bytes plus the
    newline otherwise. What the worker dropped from the middle of an over-long line is never seen. -/
theorem worker_cut_then_admission (max : Nat) (hmax : 0 < max) (base : Nat) (ts : List (List Bytes))
    (i : Nat) (h1 : i < (turns ⟨max, true⟩ ⟨base, [], false⟩ ts).2.length)
    (h2 : i < (specLines ts.flatten.flatten base []).length) :
    cutAtLimit max ((turns ⟨max, true⟩ ⟨base, [], false⟩ ts).2[i]).2
      = cutAtLimit max ((specLines ts.flatten.flatten base [])[i]).2 ∧
    (max < ((specLines ts.flatten.flatten base [])[i]).2.length →
      cutAtLimit max ((turns ⟨max, true⟩ ⟨base, [], false⟩ ts).2[i]).2
        = ((specLines ts.flatten.flatten base [])[i]).2.take max ++ [NL]) := by
  have := (turns_post ⟨max, true⟩ ⟨base, [], false⟩ ts [] (Carry.refl _ [])).out
  have hm : ¬ max = 0 := by omega
  simp only [Match, hm, ↓reduceIte, dropFirst, Bool.false_eq_true] at this
  have hk := (allCut_iff.mp this).2 i h1 h2
  have hnl := specLines_getLast (List.getElem_mem h2)
  have he := cutAtLimit_of_cutOk hk hnl
  refine ⟨he, fun hlen => ?_⟩
  rw [he]; simp [cutAtLimit, hlen, hnl]

example : cutAtLimit 2 [97, 98, 101, 102, 103, 10] = [97, 98, 10] ∧
    cutAtLimit 2 [97, 98, 99, 100, 101, 102, 103, 10] = [97, 98, 10] := by decide

/-- **behind the real pipeline**: the calls of the worker model, each put through the model of
    `Pipeline.In` (`Admission.inStep`, decoder raw, the same `max_event_size` / cut-off setting), never
    panic and deliver exactly `pipeSpec`: for every complete line that is not empty one event with the
    line's end offset — the line itself (without its newline) when it has at most `max` bytes, the
    line of exactly `max` bytes included; nothing (skip) or its first `max` bytes (cut) when it is
    longer; neighbours untouched. Worker (`len(accumBuf)+len(line) > max`) and pipeline
    (`length > max`) agree on what "over the limit" means — for every configuration, start mode,
    content and split into turns and reads. `pipeHolds` is the oracle `./check C06` applies to the
    events the real output receives in the `c06.pipe` cases. -/
theorem worker_pipeline_holds (cfg : Cfg) (skip : Bool) (base : Nat) (ts : List (List Bytes)) :
    WorkerPipe.deliver cfg (turns cfg ⟨base, [], skip⟩ ts).2 = .ok (pipeSpec cfg skip base ts.flatten.flatten) ∧
    pipeHolds cfg skip base ts.flatten.flatten (pipeSpec cfg skip base ts.flatten.flatten) = true := by
  have hm := (turns_post cfg ⟨base, [], skip⟩ ts [] (Carry.refl cfg [])).out
  refine ⟨?_, by simp [pipeHolds]⟩
  rw [WorkerPipe.deliver_eq]
  congr 1
  exact WorkerPipe.filterMap_of_match cfg hm
    (fun x hx => specLines_getLast (WorkerPipe.dropFirst_mem hx))

-- non-vacuity: limit 8; "1234567\n" is exactly 8 bytes: delivered unchanged in both modes, and so
-- are its neighbours; the 9-byte line is dropped (skip) or cut to 8 bytes (cut); the empty line is no event
example : pipeSpec ⟨8, false⟩ false 0 [49, 50, 51, 52, 53, 54, 55, 10, 97, 98, 99, 10, 49, 50, 51, 52, 53, 54, 55, 56, 10, 10, 120, 121, 10]
    = [(8, [49, 50, 51, 52, 53, 54, 55]), (12, [97, 98, 99]), (25, [120, 121])] := by decide
example : pipeSpec ⟨8, true⟩ false 0 [49, 50, 51, 52, 53, 54, 55, 10, 97, 98, 99, 10, 49, 50, 51, 52, 53, 54, 55, 56, 10, 10, 120, 121, 10]
    = [(8, [49, 50, 51, 52, 53, 54, 55]), (12, [97, 98, 99]), (21, [49, 50, 51, 52, 53, 54, 55, 56]), (25, [120, 121])] := by decide
example : pipeHolds ⟨8, true⟩ false 0 [49, 50, 51, 52, 53, 54, 55, 10, 97, 98, 99, 10] [(8, [49, 50, 51, 52, 53, 54, 55, 10]), (12, [98, 99])] = false := by
  decide

end FileD.PropsC06
