/-
  C10 — Kafka input never acknowledges a record that is not finished.
  Property theorems only (helper lemmas: FileD/Lemmas/KafkaPack.lean, FileD/Lemmas/KafkaCommit.lean).
-/
import FileD.Lemmas.KafkaPack
import FileD.Spec.C10
namespace FileD.PropsC10
open FileD FileD.Gen.KafkaPack FileD.KafkaCommit

/-- **Packing round trip** over the definitions regenerated from kafka.go on every run. For every
    topic index below 2^48 (the real layout: `index<<16 + partition` in 64 bits), partition below
    2^16, offset below 2^47 and leader epoch below 2^16 (all non-negative: for the signed Go types
    `toNat < 2^k` with `k` below the width is `0 ≤ x < 2^k`):
    what `Commit` unpacks from the event is the record's own topic index and partition, its own
    leader epoch, and the marked offset is the record's offset plus one (no wrap-around).
    Kernel-only: no `bv_decide`. -/
theorem pack_roundtrip (index : BitVec 64) (partition : BitVec 32) (message : Record)
    (hi : index.toNat < 2 ^ 48) (hp : partition.toNat < 2 ^ 16)
    (ho : message.Offset.toNat < 2 ^ 47) (he : message.LeaderEpoch.toNat < 2 ^ 16) :
    disassembleSourceID (assembleSourceID index partition) = (index, partition) ∧
    (disassembleOffset (assembleOffset message)).Epoch = message.LeaderEpoch ∧
    (disassembleOffset (assembleOffset message)).Offset = message.Offset + 1 ∧
    (disassembleOffset (assembleOffset message)).Offset.toNat = message.Offset.toNat + 1 := by
  have h := LemmasKafkaPack.offset_roundtrip message ho he
  refine ⟨LemmasKafkaPack.sourceID_roundtrip index partition hi hp, by rw [h], by rw [h], ?_⟩
  rw [h]
  have one : (1 : BitVec 64).toNat = 1 := rfl
  simp only [BitVec.toNat_add, one]
  omega

example : disassembleSourceID (assembleSourceID 123456789#64 123#32) = (123456789#64, 123#32) ∧
    (disassembleOffset (assembleOffset ⟨0, 0, 0, 27#32, 237582035700#64⟩)).Epoch = 27#32 ∧
    (disassembleOffset (assembleOffset ⟨0, 0, 0, 27#32, 237582035700#64⟩)).Offset = 237582035701#64 := by
  have := pack_roundtrip 123456789#64 123#32 ⟨0, 0, 0, 27#32, 237582035700#64⟩
    (by decide) (by decide) (by decide) (by decide)
  exact ⟨this.1, this.2.1, this.2.2.1⟩

end FileD.PropsC10
