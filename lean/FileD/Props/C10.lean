/-
  C10 — Kafka input never acknowledges a record that is not finished.
  Property theorems only (helper lemmas: FileD/Lemmas/KafkaPack.lean, FileD/Lemmas/KafkaCommit.lean).
-/
import FileD.Lemmas.KafkaPack
import FileD.Lemmas.KafkaCommit
namespace FileD.PropsC10
open FileD FileD.Gen.KafkaPack FileD.KafkaCommit FileD.SpecC10 FileD.LemmasKafkaCommit

/-- **Packing round trip** over the definitions regenerated from kafka.go on every run. For every
    topic index below 2^48 (the real layout: `index<<16 + partition` in 64 bits), partition below
    2^16, offset below 2^47 and leader epoch below 2^16 (all non-negative: for the signed Go types
    `toNat < 2^k` with `k` below the width is `0 ≤ x < 2^k`):
    what `Commit` unpacks from the event is the record's own topic index and partition, its own
    leader epoch, and the marked offset is the record's offset plus one (no wrap-around).
    Kernel-only: no `bv_decide`. -/
theorem pack_roundtrip (index : BitVec 64) (partition : BitVec 32) (message : Record)
    (hi : index.toNat < 2 ^ 48) (hp : partition.toNat < 2 ^ 16)
    (ho : message.Offset.toNat < 2 ^ 47) (he : message.LeaderEpoch.toNat < 2 ^ 16) :
    disassembleSourceID (assembleSourceID index partition) = (index, partition) ∧
    (disassembleOffset (assembleOffset message)).Epoch = message.LeaderEpoch ∧
    (disassembleOffset (assembleOffset message)).Offset = message.Offset + 1 ∧
    (disassembleOffset (assembleOffset message)).Offset.toNat = message.Offset.toNat + 1 := by
  have h := LemmasKafkaPack.offset_roundtrip message ho he
  refine ⟨LemmasKafkaPack.sourceID_roundtrip index partition hi hp, by rw [h], by rw [h], ?_⟩
  rw [h]
  have one : (1 : BitVec 64).toNat = 1 := rfl
  simp only [BitVec.toNat_add, one]
  omega

example : disassembleSourceID (assembleSourceID 123456789#64 123#32) = (123456789#64, 123#32) ∧
    (disassembleOffset (assembleOffset ⟨0, 0, 0, 27#32, 237582035700#64⟩)).Epoch = 27#32 ∧
    (disassembleOffset (assembleOffset ⟨0, 0, 0, 27#32, 237582035700#64⟩)).Offset = 237582035701#64 := by
  have := pack_roundtrip 123456789#64 123#32 ⟨0, 0, 0, 27#32, 237582035700#64⟩
    (by decide) (by decide) (by decide) (by decide)
  exact ⟨this.1, this.2.1, this.2.2.1⟩

/-- **source IDs are collision-free**: within the layout's range two (topic index, partition) pairs
    with the same source ID are the same pair — two partitions never share a pipeline source
    (and so never share streams, offsets or commit heads). Corollary of the round trip. -/
theorem sourceID_injective (i1 i2 : BitVec 64) (p1 p2 : BitVec 32)
    (hi1 : i1.toNat < 2 ^ 48) (hp1 : p1.toNat < 2 ^ 16) (hi2 : i2.toNat < 2 ^ 48) (hp2 : p2.toNat < 2 ^ 16)
    (h : assembleSourceID i1 p1 = assembleSourceID i2 p2) : i1 = i2 ∧ p1 = p2 := by
  have h1 := LemmasKafkaPack.sourceID_roundtrip i1 p1 hi1 hp1
  have h2 := LemmasKafkaPack.sourceID_roundtrip i2 p2 hi2 hp2
  rw [h, h2] at h1
  exact ⟨(Prod.mk.inj h1).1.symm, (Prod.mk.inj h1).2.symm⟩

example : assembleSourceID 1#64 0#32 ≠ assembleSourceID 0#64 1#32 := by
  intro h
  have := sourceID_injective 1#64 0#64 0#32 1#32 (by decide) (by decide) (by decide) (by decide) h
  exact absurd this.1 (by decide)

/-! ### the acknowledgement path -/

/-- **Every mark is an acknowledged record's own**, for every processor count, every assignment of
    records to streams, every interleaving and every acknowledgement order: a marked head
    `(topic, partition) ↦ (epoch, offset)` is `(r.epoch, r.offset + 1)` for a record `r` of that very
    topic and partition that the output has acknowledged. In particular the mark is at most one past
    a consumed record and carries that record's leader epoch. -/
theorem mark_at_most_one_past_consumed (c : Cfg) (ops : List Op) (s : State)
    (h : run c (init c) ops = some s) :
    ∀ x ∈ s.marks, ∃ i r, i ∈ s.acked ∧ s.recs[i]? = some r ∧
      r.topic = x.1.1 ∧ r.part = x.1.2 ∧ x.2.1 = r.epoch ∧ x.2.2 = r.offset + 1 := by
  have hI : OwnInv s :=
    TS.invariant_of_step (step? c) OwnInv (ownInv_step c) (init c) s ops (ownInv_init c) h
  intro x hx
  obtain ⟨i, r, hi, hr, h1, h2⟩ := hI x hx
  refine ⟨i, r, hi, hr, ?_, ?_, ?_, ?_⟩
  · rw [← h1]; rfl
  · rw [← h1]; rfl
  · rw [← h2]; rfl
  · rw [← h2]; rfl

example : ∃ s, run ⟨2, false⟩ (init ⟨2, false⟩)
      [.consume ⟨0, 3, 10, 0⟩ 0, .consume ⟨0, 3, 11, 0⟩ 1, .take 1, .ack 1] = some s ∧
    s.marks = [((0, 3), (0, 12))] := ⟨_, rfl, rfl⟩

/-- **The full statement** of the safety clause: in every reachable state, for every processor
    count and every schedule, no mark exceeds the offset of a consumed record of its partition that
    is neither acknowledged nor dropped. FALSE of the code (see the counterexample below). -/
def MarkNeverPassesUnfinished : Prop :=
  ∀ (c : Cfg) (ops : List Op) (s : State), run c (init c) ops = some s →
    ∀ x ∈ s.marks, NoPass s.recs s.finished x

/-- **Partial**: when every acknowledgement arrives in consumption order per topic/partition
    (`OrderedRun`: at each `ack i` every earlier-consumed record of that partition is finished), no
    mark ever passes an unfinished record — for every processor count, stream assignment, set of
    dropped records and interleaving of everything else. -/
theorem mark_never_passes_unfinished_partial (c : Cfg) (ops : List Op) (s : State)
    (hord : OrderedRun c (init c) ops) (h : run c (init c) ops = some s) :
    ∀ x ∈ s.marks, NoPass s.recs s.finished x :=
  (inv2_run c ops (init c) s (inv2_init c) hord h).nopass

example : OrderedRun ⟨2, false⟩ (init ⟨2, false⟩)
    [.consume ⟨0, 3, 10, 0⟩ 0, .consume ⟨0, 3, 11, 0⟩ 1, .take 1, .take 0, .ack 0, .ack 1] := by
  simp [OrderedRun, AckInOrder, step?, init, fresh, pushAt, popHead, commit, mark, Rec.tp, Rec.eo]
  intros; omega

/-- **One processor and an in-order output** satisfy that hypothesis by construction: with a
    single stream (`procs = 1`) and an output that acknowledges in the order it received the events
    (`fifo`), every reachable state has no mark past an unfinished record, whatever is dropped. -/
theorem mark_never_passes_unfinished_one_proc_fifo (c : Cfg) (h1 : c.procs = 1) (hf : c.fifo = true)
    (ops : List Op) (s : State) (h : run c (init c) ops = some s) :
    ∀ x ∈ s.marks, NoPass s.recs s.finished x := by
  have hI : Inv2 s ∧ Fifo1 s :=
    TS.invariant_of_step (step? c) (fun s => Inv2 s ∧ Fifo1 s)
      (fun s op s' hI hs =>
        ⟨inv2_step c s op s' hI.1 (ackInOrder_of_fifo1 c hf s op s' hI.2 hs) hs,
         fifo1_step c h1 hf s op s' hI.2 hs⟩)
      (init c) s ops ⟨inv2_init c, fifo1_init c h1⟩ h
  exact hI.1.nopass

example : ∃ s, run ⟨1, true⟩ (init ⟨1, true⟩)
      [.consume ⟨0, 3, 10, 0⟩ 0, .consume ⟨0, 3, 11, 0⟩ 0, .take 0, .drop 1, .ack 0] = some s ∧
    s.marks = [((0, 3), (0, 11))] ∧ s.finished = [0, 1] := ⟨_, rfl, rfl, rfl⟩

/-- **Counterexample to the full statement** (known finding C10-spread-reorder): two records of
    one partition (offsets 10 and 11), two processors, the records land on different streams, the
    later one is handed to the output and acknowledged first — the mark is 12 while offset 10 is
    still in the pipeline. Even an in-order (`fifo`) output does not help. The same schedule is
    replayed on the real pipeline from corpus/C10/reorder.case. -/
theorem MarkNeverPassesUnfinished_counterexample : ¬ MarkNeverPassesUnfinished := by
  intro h
  have h' := h ⟨2, true⟩
    [.consume ⟨0, 3, 10, 0⟩ 0, .consume ⟨0, 3, 11, 0⟩ 1, .take 1, .ack 1] _ rfl
    ((0, 3), (0, 12)) (by decide) 0 ⟨0, 3, 10, 0⟩ rfl (by decide) rfl
  exact absurd h' (by decide)

/-! ### the two halves meet: `Commit` on packed values is the record-level step -/

/-- For a record in the property's range the step on the packed values the event really carries
    (`disassembleSourceID` / `disassembleOffset` of what `assembleSourceID` / `assembleOffset`
    produced, regenerated definitions) is the record-level `commit` the transition system uses. -/
theorem commit_packed_eq (m : Marks) (r : Rec)
    (hr : inRange r.topic r.part r.offset r.epoch = true) :
    commitPacked m (packSourceID r) (packOffset r) = commit m r := by
  obtain ⟨i1, i2, i3, i4⟩ := unpack_in_range r hr
  simp only [commitPacked, commit, Rec.tp, Rec.eo, i1, i2, i3, i4]

example : commitPacked [] (packSourceID ⟨2, 65535, 1000, 7⟩) (packOffset ⟨2, 65535, 1000, 7⟩)
    = [((2, 65535), (7, 1001))] := by
  rw [commit_packed_eq _ _ (by decide)]; rfl

/-! ### topic ids: what Start assigns is what Commit resolves -/

/-- **The mark goes to the record's own topic, for every configured topic list — duplicates
    included.** `Start` gives a topic the last position it has in `Topics`, the consume loop packs
    that id, `Commit` resolves it with `Topics[index]`: for every list of fewer than 2^48 entries,
    every record of a configured topic (partition, offset, epoch in range) the step of the started
    plugin on the packed values is the record-level `commit` on the record's own topic name. -/
theorem start_commit_own_topic (topics : List Int) (m : Marks) (r : Rec)
    (hmem : r.topic ∈ topics) (hlen : topics.length < 2 ^ 48)
    (hr : inRange 0 r.part r.offset r.epoch = true) :
    ∃ sid, startedSourceID topics r = some sid ∧
      commitStarted topics m sid (packOffset r) = some (commit m r) := by
  obtain ⟨j, hj⟩ := topicIDFrom_some_of_mem 0 topics r.topic hmem
  have hj' : topicID topics r.topic = some j := hj
  have hjl := topicID_lt_length topics r.topic j hj'
  have hat : topics[j]? = some r.topic := by simpa using (topicIDFrom_spec 0 topics r.topic j hj).2
  refine ⟨assembleSourceID (BitVec.ofInt 64 (j : Int)) (BitVec.ofInt 32 r.part),
    by simp only [startedSourceID, hj']; rfl, ?_⟩
  -- the record with its topic replaced by the id Start assigned is in range
  have hr' : inRange (j : Int) r.part r.offset r.epoch = true := by
    simp only [inRange, decide_eq_true_eq] at hr ⊢
    omega
  obtain ⟨i1, i2, i3, i4⟩ := unpack_in_range ⟨j, r.part, r.offset, r.epoch⟩ hr'
  simp only [packSourceID, packOffset] at i1 i2 i3 i4
  have hneg : ¬ ((j : Int) < 0) := by omega
  simp only [commitStarted, packOffset, i1, i2, i3, i4, topicAt, hneg, if_false, Int.toNat_natCast, hat,
    Option.map_some, commit, Rec.tp, Rec.eo]

example : startedSourceID [5, 5, 9] ⟨9, 3, 40, 7⟩ = some 131075#64 ∧
    commitStarted [5, 5, 9] [] 131075#64 (packOffset ⟨9, 3, 40, 7⟩) = some [((9, 3), (7, 41))] := by
  obtain ⟨sid, h1, h2⟩ := start_commit_own_topic [5, 5, 9] [] ⟨9, 3, 40, 7⟩ (by decide) (by decide) (by decide)
  have e : startedSourceID [5, 5, 9] ⟨9, 3, 40, 7⟩ = some 131075#64 := by decide
  rw [e] at h1; cases h1
  exact ⟨e, h2⟩

/-! ### the executable oracle is the specification -/

/-- what `fdmodel` prints in the `P` column for one observation is `ok` exactly when every
    observed mark is an acknowledged record's own and passes no unfinished record -/
theorem verdict_ok_iff (recs : List Rec) (finished acked : List Nat) (marks : Marks) :
    verdict recs finished acked marks = "ok" ↔ Holds recs finished acked marks := by
  simp only [verdict, Holds]
  constructor
  · intro h
    split at h
    · exact absurd h (by decide)
    · split at h
      · exact absurd h (by decide)
      · rename_i h1 h2
        simp only [Bool.not_eq_true', Bool.not_eq_false, List.all_eq_true] at h1 h2
        exact fun m hm => ⟨(ownB_iff _ _ _).mp (h1 m hm), (noPassB_iff _ _ _).mp (h2 m hm)⟩
  · intro h
    have h1 : marks.all (ownB recs acked) = true :=
      List.all_eq_true.mpr fun m hm => (ownB_iff _ _ _).mpr (h m hm).1
    have h2 : marks.all (noPassB recs finished) = true :=
      List.all_eq_true.mpr fun m hm => (noPassB_iff _ _ _).mpr (h m hm).2
    simp [h1, h2]

example : verdict [⟨0, 3, 10, 0⟩, ⟨0, 3, 11, 0⟩] [1] [1] [((0, 3), (0, 12))] = "fail:pass" ∧
    verdict [⟨0, 3, 10, 0⟩, ⟨0, 3, 11, 0⟩] [0] [0] [((0, 3), (0, 11))] = "ok" ∧
    verdict [⟨0, 3, 10, 0⟩, ⟨0, 3, 11, 0⟩] [0] [0] [((0, 4), (0, 11))] = "fail:own" := by decide

end FileD.PropsC10
