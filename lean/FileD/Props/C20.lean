/-
  C20 — Admission control drops only what the settings say, and only that.
  Property theorems only (helper lemmas: FileD/Lemmas/Admission.lean, FileD/Lemmas/Antispam.lean).

  Models: FileD/Model/Admission.lean (`checkInputBytes`, `Pipeline.In` for the json/raw decoders),
  FileD/Model/Antispam.lean (`IsSpam`, `Maintenance`). Spec: FileD/Spec/C20.lean.
  `decode`, `r.excM`, `r.pass`, `e.excM`, `e.ruleM` are oracle parameters (library / plugin
  behaviour): every theorem holds for all of them.
-/
import FileD.Lemmas.Admission
namespace FileD.PropsC20
open FileD FileD.Admission FileD.SpecC20

/-! ## admission -/

/-- what has to be true of the record / the settings / the antispam state for each refusal reason -/
def ReasonHolds (s : Settings) (decode : Bytes → Option JTree) (st : Antispam.State) (r : Rec) :
    Reason → Prop
  | .empty => r.data = [] ∨ r.data = [NL]
  | .oversize => s.maxEventSize ≠ 0 ∧ (r.data.length : Int) > s.maxEventSize ∧ s.cutOff = false
  | .committed => s.as.threshold ≥ 0 ∧ ∃ o, r.streamOff = some o ∧ o > 0 ∧ r.cur < o
  | .spam => s.as.threshold ≥ 0 ∧
      (Antispam.isSpam s.as st (spamEv s r (specBytes s.maxEventSize r.data))).1 = true
  | .undecodable => specDecode s decode (specBytes s.maxEventSize r.data) = none
  | .notPassed => r.pass = false

/-- `Pipeline.In` never panics on any record (non-negative size limit) and is the admission spec -/
theorem in_eq_admit (s : Settings) (decode : Bytes → Option JTree) (st : Antispam.State) (r : Rec)
    (hm : 0 ≤ s.maxEventSize) :
    inStep s decode st r = .ok (admitRec s decode (bannedNow s st r) r, nextState s st r) :=
  inStep_eq_admit s decode st r hm

/-- **refused only for the listed reasons**: whenever `In` refuses a record (returns
    `EventSeqIDError`), one of the six listed reasons is the cause, and that reason's condition
    really holds of the record, the settings and the current antispam state. For every record,
    every setting (limit ≥ 0), every decoder behaviour, every antispam state. -/
theorem refused_only_for_listed_reasons (s : Settings) (decode : Bytes → Option JTree)
    (st st' : Antispam.State) (r : Rec) (why : Reason) (hm : 0 ≤ s.maxEventSize)
    (h : inStep s decode st r = .ok (.refused why, st')) :
    ReasonHolds s decode st r why := by
  rw [inStep_eq_admit s decode st r hm] at h
  have h1 : admitRec s decode (bannedNow s st r) r = .refused why := by
    injection h with h; exact (Prod.mk.inj h).1
  unfold admitRec at h1
  split at h1
  · rename_i he; injection h1 with h1; subst h1; exact he
  · split at h1
    · rename_i ho; injection h1 with h1; subst h1; exact ⟨ho.1.1, ho.1.2, ho.2⟩
    · split at h1
      · rename_i hc; injection h1 with h1; subst h1; exact hc
      · split at h1
        · rename_i hb; injection h1 with h1; subst h1
          simp only [bannedNow, Bool.and_eq_true, decide_eq_true_eq] at hb
          exact hb
        · split at h1
          · rename_i hd; injection h1 with h1; subst h1; exact hd
          · split at h1
            · rename_i hp; injection h1 with h1; subst h1; exact hp
            · cases h1

/-- a 5-byte record under limit 3 without cut-off is refused as oversize -/
example : inStep ⟨3, false, [], .raw, [], ⟨-1, 4, 1, true, [], []⟩⟩ (fun _ => none) Antispam.init
      ⟨1, 0, none, false, [], true, [97, 98, 99, 100, 10], fun _ => []⟩
    = .ok (.refused .oversize, Antispam.init) := by
  rw [inStep_eq_admit _ _ _ _ (by decide)]
  simp [admitRec, isEmptyRec, oversize, nextState, reachesAntispam, NL]

end FileD.PropsC20
