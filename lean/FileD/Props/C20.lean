/-
  C20 — Admission control drops only what the settings say, and only that.
  Property theorems only (helper lemmas: FileD/Lemmas/Admission.lean, FileD/Lemmas/Antispam.lean).

  Models: FileD/Model/Admission.lean (`checkInputBytes`, `Pipeline.In` for the json/raw decoders),
  FileD/Model/Antispam.lean (`IsSpam`, `Maintenance`). Spec: FileD/Spec/C20.lean.
  `decode`, `r.excM`, `r.pass`, `e.excM`, `e.ruleM` are oracle parameters (library / plugin
  behaviour): every theorem holds for all of them. Event times are arbitrary integers.
-/
import FileD.Lemmas.Admission
import FileD.Lemmas.Antispam
import FileD.Lemmas.MatchRule
namespace FileD.PropsC20
open FileD FileD.Admission FileD.SpecC20

/-! ## admission: `Pipeline.In` -/

/-- what has to be true of the record / the settings / the antispam state for each refusal reason -/
def ReasonHolds (s : Settings) (decode : Bytes → Option JTree) (st : Antispam.State) (r : Rec) :
    Reason → Prop
  | .empty => r.data = [] ∨ r.data = [NL]
  | .oversize => s.maxEventSize ≠ 0 ∧ (r.data.length : Int) > s.maxEventSize ∧ s.cutOff = false
  | .committed => s.as.threshold ≥ 0 ∧ ∃ o, r.streamOff = some o ∧ o > 0 ∧ r.cur < o
  | .spam => s.as.threshold ≥ 0 ∧
      (Antispam.isSpam s.as st (spamEv s r (specBytes s.maxEventSize r.data))).1 = true
  | .undecodable => specDecode s decode (specBytes s.maxEventSize r.data) = none
  | .notPassed => r.pass = false

/-- the model of `Pipeline.In` never panics (non-negative size limit) and does, for every record,
    exactly what the declarative admission spec `admitRec` says -/
theorem in_eq_spec (s : Settings) (decode : Bytes → Option JTree) (st : Antispam.State) (r : Rec)
    (hm : 0 ≤ s.maxEventSize) :
    inStep s decode st r = .ok (admitRec s decode (bannedNow s st r) r, nextState s st r) :=
  inStep_eq_admit s decode st r hm

/-- **refused only for the listed reasons**: whenever `In` refuses a record (returns
    `EventSeqIDError`), one of the six listed reasons is the cause, and that reason's condition
    really holds of the record, the settings and the current antispam state. For every record,
    every setting (limit ≥ 0), every decoder behaviour, every antispam state. -/
theorem refused_only_for_listed_reasons (s : Settings) (decode : Bytes → Option JTree)
    (st st' : Antispam.State) (r : Rec) (why : Reason) (hm : 0 ≤ s.maxEventSize)
    (h : inStep s decode st r = .ok (.refused why, st')) :
    ReasonHolds s decode st r why := by
  rw [inStep_eq_admit s decode st r hm] at h
  have h1 : admitRec s decode (bannedNow s st r) r = .refused why := by
    injection h with h; exact (Prod.mk.inj h).1
  unfold admitRec at h1
  split at h1
  · rename_i he; injection h1 with h1; subst h1; exact he
  · split at h1
    · rename_i ho; injection h1 with h1; subst h1; exact ⟨ho.1.1, ho.1.2, ho.2⟩
    · split at h1
      · rename_i hc; injection h1 with h1; subst h1; exact hc
      · split at h1
        · rename_i hb; injection h1 with h1; subst h1
          simp only [bannedNow, Bool.and_eq_true, decide_eq_true_eq] at hb
          exact hb
        · split at h1
          · rename_i hd; injection h1 with h1; subst h1; exact hd
          · split at h1
            · rename_i hp; injection h1 with h1; subst h1; exact hp
            · cases h1

/-- a 5-byte record under limit 3 without cut-off is refused as oversize -/
example : inStep ⟨3, false, [], .raw, [], ⟨-1, 4, 1, true, [], []⟩⟩ (fun _ => none) Antispam.init
      ⟨1, 0, none, false, [], true, [97, 98, 99, 100, 10], fun _ => []⟩
    = .ok (.refused .oversize, Antispam.init) := by
  rw [inStep_eq_admit _ _ _ _ (by decide)]
  simp [admitRec, isEmptyRec, oversize, nextState, reachesAntispam, NL]

/-- a record none of whose refusal reasons applies is delivered (the converse direction) -/
theorem delivered_when_no_reason (s : Settings) (decode : Bytes → Option JTree)
    (st : Antispam.State) (r : Rec) (hm : 0 ≤ s.maxEventSize)
    (hne : ¬ (r.data = [] ∨ r.data = [NL]))
    (hsz : ¬ (oversize s.maxEventSize r.data ∧ s.cutOff = false))
    (hcm : ¬ committed s r) (hsp : bannedNow s st r = false) (hp : r.pass = true)
    (t0 : JTree) (hd : specDecode s decode (specBytes s.maxEventSize r.data) = some t0) :
    ∃ t st', inStep s decode st r = .ok (.delivered t, st') := by
  rw [inStep_eq_admit s decode st r hm]
  have hne' : ¬ isEmptyRec r.data := hne
  simp only [admitRec, hne', hsz, hcm, hsp, hd, hp, ↓reduceIte, Bool.false_eq_true, Bool.true_eq_false]
  exact ⟨_, _, rfl⟩

example : ∃ t st', inStep ⟨3, true, [], .raw, [], ⟨-1, 4, 1, true, [], []⟩⟩ (fun _ => none) Antispam.init
      ⟨1, 0, none, false, [], true, [97, 98, 99, 100, 10], fun _ => []⟩ = .ok (.delivered t, st') :=
  delivered_when_no_reason _ _ _ _ (by decide) (by decide) (by decide) (by decide) (by decide) rfl
    (rawEvent _) rfl

/-- **cut exact**: with cutting enabled, an oversize record reaches the decoder as exactly its
    first `max_event_size` bytes, plus "\n" if and only if the record ended in "\n"; and what is
    delivered is the decoding of exactly those bytes (plus meta fields and the configured mark). -/
theorem cut_exact (s : Settings) (decode : Bytes → Option JTree) (st : Antispam.State) (r : Rec)
    (hm : 0 ≤ s.maxEventSize) (hcut : s.cutOff = true) (hov : oversize s.maxEventSize r.data) :
    checkInputBytes s r.data =
      .ok (r.data.take s.maxEventSize.toNat ++ (if endsNL r.data then [NL] else []), true, true) ∧
    ∀ t st', inStep s decode st r = .ok (.delivered t, st') →
      ∃ t0, specDecode s decode (r.data.take s.maxEventSize.toNat ++ (if endsNL r.data then [NL] else []))
              = some t0 ∧
            t = (if s.cutOffField ≠ [] then setFieldObj s.cutOffField (.bool true) (addMeta t0 r.md)
                 else addMeta t0 r.md) := by
  have hsb : specBytes s.maxEventSize r.data
      = r.data.take s.maxEventSize.toNat ++ (if endsNL r.data then [NL] else []) := by
    simp [specBytes, hov]
  have hne : ¬ isEmptyRec r.data := by
    intro h
    have hov' : s.maxEventSize ≠ 0 ∧ (r.data.length : Int) > s.maxEventSize := hov
    rcases h with h | h <;> simp [h] at hov' <;> omega
  constructor
  · rw [checkInputBytes_spec s r.data hm, ← hsb]; simp [hne, hov, hcut]
  · intro t st' h
    rw [inStep_eq_admit s decode st r hm] at h
    have h1 : admitRec s decode (bannedNow s st r) r = .delivered t := by
      injection h with h; exact (Prod.mk.inj h).1
    unfold admitRec at h1
    rw [hsb] at h1
    simp only [hne, hov, hcut, ↓reduceIte, Bool.true_eq_false, and_false, true_and] at h1
    split at h1
    · cases h1
    · split at h1
      · cases h1
      · split at h1
        · cases h1
        · rename_i t0 hd
          split at h1
          · cases h1
          · injection h1 with h1
            refine ⟨t0, hd, ?_⟩
            rw [← h1]

/-- limit 3, cut-off on, mark field "c", a decoder that accepts everything as `{}`: "abcd\n" is
    delivered as {"c":true}; the decoder was given "abc\n" -/
example : inStep ⟨3, true, [99], .json, [], ⟨-1, 4, 1, true, [], []⟩⟩
      (fun b => if b = [97, 98, 99, 10] then some (.obj []) else none) Antispam.init
      ⟨1, 0, none, false, [], true, [97, 98, 99, 100, 10], fun _ => []⟩
    = .ok (.delivered (.obj [([99], .bool true)]), Antispam.init) := by
  rw [inStep_eq_admit _ _ _ _ (by decide)]
  simp [admitRec, isEmptyRec, oversize, nextState, reachesAntispam, NL, committed, bannedNow,
    specDecode, specBytes, endsNL, addMeta, setFieldObj, setField]

/-- **within limit identity**: a non-empty record within the limit (or with no limit) reaches the
    decoder unchanged, and what is delivered is the decoding of the record itself — no mark. -/
theorem within_limit_identity (s : Settings) (decode : Bytes → Option JTree) (st : Antispam.State)
    (r : Rec) (hm : 0 ≤ s.maxEventSize) (hne : ¬ (r.data = [] ∨ r.data = [NL]))
    (hin : s.maxEventSize = 0 ∨ (r.data.length : Int) ≤ s.maxEventSize) :
    checkInputBytes s r.data = .ok (r.data, false, true) ∧
    ∀ t st', inStep s decode st r = .ok (.delivered t, st') →
      ∃ t0, specDecode s decode r.data = some t0 ∧ t = addMeta t0 r.md := by
  have hov : ¬ oversize s.maxEventSize r.data := by
    intro h
    have h' : s.maxEventSize ≠ 0 ∧ (r.data.length : Int) > s.maxEventSize := h
    omega
  have hne' : ¬ isEmptyRec r.data := hne
  constructor
  · rw [checkInputBytes_spec s r.data hm]; simp [hne', hov]
  · intro t st' h
    rw [inStep_eq_admit s decode st r hm] at h
    have h1 : admitRec s decode (bannedNow s st r) r = .delivered t := by
      injection h with h; exact (Prod.mk.inj h).1
    unfold admitRec at h1
    rw [specBytes_of_not_oversize hov] at h1
    simp only [hne', hov, ↓reduceIte, false_and] at h1
    split at h1
    · cases h1
    · split at h1
      · cases h1
      · split at h1
        · cases h1
        · rename_i t0 hd
          split at h1
          · cases h1
          · injection h1 with h1
            exact ⟨t0, hd, h1.symm⟩

example : checkInputBytes ⟨5, true, [99], .raw, [], ⟨-1, 4, 1, true, [], []⟩⟩ [97, 98, 99, 100, 10]
    = .ok ([97, 98, 99, 100, 10], false, true) :=
  (within_limit_identity _ (fun _ => none) Antispam.init
    ⟨1, 0, none, false, [], true, [97, 98, 99, 100, 10], fun _ => []⟩ (by decide) (by decide) (by decide)).1

/-! ## antispam -/

open FileD.Antispam

/-- **disabled never drops** (antispam level): with the threshold at -1 and no rules `IsSpam`
    answers false and does not touch its state — whatever the event, the history, the times. -/
theorem disabled_never_drops (cfg : Cfg) (st : State) (e : Ev)
    (hr : cfg.rulesNil = true) (ht : cfg.threshold = -1) : isSpam cfg st e = (false, st) := by
  apply isSpam_pass
  simp [verdict, hr, ht]

example : isSpam ⟨-1, 4, 1000, true, [], []⟩ init ⟨[49], false, 5, [], []⟩ = (false, init) :=
  disabled_never_drops _ _ _ rfl rfl

/-- **disabled never drops** (pipeline level): with `antispam.threshold` negative, `In` refuses
    nothing as spam nor as already committed (the whole antispam block of `In` is skipped). -/
theorem disabled_never_drops_in (s : Settings) (decode : Bytes → Option JTree) (st st' : Antispam.State)
    (r : Rec) (why : Reason) (hm : 0 ≤ s.maxEventSize) (hd : s.as.threshold < 0)
    (h : inStep s decode st r = .ok (.refused why, st')) : why ≠ .spam ∧ why ≠ .committed := by
  have := refused_only_for_listed_reasons s decode st st' r why hm h
  constructor
  · intro hw; subst hw; have := this.1; omega
  · intro hw; subst hw; have := this.1; omega

example : inStep ⟨0, false, [], .raw, [], ⟨-1, 4, 1, true, [], []⟩⟩ (fun _ => none) Antispam.init
      ⟨1, 0, some 50, false, [], false, [97, 10], fun _ => []⟩
    = .ok (.refused .notPassed, Antispam.init) := by
  rw [inStep_eq_admit _ _ _ _ (by decide)]
  simp [admitRec, isEmptyRec, oversize, nextState, reachesAntispam, NL, committed, bannedNow,
    specDecode, specBytes]

/-- **exception never drops**: when there are no rules and some exception matches its check data
    (event bytes, or the source name for `check_source_name`), `IsSpam` answers false and the event
    is not accounted (state unchanged) — whatever the source's counter or ban state. -/
theorem exception_never_drops (cfg : Cfg) (st : State) (e : Ev)
    (hr : cfg.rulesNil = true) (hx : excHit cfg.excs e.excM = true) : isSpam cfg st e = (false, st) := by
  apply isSpam_pass
  unfold verdict
  split
  · rfl
  · simp [preVerdict, hr, hx, finalSwitch]

/-- a banned source (counter 4 ≥ threshold 1): an event matching the exception still passes -/
example : isSpam ⟨1, 4, 1000, true, [false], []⟩ (init.set [49] ⟨4, 0, 1⟩) ⟨[49], false, 5, [(true, false)], []⟩
    = (false, init.set [49] ⟨4, 0, 1⟩) :=
  exception_never_drops _ _ _ rfl rfl

/-- the same for rules: an event whose first matching rule has threshold -1 is never dropped -/
theorem unlimited_rule_never_drops (cfg : Cfg) (st : State) (e : Ev)
    (hr : cfg.rulesNil = false) (hx : ruleVerdict cfg.rules e.ruleM cfg.threshold = .pass) :
    isSpam cfg st e = (false, st) := by
  apply isSpam_pass
  simp [verdict, preVerdict, hr, hx, finalSwitch]

example : isSpam ⟨1, 4, 1000, false, [], [-1]⟩ (init.set [49] ⟨4, 0, 1⟩) ⟨[49], false, 5, [], [true]⟩
    = (false, init.set [49] ⟨4, 0, 1⟩) :=
  unlimited_rule_never_drops _ _ _ rfl rfl

/-- pipeline level: a record whose (possibly cut) bytes match an exception is never refused as spam -/
theorem exception_never_drops_in (s : Settings) (decode : Bytes → Option JTree) (st st' : Antispam.State)
    (r : Rec) (why : Reason) (hm : 0 ≤ s.maxEventSize) (hr : s.as.rulesNil = true)
    (hx : excHit s.as.excs (r.excM (specBytes s.maxEventSize r.data)) = true)
    (h : inStep s decode st r = .ok (.refused why, st')) : why ≠ .spam := by
  intro hw; subst hw
  have := (refused_only_for_listed_reasons s decode st st' r _ hm h).2
  rw [exception_never_drops s.as st _ hr (by simpa [spamEv] using hx)] at this
  cases this

/-! ### what "an exception matches" means: cfg/matchrule -/

section MR
open FileD.MatchRule

/-- **matchrule is literal**: `(*Rule).Match` with its `minValueSize` early return and its cut to
    `maxValueSize` answers exactly "some configured value is a prefix / suffix / substring of the
    data" (xor `invert`) — for every rule with at least one value, every data, every mix of value
    lengths. Case-insensitive rules: for every lowering function that keeps the length of this data
    and commutes with the two cuts (`bytes.ToLower` on ASCII data). -/
theorem matchrule_literal (lower : Bytes → Bytes) (r : Rule) (raw : Bytes) (hv : r.values ≠ [])
    (hn : r.ci = false ∨ LowerNice lower raw (maxLen (prepared lower r))) :
    ruleMatch lower r raw = .ok (specRule lower r raw) :=
  ruleMatch_eq lower r raw hv hn

/-- values of different lengths, data shorter than the longest value: prefix [payments-service, api]
    ("payments-service", "api" as bytes) matches "api-gw" -/
example : ruleMatch id ⟨[[112, 97, 121, 109, 101, 110, 116, 115, 45, 115, 101, 114, 118, 105, 99, 101], [97, 112, 105]], .pre, false, false⟩ [97, 112, 105, 45, 103, 119] = .ok true := by
  rw [matchrule_literal id _ _ (by simp) (Or.inl rfl)]
  exact congrArg _ (by decide)

/-- `(*RuleSet).Match` = the rule set has rules and all (`and`) / some (`or`) of them match literally -/
theorem ruleset_literal (lower : Bytes → Bytes) (isOr : Bool) (rules : List Rule) (raw : Bytes)
    (h : ∀ r ∈ rules, RuleOK lower raw r) :
    rsMatch lower isOr rules raw = .ok (specRuleSet lower isOr rules raw) :=
  rsMatch_eq lower isOr rules raw h

example : rsMatch id true [⟨[[97, 98], [99]], .suf, false, false⟩, ⟨[[120]], .contains, false, false⟩] [97, 99]
    = .ok true := by
  rw [ruleset_literal id _ _ _ (by
    intro r hr
    simp only [List.mem_cons, List.not_mem_nil, or_false] at hr
    rcases hr with hr | hr <;> subst hr <;> exact ⟨by simp, Or.inl rfl⟩)]
  exact congrArg _ (by decide)

/-- **exception never drops, literal form**: exceptions given as rule sets (`csn` =
    check_source_name); the results `IsSpam` gets from matchrule are the literal ones
    (`ruleset_literal`). If some exception's rule set literally matches its check data — the source
    name for `check_source_name`, else the event bytes — the event is not refused and not counted. -/
theorem exception_never_drops_literal (lower : Bytes → Bytes) (cfg : Cfg) (st : State) (e : Ev)
    (xs : List (Bool × Bool × List Rule)) (event name : Bytes)
    (hr : cfg.rulesNil = true) (hc : cfg.excs = xs.map (·.1))
    (hm : e.excM = xs.map (fun x => (specRuleSet lower x.2.1 x.2.2 event, specRuleSet lower x.2.1 x.2.2 name)))
    (hx : ∃ x ∈ xs, specRuleSet lower x.2.1 x.2.2 (if x.1 then name else event) = true) :
    isSpam cfg st e = (false, st) := by
  apply exception_never_drops cfg st e hr
  rw [hc, hm, excHit_map, List.any_eq_true]
  obtain ⟨x, hx1, hx2⟩ := hx
  refine ⟨x, hx1, ?_⟩
  cases hcs : x.1 <;> simp [hcs] at hx2 ⊢ <;> exact hx2

/-- the seeded-change shape: check_source_name exception prefix [payments-service, api], source
    "api-gw", source already at counter 9 ≥ threshold 3: still not refused -/
example : isSpam ⟨3, 2, 1000, true, [true], []⟩ (init.set [49] ⟨9, 0, 3⟩)
      ⟨[49], false, 5, [(false, true)], []⟩ = (false, init.set [49] ⟨9, 0, 3⟩) :=
  exception_never_drops_literal id _ _ _
    [(true, true, [⟨[[112, 97, 121, 109, 101, 110, 116, 115, 45, 115, 101, 114, 118, 105, 99, 101], [97, 112, 105]], .pre, false, false⟩])] [123, 125] [97, 112, 105, 45, 103, 119]
    rfl rfl (by decide) ⟨_, List.mem_singleton.mpr rfl, by decide⟩

end MR

/-- **ban needs threshold**. Fresh antispammer, any history: `hist = some pre` means the ops so far
    are `pre`, then a maintenance round, then `suf` (no maintenance in `suf`); `hist = none` means no
    round has run yet. If `IsSpam` answers true for an event whose threshold is `T > 0`, of a source
    all of whose events since that round resolve to threshold `T`, then at least `T` events of that
    source got as far as the counter since the round (this one included), or the source was banned
    (counter ≥ its threshold) when that round ran. Arbitrary interleaving with other sources,
    arbitrary event times, int32 wrap-around included. -/
theorem ban_needs_threshold (cfg : Cfg) (hist : Option (List Op)) (suf : List Op) (e : Ev) (T : Int)
    (hvalid : CfgValid cfg) (hU : 0 ≤ cfg.unban) (hT : 0 < T) (hT32 : T < 2147483648)
    (hsuf : ∀ op ∈ suf, isMaint op = false)
    (huni : Uniform cfg e.id T suf)
    (hv : verdict cfg e = .count T)
    (hans : (isSpam cfg (run cfg init (histOps hist ++ suf)) e).1 = true) :
    (reached cfg e.id (suf ++ [.event e]) : Int) ≥ T ∨
    ∃ pre s, hist = some pre ∧ (run cfg init pre).m e.id = some s ∧ s.counter ≥ s.thr :=
  ban_core cfg hist suf e T hvalid hU hT hT32 hsuf huni hv hans

def cfg2 : Cfg := ⟨2, 4, 1000, true, [], []⟩
def ev1 (t : Int) : Ev := ⟨[49], false, t, [], []⟩

/-- threshold 2: the second event within the interval is answered true (first disjunct: 2 ≥ 2) -/
example : (isSpam cfg2 (run cfg2 init (histOps none ++ [.event (ev1 10)])) (ev1 20)).1 = true ∧
    verdict cfg2 (ev1 20) = .count 2 ∧ (reached cfg2 [49] ([.event (ev1 10)] ++ [.event (ev1 20)]) : Int) ≥ 2 := by
  decide

/-- … and after one round the source is still banned: answered true with one event since the round
    (second disjunct: counter 8 ≥ 2 when the round ran) -/
example : (isSpam cfg2 (run cfg2 init (histOps (some [.event (ev1 10), .event (ev1 20)]) ++ [])) (ev1 30)).1 = true ∧
    (∃ s, (run cfg2 init [.event (ev1 10), .event (ev1 20)]).m [49] = some s ∧ s.counter ≥ s.thr) := by
  refine ⟨by decide, ⟨8, 20, 2⟩, by decide, by decide⟩

/-- The statement without "all events of the source resolve to the same threshold" (any rule list,
    any event mix). It is false: the per-source counter is shared by rules with different
    thresholds, so a ban under a small threshold makes events judged under a larger one spam. -/
def BanNeedsThresholdAnyRules : Prop :=
  ∀ (cfg : Cfg) (hist : Option (List Op)) (suf : List Op) (e : Ev) (T : Int),
    CfgValid cfg → 0 ≤ cfg.unban → 0 < T → T < 2147483648 →
    (∀ op ∈ suf, isMaint op = false) →
    verdict cfg e = .count T →
    (isSpam cfg (run cfg init (histOps hist ++ suf)) e).1 = true →
    (reached cfg e.id (suf ++ [.event e]) : Int) ≥ T ∨
    ∃ pre s, hist = some pre ∧ (run cfg init pre).m e.id = some s ∧ s.counter ≥ s.thr

/-- rules [threshold 1 if A, threshold 3 if B], unban 4: one event matching A bans the source
    (counter 4), the next event of the same source matching B (threshold 3) is answered true after
    only 2 events. Witness replayed on the implementation: corpus/C20/mixed_thresholds.case -/
theorem ban_needs_threshold_any_rules_counterexample : ¬ BanNeedsThresholdAnyRules := by
  intro h
  have := h ⟨5, 4, 1000, false, [], [1, 3]⟩ none [.event ⟨[49], false, 10, [], [true, false]⟩]
    ⟨[49], false, 20, [], [false, true]⟩ 3 ⟨by decide, by decide⟩ (by decide) (by decide) (by decide) (by decide)
    (by decide) (by decide)
  rcases this with h1 | ⟨pre, s, h2, _⟩
  · revert h1; decide
  · cases h2

/-- The stricter reading "… or the source was *still* banned after that round". It is false: events
    that arrive while a source is banned leave a residue in its counter after the unban. -/
def BanNeedsThresholdStrict : Prop :=
  ∀ (cfg : Cfg) (pre suf : List Op) (e : Ev) (T : Int),
    CfgValid cfg → 0 ≤ cfg.unban → 0 < T → T < 2147483648 →
    (∀ op ∈ suf, isMaint op = false) → Uniform cfg e.id T (pre ++ suf) →
    verdict cfg e = .count T →
    (isSpam cfg (run cfg init (pre ++ [.maint] ++ suf)) e).1 = true →
    (reached cfg e.id (suf ++ [.event e]) : Int) ≥ T ∨
    ∃ s, (run cfg init (pre ++ [.maint])).m e.id = some s ∧ s.counter ≥ s.thr

/-- what does hold of the strict (literal) reading: if the round left no residue (the source's
    counter right after it is 0, or it has no entry) then a true answer needs `T` events of the
    source since the round -/
theorem ban_needs_threshold_strict_partial (cfg : Cfg) (pre suf : List Op) (e : Ev) (T : Int)
    (hT : 0 < T) (hT32 : T < 2147483648)
    (hsuf : ∀ op ∈ suf, isMaint op = false) (huni : Uniform cfg e.id T suf)
    (hv : verdict cfg e = .count T)
    (hnores : ∀ s, (run cfg init (pre ++ [.maint])).m e.id = some s → s.counter ≤ 0)
    (hans : (isSpam cfg (run cfg init (pre ++ [.maint] ++ suf)) e).1 = true) :
    (reached cfg e.id (suf ++ [.event e]) : Int) ≥ T := by
  rw [run_append] at hans
  exact ban_no_residue cfg _ suf e T hT hT32 (allInR_run cfg init _ allInR_init)
    (fun s hs => Or.inr (hnores s hs)) hsuf huni hv hans

/-- threshold 2: an unbanned source (one event, round resets it to 0) needs two events again -/
example : (isSpam cfg2 (run cfg2 init ([.event (ev1 10)] ++ [.maint] ++ [.event (ev1 20)])) (ev1 30)).1 = true ∧
    (∀ s, (run cfg2 init ([.event (ev1 10)] ++ [.maint])).m (ev1 30).id = some s → s.counter ≤ 0) ∧
    (reached cfg2 [49] ([.event (ev1 20)] ++ [.event (ev1 30)]) : Int) ≥ 2 := by
  decide

def cfg3 : Cfg := ⟨3, 1, 1000, true, [], []⟩

/-- threshold 3, unban 1: three events ban the source (counter 3), two more arrive while it is
    banned (counter 5); the round leaves 5 - 3 = 2 < 3 (unbanned); one single further event makes
    the counter 3 and is answered true. Witness: corpus/C20/residue_after_unban.case -/
theorem ban_needs_threshold_strict_counterexample : ¬ BanNeedsThresholdStrict := by
  intro h
  have := h cfg3 [.event (ev1 1), .event (ev1 2), .event (ev1 3), .event (ev1 4), .event (ev1 5)] []
    (ev1 6) 3 ⟨by decide, by decide⟩ (by decide) (by decide) (by decide) (by decide)
    (by intro e he _ t hv
        have : verdict cfg3 e = .count 3 := by
          simp only [List.append_nil, List.mem_cons, Op.event.injEq, List.not_mem_nil, or_false] at he
          rcases he with he | he | he | he | he <;> subst he <;> decide
        rw [this] at hv; injection hv with hv; exact hv.symm)
    (by decide) (by decide)
  rcases this with h1 | ⟨s, h2, h3⟩
  · revert h1; decide
  · have hs : (run cfg3 init ([.event (ev1 1), .event (ev1 2), .event (ev1 3), .event (ev1 4), .event (ev1 5)]
        ++ [.maint])).m [49] = some ⟨2, 5, 3⟩ := by decide
    have hid : (ev1 6).id = [49] := rfl
    rw [hid, hs] at h2
    injection h2 with h2; subst h2
    revert h3; decide

/-- **silent source unbanned**. From any reachable state of the antispammer (so after any ban),
    if no event of the source gets as far as the counter during `ops` and `ops` contains at least
    `unbanIterations + 1` maintenance rounds, then afterwards the source is gone from the table or its
    counter is 0 — whatever the other sources do in between. (Thresholds valid and
    `unbanIterations * threshold` within int32.) -/
theorem silent_source_unbanned (cfg : Cfg) (hc : CfgFit cfg) (pre ops : List Op) (sid : Bytes)
    (hs : Silent cfg sid ops) (hr : (countMaint ops : Int) ≥ cfg.unban + 1) :
    ∀ s, (run cfg (run cfg init pre) ops).m sid = some s → s.counter = 0 :=
  silent_core cfg hc pre ops sid hs hr

/-- threshold 2, unban 4: banned at counter 8; after 4 rounds the entry is still there with
    counter 0 (after 3 rounds it is 2, still banned) -/
example : (run cfg2 (run cfg2 init [.event (ev1 10), .event (ev1 20)]) [.maint, .maint, .maint, .maint]).m [49]
      = some ⟨0, 20, 2⟩ ∧
    (run cfg2 (run cfg2 init [.event (ev1 10), .event (ev1 20)]) [.maint, .maint, .maint]).m [49]
      = some ⟨2, 20, 2⟩ ∧ CfgFit cfg2 := by
  refine ⟨by decide, by decide, by decide, ⟨by decide, by decide⟩, by decide, by decide⟩

/-- after the silent rounds the source starts from zero: its next event is answered like the first
    event of a new source -/
theorem silent_source_fresh_answer (cfg : Cfg) (hc : CfgFit cfg) (pre ops : List Op) (e : Ev) (T : Int)
    (hs : Silent cfg e.id ops) (hr : (countMaint ops : Int) ≥ cfg.unban + 1)
    (hv : verdict cfg e = .count T) (hT : 1 < T) (hT32 : T < 2147483648) :
    (isSpam cfg (run cfg (run cfg init pre) ops) e).1 = false := by
  have h0 := silent_core cfg hc pre ops e.id hs hr
  have hR := allInR_run cfg (run cfg init pre) ops (allInR_run cfg init pre allInR_init)
  cases hb : (isSpam cfg (run cfg (run cfg init pre) ops) e).1 with
  | false => rfl
  | true =>
    rw [isSpam_count hv] at hb
    have := (hit_bound cfg T e _ 0 (by omega) hT32 (by omega) (fun s hs => hR _ _ hs)
      (fun s hs => Or.inr (by rw [h0 s hs]; omega))).2 hb
    cases hn : e.isNew <;> simp [hn] at this <;> omega

example : (isSpam cfg2 (run cfg2 (run cfg2 init [.event (ev1 10), .event (ev1 20)])
    [.maint, .maint, .maint, .maint, .maint]) (ev1 30)).1 = false := by decide

end FileD.PropsC20
