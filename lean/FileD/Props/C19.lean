/-
  C19 — Output payloads carry every event of a batch exactly once, well-formed.
  Property theorems only (helper lemmas: FileD/Lemmas/Payload.lean).
-/
import FileD.Lemmas.Payload
namespace FileD.PropsC19
open FileD FileD.Payload FileD.SpecC19

/-- `Batch.ForEach` hands the callback exactly the non-child-parent events, in batch order -/
theorem forEach_skips_child_parent {σ : Type} (cb : σ → Ev → σ) (evs : List Ev) (s : σ) :
    forEach cb evs s = (deliverable evs).foldl cb s := forEach_eq_foldl cb evs s

example : forEach (fun (l : List Nat) e => l ++ [e.kind]) [⟨0, [], []⟩, ⟨2, [], []⟩, ⟨1, [], []⟩] [] = [0, 1] := by decide

end FileD.PropsC19
