/-
  C19 — Output payloads carry every event of a batch exactly once, well-formed.
  Property theorems only (helper lemmas: FileD/Lemmas/Payload.lean).

  Reading guide. `deliverable batch` = the events `Batch.ForEach` visits. Each `<sink>_frames`
  theorem says: the receiver's unframer applied to the bytes the sink built for ANY batch (any
  size, any event contents, any worker buffer left by earlier batches) returns exactly the
  deliverable events' encodings, once each, in order — under the ENCODER ASSUMPTION spelled out in
  the hypothesis (no raw separator inside an encoded event / the envelope is one bracketed value).
  The assumption is not provable: `encoder_assumption_needed` shows the statement is false
  without it, and the implementation violates it for events whose text carries raw control
  bytes (known finding C19-raw-control-byte-passthrough).
-/
import FileD.Lemmas.Payload
namespace FileD.PropsC19
open FileD FileD.Payload FileD.SpecC19

/-- `Batch.ForEach` hands the callback exactly the non-child-parent events, in batch order -/
theorem forEach_skips_child_parent {σ : Type} (cb : σ → Ev → σ) (evs : List Ev) (s : σ) :
    forEach cb evs s = (deliverable evs).foldl cb s := forEach_eq_foldl cb evs s

example : forEach (fun (l : List Nat) e => l ++ [e.kind]) [⟨0, [], []⟩, ⟨2, [], []⟩, ⟨1, [], []⟩] [] = [0, 1] := by decide

/-! ### file, gelf, http: separator framing -/

/-- **file**: the bytes written for a batch are the deliverable events, one line each -/
theorem file_frames (lim : Nat) (wd : WD) (batch : List Ev)
    (henc : ∀ e ∈ deliverable batch, NL ∉ e.enc) :
    unframeSep NL (fileOut lim wd batch).2 = some ((deliverable batch).map (·.enc)) := by
  have hdata : (fileOut lim wd batch).2 = (deliverable batch).flatMap (fun e => e.enc ++ [NL]) := by
    simp only [fileOut]
    rw [forEach_eq_foldl, foldl_data _ (fun e => e.enc ++ [NL]) (by intro b e; simp [Buf.append]), resetBuf_data]
    simp
  rw [hdata, flatMap_sep]
  exact unframeSep_frames NL _ (by simpa using henc)

example : unframeSep NL (fileOut 8 (some ⟨[1, 2, 3], 99⟩) [⟨0, [65], []⟩, ⟨2, [66], []⟩, ⟨1, [67], []⟩]).2
    = some [[65], [67]] := by decide

/-- **gelf**: NUL-terminated formatted events -/
theorem gelf_frames (lim : Nat) (wd : WD) (batch : List Ev)
    (henc : ∀ e ∈ deliverable batch, (0 : UInt8) ∉ gelfDoc e) :
    unframeSep 0 (gelfOut lim wd batch).2 = some ((deliverable batch).map gelfDoc) := by
  have hdata : (gelfOut lim wd batch).2 = (deliverable batch).flatMap (fun e => gelfDoc e ++ [0]) := by
    simp only [gelfOut]
    rw [forEach_eq_foldl, foldl_data _ (fun e => gelfDoc e ++ [0]) (by intro b e; simp [Buf.append]), resetBuf_data]
    simp
  rw [hdata, flatMap_sep]
  exact unframeSep_frames 0 _ (by simpa using henc)

example : unframeSep 0 (gelfOut 0 none [⟨0, [65], [[70, 71]]⟩, ⟨2, [66], [[72]]⟩, ⟨0, [67], [[73]]⟩]).2
    = some [[70, 71], [73]] := by decide

/-- **http** (json and raw encoder): the request body is one line per deliverable event -/
theorem http_frames (raw : Bool) (lim : Nat) (wd : WD) (batch : List Ev)
    (henc : ∀ e ∈ deliverable batch, NL ∉ httpContent raw e) :
    unframeSep NL (buildAcc (httpFrame raw) lim wd batch).buf.data
      = some ((deliverable batch).map (httpContent raw)) := by
  rw [(buildAcc_spec (httpFrame raw) lim wd batch).1]
  have : ((deliverable batch).map (httpFrame raw)).flatten
      = ((deliverable batch).map (httpContent raw)).flatMap (· ++ [NL]) := by
    rw [← flatMap_sep, List.flatMap_def]
    rfl
  rw [this]
  exact unframeSep_frames NL _ (by simpa using henc)

example : unframeSep NL (buildAcc (httpFrame true) 4 none [⟨0, [65], [[34, 34]]⟩, ⟨0, [66], []⟩, ⟨0, [67], [[49]]⟩]).buf.data
    = some [[34, 34], [], [49]] := by decide

/-- the body of the one request of the non-split path IS that buffer -/
theorem http_whole_request (frame : Ev → Bytes) (lim : Nat) (wd : WD) (batch : List Ev) (sc : List Nat) :
    ∃ b a sc', httpLikeOut frame false lim wd batch sc = .ok (b, a, sc') ∧
      a.reqs.map (·.body) = [(buildAcc frame lim wd batch).buf.data] := by
  simp only [httpLikeOut, sendWhole]
  exact ⟨_, _, _, rfl, rfl⟩

/-! ### elasticsearch -/

/-- the action line of an event that is not a Fatal configuration error (`[]` otherwise) -/
def esAction (c : EsCfg) (e : Ev) : Bytes :=
  match actionLine true c e with
  | some a => a
  | none => []

/-- **elasticsearch, the fix's guarantee**: WHATEVER bytes the index field holds (quotes,
    newlines, NUL, invalid UTF-8 …), the action line is `{"<op>":{"_index":<one JSON string>}}`
    and contains no newline — provided the operator's `index_format` / time text are plain. -/
theorem es_action_valid (c : EsCfg) (e : Ev) (a : Bytes)
    (hop : NL ∉ c.op) (hf : ∀ b ∈ c.format, SafeByte b) (ht : ∀ b ∈ c.time, SafeByte b)
    (h : actionLine true c e = some a) :
    validAction c.op a = true ∧ NL ∉ a := by
  obtain ⟨x, hx, hc⟩ := actionLine_shape c e a hf ht h
  subst hx
  constructor
  · unfold validAction
    have : headerPrefix c ++ x ++ [34, 125, 125] = (lit "{\"" ++ c.op ++ lit "\":{\"_index\":\"") ++ (x ++ [34, 125, 125]) := by
      simp [headerPrefix]
    rw [this, stripPrefix_append]
    simp only []
    rw [hc.2]
    decide
  · have h1 : NL ∉ headerPrefix c := by
      simp only [headerPrefix, lit, List.mem_append, not_or]
      exact ⟨⟨by decide, hop⟩, by decide⟩
    simp only [List.mem_append, not_or]
    exact ⟨⟨h1, hc.1⟩, by decide⟩

example : actionLine true ⟨lit "index", lit "i-%", [], [lit "idx"]⟩ ⟨0, [], [lit "a\"}}\n{\"x"]⟩
    = some (lit "{\"index\":{\"_index\":\"i-a\\\"}}\\u000a{\\\"x\"}}") := by decide

/-- **elasticsearch routing**: the index name a receiver decodes out of the action line is the
    event's OWN index — `index_format` with its field values put in as they are — whatever bytes
    those values hold: escaping loses nothing and borrows nothing from other events -/
theorem es_index_roundtrip (c : EsCfg) (e : Ev) (a : Bytes)
    (hf : ∀ b ∈ c.format, SafeByte b) (ht : ∀ b ∈ c.time, SafeByte b)
    (h : actionLine true c e = some a) :
    ∃ idx, specIndex c e = some idx ∧ actionIndex c.op a = some idx := by
  unfold actionLine at h
  cases hx : expandFormat true c e c.format 0 (headerPrefix c) with
  | none => simp [hx] at h
  | some res =>
    obtain ⟨x, v, hres, hd, hv⟩ := expandFormat_dec c e ht c.format 0 (headerPrefix c) [] res hf hx
    simp [hx] at h
    refine ⟨v, by simpa [specIndex] using hv, ?_⟩
    subst h; subst hres
    unfold actionIndex
    have : headerPrefix c ++ x ++ lit "\"}}" = (lit "{\"" ++ c.op ++ lit "\":{\"_index\":\"") ++ (x ++ (34 :: lit "}}")) := by
      simp [headerPrefix, lit]
    rw [this, stripPrefix_append]
    simp only []
    rw [hd]
    simp [strDecode]

example : actionIndex (lit "index") (lit "{\"index\":{\"_index\":\"i-a\\\"}}\\u000a{\\\"x\"}}") = some (lit "i-a\"}}\n{\"x")
    ∧ specIndex ⟨lit "index", lit "i-%", [], [lit "idx"]⟩ ⟨0, [], [lit "a\"}}\n{\"x"]⟩ = some (lit "i-a\"}}\n{\"x") := by decide

/-- **elasticsearch**: the bulk body unframes to (action line, document) pairs, one per
    deliverable event, in order -/
theorem es_frames (c : EsCfg) (lim : Nat) (wd : WD) (batch : List Ev)
    (hop : NL ∉ c.op) (hf : ∀ b ∈ c.format, SafeByte b) (ht : ∀ b ∈ c.time, SafeByte b)
    (hcfg : ∀ e ∈ deliverable batch, (actionLine true c e).isSome)
    (henc : ∀ e ∈ deliverable batch, NL ∉ e.enc) :
    unframeES (buildAcc (esFrame true c) lim wd batch).buf.data
      = some ((deliverable batch).map (fun e => (esAction c e, e.enc))) := by
  rw [(buildAcc_spec (esFrame true c) lim wd batch).1]
  have hfr : ∀ e ∈ deliverable batch, esFrame true c e = esAction c e ++ [NL] ++ (e.enc ++ [NL]) := by
    intro e he
    have := hcfg e he
    cases ha : actionLine true c e with
    | none => simp [ha] at this
    | some a => simp [esFrame, esFrame?, esAction, ha]
  have hbody : ((deliverable batch).map (esFrame true c)).flatten
      = (((deliverable batch).map (fun e => (esAction c e, e.enc))).flatMap (fun p => [p.1, p.2])).flatMap (· ++ [NL]) := by
    generalize deliverable batch = l at hfr
    induction l with
    | nil => rfl
    | cons e es ih =>
      simp only [List.map_cons, List.flatten_cons, List.flatMap_cons]
      rw [ih (fun x hx => hfr x (by simp [hx])), hfr e (by simp)]
      simp
  rw [hbody]
  unfold unframeES
  rw [unframeSep_frames NL]
  · simp [pairUp_interleave]
  · intro x hx
    simp only [List.mem_flatMap, List.mem_map] at hx
    obtain ⟨p, ⟨e, he, rfl⟩, hx⟩ := hx
    simp at hx
    rcases hx with rfl | rfl
    · cases ha : actionLine true c e with
      | none => have := hcfg e he; simp [ha] at this
      | some a =>
        have := (es_action_valid c e a hop hf ht ha).2
        simpa [esAction, ha] using this
    · exact henc e he

/-- the code before the fix spliced the value as it is (`esc = false`) -/
def EsFramesUnescaped : Prop :=
  ∀ (c : EsCfg) (batch : List Ev), NL ∉ c.op → (∀ b ∈ c.format, SafeByte b) → (∀ b ∈ c.time, SafeByte b) →
    (∀ e ∈ deliverable batch, NL ∉ e.enc) →
    (unframeES (buildAcc (esFrame false c) 0 none batch).buf.data).map List.length = some (deliverable batch).length

/-- before the fix: ONE event whose index field is `a"}}\n{"delete":{"_index":"x` makes a bulk body
    of two action/document pairs (replayed on the implementation: corpus/C19/es-index-injection.case) -/
theorem es_unescaped_counterexample : ¬ EsFramesUnescaped := by
  intro h
  have := h ⟨lit "index", lit "f-%", lit "t", [lit "idx"]⟩
    [⟨0, lit "{}", [lit "a\"}}\n{\"delete\":{\"_index\":\"x"]⟩]
    (by decide) (by decide) (by decide) (by decide)
  revert this
  decide

/-! ### splunk and loki: bracketed values -/

/-- **splunk**: the HEC body is the envelopes `{"event":<event>…}` back to back; cutting it into
    bracketed values gives one envelope per deliverable event, in order. Assumption: every
    envelope is one bracketed value (true of valid JSON objects). -/
theorem splunk_frames (cfs : List CopyField) (lim : Nat) (wd : WD) (batch : List Ev) (sc : List Nat)
    (h : ∀ e ∈ deliverable batch, wellBracketed (splunkFrame cfs e) = true) :
    ∃ b a sc' q, splunkOut cfs lim batch wd sc = .ok (b, a, sc') ∧ a.reqs = [q] ∧
      unframeConcat (q.body.length + 1) q.body = some ((deliverable batch).map (splunkFrame cfs)) := by
  refine ⟨_, _, _, _, rfl, rfl, ?_⟩
  simp only
  rw [forEach_eq_foldl, foldl_data _ (splunkFrame cfs) (by intro b e; rfl), resetBuf_data]
  simp only [List.nil_append, List.flatMap_def]
  apply unframeConcat_frames _ (by simpa using h)
  have := length_le_flatten ((deliverable batch).map (splunkFrame cfs))
    (by intro v hv; simp only [List.mem_map] at hv; obtain ⟨e, he, rfl⟩ := hv; exact wellBracketed_ne_nil _ (h e he))
  omega

example : ∃ q, (splunkOut [⟨lit "\"time\""⟩] 0 [⟨0, lit "{\"a\":1}", [[1], lit "7"]⟩, ⟨2, lit "{}", [[0], []]⟩, ⟨0, lit "{}", [[0], []]⟩] none []).toOption.map (fun r => r.2.1.reqs) = some [q]
      ∧ unframeConcat (q.body.length + 1) q.body = some [lit "{\"event\":{\"a\":1},\"time\":7}", lit "{\"event\":{}}"] :=
  ⟨_, rfl, by decide⟩

/-- the `values` entries of a batch whose timestamps are all UnixNano -/
def lokiEntriesOf (batch : List Ev) : List Bytes :=
  (deliverable batch).map (fun e => match lokiEv e with | some l => lokiEntry l | none => [])

/-- **loki**: the push request is `{"streams":[{"stream":<labels>,"values":[…]}]}` with one
    `[ts,msg,rest]` entry per deliverable event, in order. Assumptions: the three oracle parts make
    a bracketed value; every timestamp is UnixNano (otherwise nothing is sent — known finding). -/
theorem loki_frames (labels : Bytes) (batch : List Ev) (wd : WD) (sc : List Nat)
    (h : ∀ e ∈ deliverable batch, ∃ l, lokiEv e = some l ∧ l.bad = false ∧ wellBracketed (lokiEntry l) = true) :
    ∃ b a sc' q, lokiOut labels batch wd sc = .ok (b, a, sc') ∧ a.reqs = [q] ∧
      unframeLoki labels q.body = some (lokiEntriesOf batch) := by
  have hvals : ∀ l : List Ev, (∀ e ∈ l, ∃ le, lokiEv e = some le ∧ le.bad = false ∧ wellBracketed (lokiEntry le) = true) →
      lokiValues l = some (l.map (fun e => match lokiEv e with | some l => lokiEntry l | none => [])) := by
    intro l
    induction l with
    | nil => intro _; rfl
    | cons e es ih =>
      intro hl
      obtain ⟨le, h1, h2, _⟩ := hl e (by simp)
      simp [lokiValues, h1, h2, ih (fun x hx => hl x (by simp [hx]))]
  have hany : (deliverable batch).any (fun e => (lokiEv e).isNone) = false := by
    simp only [List.any_eq_false]
    intro e he
    obtain ⟨le, h1, _⟩ := h e he
    simp [h1]
  unfold lokiOut
  simp only [forEach_collect, List.nil_append, hany, hvals _ h]
  refine ⟨_, _, _, _, rfl, rfl, ?_⟩
  simp only [lokiEntriesOf]
  apply unframeLoki_body
  intro v hv
  simp only [List.mem_map] at hv
  obtain ⟨e, he, rfl⟩ := hv
  obtain ⟨le, h1, _, h3⟩ := h e he
  simpa [h1] using h3

example : (lokiOut (lit "{}") [⟨0, [], [[0], lit "\"1\"", lit "\"m\"", lit "{}"]⟩, ⟨0, [], [[0], lit "\"2\"", lit "\"\"", lit "{\"a\":[1]}"]⟩] none []).toOption.map
      (fun r => r.2.1.reqs.map (fun q => unframeLoki (lit "{}") q.body))
    = some [some [lit "[\"1\",\"m\",{}]", lit "[\"2\",\"\",{\"a\":[1]}]"]] := by decide

/-! ### kafka: record values are views into one growing buffer -/

/-- **kafka**: whatever the runtime's growth policy (`grow`) and the initial capacity (`lim`),
    `ProduceSync` receives one record per deliverable event, in order, whose value — read through
    the aliasing view at that moment — is the event's encoding: later appends and reallocations
    never disturb an earlier record. (A batch never exceeds `batch_size`: batcher invariant.) -/
theorem kafka_values (grow : Nat → Nat → Nat) (c : KCfg) (lim : Nat) (batch : List Ev)
    (hsize : (deliverable batch).length ≤ c.batchSize) :
    kafkaOut grow c lim batch = .ok ((deliverable batch).map (fun e => (kafkaTopic c e, e.enc))) := by
  have hinv := kinv_foldl grow c (deliverable batch) ⟨kafkaStart lim, [], false⟩ [] (kinv_init c lim) (by simpa using hsize)
  simp only [List.nil_append] at hinv
  unfold kafkaOut kafkaAcc
  rw [forEach_eq_foldl]
  simp only [hinv.np, Bool.false_eq_true, if_false]
  rw [read_allGood _ c hinv.fr _ _ hinv.good]

/-- **kafka routing**: every record goes to its OWN event's topic — the topic field's value when
    `use_topic_field` is on and the value is not empty, the default topic otherwise — whatever
    earlier events or earlier batches of the worker used -/
theorem kafka_topics (grow : Nat → Nat → Nat) (c : KCfg) (lim : Nat) (batch : List Ev)
    (hsize : (deliverable batch).length ≤ c.batchSize) :
    (kafkaOut grow c lim batch).toOption.map (fun rs => rs.map (·.1))
      = some ((deliverable batch).map (specTopic c)) := by
  have htop : ∀ e, kafkaTopic c e = specTopic c e := by
    intro e
    unfold kafkaTopic specTopic
    cases c.useTopicField <;> cases e.route <;> simp
  rw [kafka_values grow c lim batch hsize]
  simp [Except.toOption, htop]

example : (kafkaOut growDouble ⟨4, lit "dflt", true⟩ 0 [⟨0, lit "{}", [lit "t1"]⟩, ⟨0, lit "{}", [[]]⟩, ⟨0, lit "{}", []⟩]).toOption.map
    (fun rs => rs.map (·.1)) = some [lit "t1", lit "dflt", lit "dflt"] := by decide

/-- the views of one batch never overlap: each record ends before the next one starts
    (same offsets even when a reallocation put them into different arrays) -/
theorem kafka_values_disjoint (grow : Nat → Nat → Nat) (c : KCfg) (lim : Nat) (batch : List Ev)
    (hsize : (deliverable batch).length ≤ c.batchSize) :
    (kafkaAcc grow c lim batch).recs.Pairwise (fun r s => r.value.hi ≤ s.value.lo) := by
  have hinv := kinv_foldl grow c (deliverable batch) ⟨kafkaStart lim, [], false⟩ [] (kinv_init c lim) (by simpa using hsize)
  unfold kafkaAcc
  rw [forEach_eq_foldl]
  exact hinv.ord

/-- capacity 2: the second event forces a reallocation; the first record still reads `[65, 66]`
    from the abandoned array, the second and third share the new one -/
example : (kafkaAcc growDouble ⟨8, [100], false⟩ 2 [⟨0, [65, 66], []⟩, ⟨0, [67], []⟩, ⟨0, [68], []⟩]).recs.map (·.value)
      = [⟨0, 0, 2⟩, ⟨1, 2, 3⟩, ⟨1, 3, 4⟩]
    ∧ (kafkaOut growDouble ⟨8, [100], false⟩ 2 [⟨0, [65, 66], []⟩, ⟨0, [67], []⟩, ⟨0, [68], []⟩]).toOption
      = some [([100], [65, 66]), ([100], [67]), ([100], [68])] := by decide

/-! ### buffer reuse -/

/-- **buffer reuse**: what a batch produces does not depend on the worker data left by the
    batches before it (contents, length or capacity of the reused buffer) -/
theorem buffer_reuse_independent (lim : Nat) (wd wd' : WD) (batch : List Ev) :
    (fileOut lim wd batch).2 = (fileOut lim wd' batch).2 ∧
    (gelfOut lim wd batch).2 = (gelfOut lim wd' batch).2 ∧
    (∀ frame, (buildAcc frame lim wd batch).buf.data = (buildAcc frame lim wd' batch).buf.data ∧
              (buildAcc frame lim wd batch).begin = (buildAcc frame lim wd' batch).begin ∧
              (buildAcc frame lim wd batch).count = (buildAcc frame lim wd' batch).count) := by
  refine ⟨?_, ?_, ?_⟩
  · simp only [fileOut]
    rw [forEach_eq_foldl, forEach_eq_foldl,
      foldl_data _ (fun e => e.enc ++ [NL]) (by intro b e; simp [Buf.append]),
      foldl_data _ (fun e => e.enc ++ [NL]) (by intro b e; simp [Buf.append]), resetBuf_data, resetBuf_data]
  · simp only [gelfOut]
    rw [forEach_eq_foldl, forEach_eq_foldl,
      foldl_data _ (fun e => gelfDoc e ++ [0]) (by intro b e; simp [Buf.append]),
      foldl_data _ (fun e => gelfDoc e ++ [0]) (by intro b e; simp [Buf.append]), resetBuf_data, resetBuf_data]
  · intro frame
    have h1 := buildAcc_spec frame lim wd batch
    have h2 := buildAcc_spec frame lim wd' batch
    refine ⟨by rw [h1.1, h2.1], ?_, by rw [h1.2.1, h2.2.1]⟩
    have := h1.2.2.trans h2.2.2.symm
    exact (List.append_inj' this (by simp)).1

/-- successive batches through one worker: batch `n`'s bytes are those of a fresh worker -/
theorem file_run_independent (lim : Nat) (wd : WD) (bs : List (List Ev)) :
    fileRun lim wd bs = bs.map (fun b => (fileOut lim none b).2) := by
  induction bs generalizing wd with
  | nil => rfl
  | cons b bs ih =>
    simp only [fileRun, List.map_cons]
    rw [ih, (buffer_reuse_independent lim wd none b).1]

example : fileRun 2 none [[⟨0, [65, 65, 65], []⟩], [⟨0, [66], []⟩]] = [[65, 65, 65, 10], [66, 10]] := by decide

/-! ### splitting a request that is too large (elasticsearch and http, `split_batch`) -/

/-- what reached the server for good: the bodies of the accepted requests, and of the requests
    the server refused with 413 although they carried a single event (such an event cannot be
    delivered by any splitting) -/
def deliveredBytes (reqs : List Req) : Bytes := delivered reqs

/-- the split recursion over the begin table of any batch never panics (index / slice bounds)
    and never needs more fuel than the number of events -/
theorem split_never_panics (frame : Ev → Bytes) (lim : Nat) (wd : WD) (batch : List Ev) (sc : List Nat) :
    let a := buildAcc frame lim wd batch
    ∃ res, sendSplit a.count 0 a.count (a.begin ++ [a.buf.data.length]) a.buf.data sc = .ok res := by
  intro a
  have h := buildAcc_spec frame lim wd batch
  simp only [a]
  rw [h.2.2, h.1, h.2.1]
  have := split_ok ((deliverable batch).map frame) (deliverable batch).length 0 (deliverable batch).length sc
    (Nat.zero_le _) (by simp) (by simp)
  simpa using this

/-- **split covers once** (full statement; false of the code before the fix, see
    `split_old_counterexample`). For EVERY script of server answers: if the attempt ends in a
    state `out` commits (no error, or 413), then the accepted requests together with the
    single events refused with 413 concatenate to the whole payload: every event once, in order,
    nothing skipped, nothing repeated. -/
theorem split_covers_once (frame : Ev → Bytes) (lim : Nat) (wd : WD) (batch : List Ev) (sc : List Nat) (res : SR) :
    let a := buildAcc frame lim wd batch
    sendSplit a.count 0 a.count (a.begin ++ [a.buf.data.length]) a.buf.data sc = .ok res →
    (res.err = false ∨ res.code = 413) →
    deliveredBytes res.reqs = a.buf.data := by
  intro a hs hgood
  have h := buildAcc_spec frame lim wd batch
  simp only [a] at hs ⊢
  rw [h.2.2, h.1, h.2.1] at hs
  rw [h.1]
  have := split_covers ((deliverable batch).map frame) (deliverable batch).length 0 (deliverable batch).length sc res
    (Nat.zero_le _) (by simp) (by simp) hs hgood
  have hseg : seg ((deliverable batch).map frame) 0 (deliverable batch).length = (deliverable batch).map frame := by
    simp [seg, List.take_of_length_le]
  rw [hseg] at this
  exact this

/-- **split covers once, partial form**: when no single event is itself rejected, the
    successful requests alone concatenate to the whole payload -/
theorem split_covers_once_partial (frame : Ev → Bytes) (lim : Nat) (wd : WD) (batch : List Ev) (sc : List Nat) (res : SR)
    (hno : ∀ q ∈ res.reqs, q.n = 1 → q.status ≠ 413) :
    let a := buildAcc frame lim wd batch
    sendSplit a.count 0 a.count (a.begin ++ [a.buf.data.length]) a.buf.data sc = .ok res →
    (res.err = false ∨ res.code = 413) →
    (res.reqs.filter (fun q => isOkStatus q.status)).flatMap (·.body) = a.buf.data := by
  intro a hs hgood
  have := split_covers_once frame lim wd batch sc res hs hgood
  rw [← this]
  simp only [deliveredBytes, delivered]
  congr 1
  apply List.filter_congr
  intro q hq
  by_cases h1 : q.n = 1
  · have := hno q hq h1
    simp [this]
  · simp [h1]

/-- the statement `split_covers_once` makes, about the recursion as it was before the fix -/
def SplitCoversOnceOld : Prop :=
  ∀ (fs : List Bytes) (sc : List Nat) (res : SR),
    sendSplitOld fs.length 0 fs.length (offs 0 fs) fs.flatten sc = .ok res →
    (res.err = false ∨ res.code = 413) → deliveredBytes res.reqs = fs.flatten

/-- before the fix: two events, the whole request and then the first event alone answered 413:
    the recursion stopped, the second event was never sent, yet `out` committed the batch
    (replayed on the implementation: corpus/C19/split-single-413-http.case) -/
theorem split_old_counterexample : ¬ SplitCoversOnceOld := by
  intro h
  have := h [[1], [2]] [413, 413] ⟨413, true, [], [⟨413, [1, 2], 2⟩, ⟨413, [1], 1⟩]⟩ rfl (Or.inr rfl)
  revert this
  decide

/-- the same witness through the fixed recursion: the second event is sent -/
example : sendSplit 2 0 2 (offs 0 [[1], [2]]) [1, 2] [413, 413]
    = .ok ⟨413, true, [], [⟨413, [1, 2], 2⟩, ⟨413, [1], 1⟩, ⟨200, [2], 1⟩]⟩ := by rfl

/-- non-vacuity of `split_covers_once`: three events, whole request refused, first half refused,
    the rest accepted -/
example : (sendSplit 3 0 3 (offs 0 [[1], [2], [3]]) [1, 2, 3] [413, 413, 200]).toOption.map
      (fun r => (r.err, r.code, deliveredBytes r.reqs)) = some (true, 413, [1, 2, 3]) := by rfl

/-! ### full statements that are false, with their witnesses -/

/-- `file_frames` without the encoder assumption -/
def FileFramesUnconditional : Prop :=
  ∀ (lim : Nat) (wd : WD) (batch : List Ev),
    unframeSep NL (fileOut lim wd batch).2 = some ((deliverable batch).map (·.enc))

/-- the encoder assumption cannot be dropped: an encoding with a raw newline (insane-json
    re-encodes `{"a":"x<LF>z"}` verbatim) splits into two lines
    (replayed on the implementation: corpus/C19/file-raw-newline.case, known finding) -/
theorem encoder_assumption_needed : ¬ FileFramesUnconditional := by
  intro h
  have := h 0 none [⟨0, lit "{\"a\":\"x\nz\"}", []⟩]
  revert this
  decide

/-- the raw http encoder as it was before the fix (`return buf[:0]` for a missing field) -/
def HttpRawFramesOld : Prop :=
  ∀ (batch : List Ev), (∀ e ∈ deliverable batch, NL ∉ httpContent true e) →
    unframeSep NL (httpRawBodyOld batch) = some ((deliverable batch).map (httpContent true))

/-- before the fix: an event without the field wiped the events encoded before it
    (replayed on the implementation: corpus/C19/http-raw-missing-field.case) -/
theorem http_raw_old_counterexample : ¬ HttpRawFramesOld := by
  intro h
  have := h [⟨0, [], [lit "\"one\""]⟩, ⟨0, [], []⟩, ⟨0, [], [lit "2"]⟩] (by decide)
  revert this
  decide

end FileD.PropsC19
