/-
  C11 — HTTP input: events are the body's lines, however the body is chunked.
  Property theorems only (helper lemmas: FileD/Lemmas/HttpBulk.lean, FileD/Lemmas/HttpConc.lean).

  `HttpBulk.serve` is the model of `serveBulk`/`processBulk`/`processChunk` that the driver executes
  against the real plugin on every run. A request is what its reader returns, call by call
  (`Rd`: data / data with io.EOF / error — for a gzip body the gzip reader's results); theorems
  quantify over all such sequences: any partition of the body, empty reads, 1-byte reads, no bound.
-/
import FileD.Lemmas.HttpBulk
import FileD.Lemmas.HttpConc
namespace FileD.PropsC11
open FileD FileD.HttpBulk FileD.HttpConc FileD.SpecC11

/-- **C11, the oracle itself**: for every request (any read sequence, failing or not, gzip header
    unreadable or not) the actions of the model satisfy `SpecC11.holdsReq` — literally the predicate
    `./check C11` evaluates on the actions observed at the real plugin. -/
theorem http_holds (q : Req) : holdsReq q (serve q) = true := by
  rw [serve_spec]
  unfold holdsReq
  cases hh : q.hdrErr
  · cases hf : failed q.reads
    · simp
    · simp only [Bool.false_eq_true, ↓reduceIte, List.getLast?_append, List.getLast?_singleton,
        Option.some_or, codes_map_inp, inputs_map_inp, codes, inputs, List.append_nil]
      rw [splitLines_eq, isPrefix_append]; simp
  · simp

example : serve ⟨false, [.data [97, 10, 98], .data [], .data [99, 13, 10, 10, 100]]⟩
    = [.inp [97], .inp [98, 99, 13], .inp [], .inp [100], .resp 200] := by decide
example : holdsReq ⟨false, [.data [97, 10, 98], .err []]⟩ [.inp [97], .resp 400] = true := by decide
example : holdsReq ⟨false, [.data [97, 10, 98], .err []]⟩ [.inp [97], .resp 200] = false := by decide
example : holdsReq ⟨false, [.data [97, 10, 98]]⟩ [.inp [97], .resp 200] = false := by decide

/-- **lines, any read sequence**: when no read fails, the events are exactly the lines of the body
    the reads deliver — `\n`-separated, in order, a final non-empty unterminated line included, `\r`
    untouched — followed by the 200. -/
theorem http_lines (reads : List Rd) (hok : failed reads = false) :
    serve ⟨false, reads⟩ = (splitLines (bodyOf reads) []).map .inp ++ [.resp 200] := by
  rw [serve_spec]; simp [hok]

example : failed [.data [120, 10], .data [], .dataEof [121], .dataEof [], .data [105, 103, 110, 111, 114, 101, 100]] = false ∧
    splitLines (bodyOf [.data [120, 10], .data [], .dataEof [121], .dataEof [], .data [105, 103, 110, 111, 114, 101, 100]]) []
      = [[120], [121]] := by decide

/-- **lines, any partition**: for every body and every partition of it into reads (empty reads and
    1-byte reads included) the events are `splitLines body`. -/
theorem http_lines_chunks (chunks : List Bytes) :
    serve ⟨false, chunks.map .data⟩ = (splitLines chunks.flatten []).map .inp ++ [.resp 200] := by
  rw [http_lines _ (failed_data chunks), bodyOf_data]

example : serve ⟨false, [[97], [], [10], [98, 13], [10, 10, 99]].map .data⟩
    = [.inp [97], .inp [98, 13], .inp [], .inp [99], .resp 200] := by
  rw [http_lines_chunks]; decide

/-- **chunking is irrelevant**: two partitions of the same body give the same events. -/
theorem http_chunking_irrelevant (c1 c2 : List Bytes) (h : c1.flatten = c2.flatten) :
    serve ⟨false, c1.map .data⟩ = serve ⟨false, c2.map .data⟩ := by
  rw [http_lines_chunks, http_lines_chunks, h]

example : serve ⟨false, [[97, 10, 98]].map .data⟩ = serve ⟨false, [[97], [10], [], [98]].map .data⟩ :=
  http_chunking_irrelevant _ _ (by decide)

/-- **respond after all lines**: every request produces exactly one response and it is the last
    action. It is a 200 exactly when the gzip reader opened and no read failed, and then every line
    of the body has been handed over before it. Otherwise it is a 400, no 200 occurs, and what was
    handed over are the terminated lines of the bytes read before the failure. -/
theorem respond_after_all_lines (q : Req) :
    ∃ ins code, serve q = ins.map .inp ++ [.resp code] ∧
      (code = 200 ↔ (q.hdrErr = false ∧ failed q.reads = false)) ∧
      (code = 200 → ins = splitLines (bodyOf q.reads) []) ∧
      (code ≠ 200 → code = 400 ∧ (q.hdrErr = false → ins = completeLines (bodyOf q.reads) [])) := by
  rw [serve_spec]
  cases hh : q.hdrErr
  · cases hf : failed q.reads
    · exact ⟨splitLines (bodyOf q.reads) [], 200, by simp⟩
    · exact ⟨completeLines (bodyOf q.reads) [], 400, by simp⟩
  · exact ⟨[], 400, by simp⟩

example : serve ⟨false, [.data [97, 10, 98, 10, 99], .err [100, 10]]⟩ = [.inp [97], .inp [98], .resp 400] := by
  decide
example : serve ⟨true, [.data [97, 10]]⟩ = [.resp 400] := by decide

end FileD.PropsC11
