/-
  C11 — HTTP input: events are the body's lines, however the body is chunked.
  Property theorems only (helper lemmas: FileD/Lemmas/HttpBulk.lean, FileD/Lemmas/HttpConc.lean).

  `HttpBulk.serve` is the model of `serveBulk`/`processBulk`/`processChunk` that the driver executes
  against the real plugin on every run. A request is what its reader returns, call by call
  (`Rd`: data / data with io.EOF / error — for a gzip body the gzip reader's results); theorems
  quantify over all such sequences: any partition of the body, empty reads, 1-byte reads, no bound.
-/
import FileD.Lemmas.HttpBulk
import FileD.Lemmas.HttpConc
namespace FileD.PropsC11
open FileD FileD.HttpBulk FileD.HttpConc FileD.SpecC11

/-- **C11, the oracle itself**: for every request (any read sequence, failing or not, gzip header
    unreadable or not) the actions of the model satisfy `SpecC11.holdsReq` — literally the predicate
    `./check C11` evaluates on the actions observed at the real plugin. -/
theorem http_holds (q : Req) : holdsReq q (serve q) = true := by
  rw [serve_spec]
  unfold holdsReq
  cases hh : q.hdrErr
  · cases hf : failed q.reads
    · simp
    · simp only [Bool.false_eq_true, ↓reduceIte, List.getLast?_append, List.getLast?_singleton,
        Option.some_or, codes_map_inp, inputs_map_inp, codes, inputs, List.append_nil]
      rw [splitLines_eq, isPrefix_append]; simp
  · simp

example : serve ⟨false, [.data [97, 10, 98], .data [], .data [99, 13, 10, 10, 100]]⟩
    = [.inp [97], .inp [98, 99, 13], .inp [], .inp [100], .resp 200] := by decide
example : holdsReq ⟨false, [.data [97, 10, 98], .err []]⟩ [.inp [97], .resp 400] = true := by decide
example : holdsReq ⟨false, [.data [97, 10, 98], .err []]⟩ [.inp [97], .resp 200] = false := by decide
example : holdsReq ⟨false, [.data [97, 10, 98]]⟩ [.inp [97], .resp 200] = false := by decide

/-- the oracle of a whole case (several requests: sequential, concurrent, or advanced step by step
    in any fixed order): the model's answer `qs.map serve` — every request served from its own reads
    only — with one source id per request and the id report `sidWant` satisfies `SpecC11.holds`. -/
theorem http_holds_case (mode : Nat) (qs : List Req) (ended : List Bool) :
    holds mode qs ended (qs.map serve) true (sidWant mode ended (qs.map serve)) = true := by
  have h : allReqs qs (qs.map serve) = true := by
    induction qs with
    | nil => rfl
    | cons q qs ih => simp [allReqs, http_holds, ih]
  simp [holds, h]

example : holds 1 [⟨false, [.data [97, 10]]⟩, ⟨false, [.data [98]]⟩] [true, true]
    [[.inp [97], .resp 200], [.inp [98], .resp 200]] true 1 = false := by
  decide
-- a request that handed over a line of the other request's body (shared reader) is rejected
example : holds 2 [⟨false, [.data [97, 10, 98, 10]]⟩, ⟨false, [.data [120, 10, 121, 10]]⟩] [true, true]
    [[.inp [97], .inp [121], .resp 200], [.inp [120], .resp 200]] true 1 = false := by
  decide

/-- **lines, any read sequence**: when no read fails, the events are exactly the lines of the body
    the reads deliver — `\n`-separated, in order, a final non-empty unterminated line included, `\r`
    untouched — followed by the 200. -/
theorem http_lines (reads : List Rd) (hok : failed reads = false) :
    serve ⟨false, reads⟩ = (splitLines (bodyOf reads) []).map .inp ++ [.resp 200] := by
  rw [serve_spec]; simp [hok]

example : failed [.data [120, 10], .data [], .dataEof [121], .dataEof [], .data [105, 103, 110, 111, 114, 101, 100]] = false ∧
    splitLines (bodyOf [.data [120, 10], .data [], .dataEof [121], .dataEof [], .data [105, 103, 110, 111, 114, 101, 100]]) []
      = [[120], [121]] := by decide

/-- **lines, any partition**: for every body and every partition of it into reads (empty reads and
    1-byte reads included) the events are `splitLines body`. -/
theorem http_lines_chunks (chunks : List Bytes) :
    serve ⟨false, chunks.map .data⟩ = (splitLines chunks.flatten []).map .inp ++ [.resp 200] := by
  rw [http_lines _ (failed_data chunks), bodyOf_data]

example : serve ⟨false, [[97], [], [10], [98, 13], [10, 10, 99]].map .data⟩
    = [.inp [97], .inp [98, 13], .inp [], .inp [99], .resp 200] := by
  rw [http_lines_chunks]; decide

/-- **chunking is irrelevant**: two partitions of the same body give the same events. -/
theorem http_chunking_irrelevant (c1 c2 : List Bytes) (h : c1.flatten = c2.flatten) :
    serve ⟨false, c1.map .data⟩ = serve ⟨false, c2.map .data⟩ := by
  rw [http_lines_chunks, http_lines_chunks, h]

example : serve ⟨false, [[97, 10, 98]].map .data⟩ = serve ⟨false, [[97], [10], [], [98]].map .data⟩ :=
  http_chunking_irrelevant _ _ (by decide)

/-- **respond after all lines**: every request produces exactly one response and it is the last
    action. It is a 200 exactly when the gzip reader opened and no read failed, and then every line
    of the body has been handed over before it. Otherwise it is a 400, no 200 occurs, and what was
    handed over are the terminated lines of the bytes read before the failure. -/
theorem respond_after_all_lines (q : Req) :
    ∃ ins code, serve q = ins.map .inp ++ [.resp code] ∧
      (code = 200 ↔ (q.hdrErr = false ∧ failed q.reads = false)) ∧
      (code = 200 → ins = splitLines (bodyOf q.reads) []) ∧
      (code ≠ 200 → code = 400 ∧ (q.hdrErr = false → ins = completeLines (bodyOf q.reads) [])) := by
  rw [serve_spec]
  cases hh : q.hdrErr
  · cases hf : failed q.reads
    · exact ⟨splitLines (bodyOf q.reads) [], 200, by simp⟩
    · exact ⟨completeLines (bodyOf q.reads) [], 400, by simp⟩
  · exact ⟨[], 400, by simp⟩

example : serve ⟨false, [.data [97, 10, 98, 10, 99], .err [100, 10]]⟩ = [.inp [97], .inp [98], .resp 400] := by
  decide
example : serve ⟨true, [.data [97, 10]]⟩ = [.resp 400] := by decide

/-- **source ids are exclusive**: in every state the plugin can reach by any interleaving of
    requests entering `processBulk`, reading and leaving it, two requests in flight never hold the
    same source id (and an id on the free list is held by nobody).
    Assumed: `getSourceID` / `putSourceID` are atomic (they run under `p.mu`). -/
theorem source_ids_exclusive (s : Sys) (hr : TS.Reachable step? HttpConc.init s)
    (r1 r2 : Nat) (l1 l2 : Live) (h1 : s.live r1 = some l1) (h2 : s.live r2 = some l2) (hne : r1 ≠ r2) :
    l1.sid ≠ l2.sid ∧ l1.sid ∉ s.ids.free :=
  ⟨fun e => hne ((BInv.reachable hr).excl r1 r2 l1 l2 h1 h2 e), ((BInv.reachable hr).liveId r1 l1 h1).2⟩

/-- **the real pop**: on a free list without duplicates whose ids are below `sourceSeq` (what every
    reachable state has), two `getSourceID` calls with no `putSourceID` in between return different
    ids, however many ids are free. -/
theorem two_gets_distinct (i : Ids) (hn : i.free.Nodup) (hlt : ∀ x, x ∈ i.free → x < i.seq) :
    (getId (getId i).2).1 ≠ (getId i).1 := by
  obtain ⟨g1, g2, g3, g4, _, _, _⟩ := getId_props i hn hlt
  obtain ⟨_, _, _, _, _, _, h7⟩ := getId_props (getId i).2 g1 g2
  intro e
  rcases h7 with h | h
  · omega
  · exact g4 (e ▸ h)

example : (getId ⟨[3, 5], 7⟩).1 = 5 ∧ (getId (getId ⟨[3, 5], 7⟩).2).1 = 3 := by decide

/-- **the seeded pop is wrong** (change C11-e: hand out the first free id, drop the last): with two
    free ids two successive gets return the same id — a free list the invariant allows, reached
    after two overlapping requests have finished. -/
theorem mixed_pop_counterexample :
    ∃ i : Ids, i.free.Nodup ∧ (∀ x, x ∈ i.free → x < i.seq) ∧
      (getIdMixed (getIdMixed i).2).1 = (getIdMixed i).1 :=
  ⟨⟨[0, 1], 2⟩, by decide, by decide, by decide⟩

/-- **requests are isolated**: whatever the other requests do in between (any schedule: any
    `List Op`), the events the controller received for a finished request `r` are exactly the
    result of running `r` alone on its own reads (`processBulk all`, i.e. by `http_lines` the lines
    of its body), in order, all under one source id; nothing of another request is among them.
    Assumed (the model makes it so): readBuff / eventBuff / locals belong to the request between
    `sync.Pool.Get` and `Put`; a step of the read loop is atomic with respect to the log only in
    that `In` calls of one request are ordered (they are made by one goroutine). -/
theorem requests_isolated (s : Sys) (hr : TS.Reachable step? HttpConc.init s)
    (r : Nat) (all : List Rd) (outs : List Bytes) (ok : Bool) (hd : s.done r = some (all, outs, ok)) :
    (outs, ok) = processBulk all ∧
    ∃ sid, s.log.filter (fun e => e.1 == r) = outs.map (fun b => (r, sid, b)) :=
  (BInv.reachable hr).doneOk r all outs ok hd

-- non-vacuity: two requests interleaved read by read on one plugin; both finish, with different
-- ids while in flight, each with exactly its own lines; the log interleaves them
def demoOps : List Op :=
  [.start 0 [.data [97, 10, 98], .data [98, 10]], .start 1 [.data [120], .data [10, 121]],
   .read 0, .read 1, .read 0, .read 1, .read 1, .read 0]

example : (TS.run step? HttpConc.init demoOps).map (fun s => (s.done 0, s.done 1, s.log, s.ids.free)) =
    some (some ([.data [97, 10, 98], .data [98, 10]], [[97], [98, 98]], true),
          some ([.data [120], .data [10, 121]], [[120], [121]], true),
          [(0, 0, [97]), (0, 0, [98, 98]), (1, 1, [120]), (1, 1, [121])], [1, 0]) := by
  rfl
example : ((TS.run step? HttpConc.init (demoOps.take 4)).map
    (fun s => ((s.live 0).map (·.sid), (s.live 1).map (·.sid)))) = some (some 0, some 1) := by decide

end FileD.PropsC11
