/-
  C12 — fidelity ("a well-formed line yields exactly its fields"): for every row whose fields avoid
  the delimiters the format reserves, `decode (render row) = row`, with and without the trailing
  newline. Hypotheses are only about reserved delimiters (and, for syslog, about the timestamp being
  one the decoder's own `validateTimestamp` accepts).
-/
import FileD.Lemmas.Dec.CRI
import FileD.Lemmas.Dec.Postgres
import FileD.Lemmas.Dec.Syslog3164
import FileD.Lemmas.Dec.CSV
import FileD.Lemmas.Dec.Nginx
import FileD.Lemmas.Dec.Syslog5424
namespace FileD.PropsC12F
open FileD GoSlice FileD.Dec

/-- **CRI**: `time SP stream SP tag SP log`: `time`, `stream` (6 bytes), `tag` free of spaces, `tag`
    non-empty; `log` arbitrary (so: with or without a trailing newline). A full line keeps `log` as
    it is, a partial line (`tag` starts with 'P') loses exactly one trailing newline if there is one. -/
theorem cri_fields (time stream : Bytes) (t0 : UInt8) (tag log : Bytes)
    (ht : SP ∉ time) (hs : SP ∉ stream) (hs6 : stream.length = 6) (h0 : t0 ≠ SP) (htag : SP ∉ tag) :
    CRI.decode (time ++ SP :: (stream ++ SP :: (t0 :: tag ++ SP :: log)))
      = .ok (some ⟨if t0 == 80 then trimSuffixNL log else log, time, stream, t0 == 80⟩) :=
  CRI.decode_fields time stream t0 tag log ht hs hs6 h0 htag

-- "t stdout P ab\n" → log "ab";  "t stdout F ab\n" → log "ab\n"
example : CRI.decode ([116] ++ SP :: ([115, 116, 100, 111, 117, 116] ++ SP :: (80 :: [] ++ SP :: [97, 98, 10])))
    = .ok (some ⟨[97, 98], [116], [115, 116, 100, 111, 117, 116], true⟩) := by
  rw [cri_fields _ _ _ _ _ (by decide) (by decide) rfl (by decide) (by decide)]; rfl

/-- **Postgres**: `t1 t2 t3 [pid]<mid>[pmn]<pre1>=client,<pre2>=db,<pre3>=user lvl<x>log`
    (documented format: mid = `" => "`, pre1 = `" client"`, pre2 = `"db"`, pre3 = `"user"`, x = `' '`).
    Reserved: space in the three timestamp words, `user`, `lvl`; `]` in pid / pmn; `[` in mid;
    `,` in client / db; `=` and the terminator in the labels. `log` is arbitrary (it keeps a trailing
    newline if the line has one). The buffer is returned untouched. -/
theorem postgres_fields (t1 t2 t3 : Bytes) (o : UInt8) (pid mid pmn pre1 c pre2 d pre3 u lvl : Bytes) (x : UInt8) (log : Bytes)
    (h1 : SP ∉ t1) (h2 : SP ∉ t2) (h3 : SP ∉ t3)
    (ho : o ≠ cRBr) (hpid : cRBr ∉ pid) (hmid : cLBr ∉ mid) (hpmn : cRBr ∉ pmn)
    (hp1 : cEq ∉ pre1 ∧ cComma ∉ pre1) (hc : cComma ∉ c)
    (hp2 : cEq ∉ pre2 ∧ cComma ∉ pre2) (hd : cComma ∉ d)
    (hp3 : cEq ∉ pre3 ∧ SP ∉ pre3) (hu : SP ∉ u) (hlvl : SP ∉ lvl) :
    Postgres.decode (Postgres.render t1 t2 t3 o pid mid pmn pre1 c pre2 d pre3 u lvl x log)
      = .ok (some ⟨t1 ++ SP :: (t2 ++ SP :: t3), pid, pmn, c, d, u, log⟩,
             Postgres.render t1 t2 t3 o pid mid pmn pre1 c pre2 d pre3 u lvl x log) :=
  Postgres.decode_fields t1 t2 t3 o pid mid pmn pre1 c pre2 d pre3 u lvl x log h1 h2 h3 ho hpid hmid hpmn hp1 hc hp2 hd hp3 hu hlvl

-- "d t z [7] => [3-1] client=c,db=d,user=u LOG:  hi"
example : (Postgres.decode (Postgres.render [100] [116] [122] cLBr [55] [32, 61, 62, 32] [51, 45, 49]
      [32, 99, 108, 105, 101, 110, 116] [99] [100, 98] [100] [117, 115, 101, 114] [117] [76, 79, 71, 58] 32 [104, 105])).map (·.1)
    = .ok (some ⟨[100, 32, 116, 32, 122], [55], [51, 45, 49], [99], [100], [117], [104, 105]⟩) := by rfl

/-- **syslog RFC3164**: `<pri>ts host app[procid]: msg`, with and without the trailing newline.
    `pri`: 1–3 digits with value ≤ 191; `ts`: 15 bytes that the decoder's `validateTimestamp` accepts
    (followed by the space); `host` free of spaces; `app` free of `[ : space`; `procid` free of `]`;
    `msg` arbitrary but not ending in a newline. -/
theorem s3164_fields (fs ss : Bool) (pri ts host app procid msg : Bytes) (p : Int) (nl : Bool)
    (ha : atoi pri = some p) (hp : p ≤ 191) (hl : 1 ≤ pri.length ∧ pri.length ≤ 3)
    (hts : ts.length = 15) (hv : Syslog3164.validateTimestamp (ts ++ [SP]) = .ok true)
    (hh : SP ∉ host) (happ : ∀ x ∈ app, x ∉ [cLBr, cColon, SP]) (hpr : cRBr ∉ procid)
    (hmsg : msg.getLast? ≠ some NL) :
    Syslog3164.decode fs ss (Syslog3164.render pri ts host app procid msg ++ (if nl then [NL] else []))
      = .ok (some ⟨pri, Syslog.facility p fs, Syslog.severity p ss, ts, host, app, procid, msg⟩) :=
  Syslog3164.decode_fields fs ss pri ts host app procid msg p nl ha hp hl hts hv hh happ hpr hmsg

-- "<34>Oct 11 22:14:15 h a[1]: m\n"
example : Syslog3164.decode false false (Syslog3164.render [51, 52]
      [79, 99, 116, 32, 49, 49, 32, 50, 50, 58, 49, 52, 58, 49, 53] [104] [97] [49] [109] ++ [NL])
    = .ok (some ⟨[51, 52], [52], [50], [79, 99, 116, 32, 49, 49, 32, 50, 50, 58, 49, 52, 58, 49, 53],
                 [104], [97], [49], [109]⟩) := by rfl

/-- **syslog RFC5424**, NILVALUE structured data: `<pri>ver ts host app procid msgid - msg`, with and
    without the trailing newline. An empty field is written as the NILVALUE `-` (`nilOr`); a
    present field is free of spaces and is not literally `-` (`FieldOK`); `pri` ≤ 3 digits with value
    ≤ 191; `ver` digits; `ts` empty or accepted by the decoder's `validateTimestamp`; `msg`
    arbitrary (a leading BOM is removed: `stripBom`), without `nl` not ending in a newline. -/
theorem s5424_fields (facStr sevStr nl : Bool) (pri ver ts host app procid msgid msg : Bytes) (p : Int)
    (hpri : atoi pri = some p) (hpl : pri.length ≤ 3) (hp : p ≤ 191)
    (hver : (atoi ver).isSome)
    (hts : ts = [] ∨ (SP ∉ ts ∧ Syslog5424.validateTimestamp ts = .ok true))
    (hhost : Syslog5424.FieldOK host) (happ : Syslog5424.FieldOK app) (hproc : Syslog5424.FieldOK procid)
    (hmsgid : Syslog5424.FieldOK msgid)
    (hnl : nl = false → msg.getLast? ≠ some NL) :
    Syslog5424.decode facStr sevStr ([cLt] ++ pri ++ [cGt] ++ ver ++ [SP] ++ Syslog5424.nilOr ts ++ [SP] ++
        Syslog5424.nilOr host ++ [SP] ++ Syslog5424.nilOr app ++ [SP] ++ Syslog5424.nilOr procid ++ [SP] ++
        Syslog5424.nilOr msgid ++ [SP, cMinus, SP] ++ msg ++ (if nl then [NL] else [])) =
      .ok (some ⟨pri, Syslog.facility p facStr, Syslog.severity p sevStr, ver, ts, host, app, procid, msgid,
                 Syslog5424.stripBom msg, []⟩) :=
  Syslog5424.decode_fields facStr sevStr nl pri ver ts host app procid msgid msg p hpri hpl hp hver hts hhost happ hproc hmsgid hnl

/-- **syslog RFC5424**, one structured-data element `[id k="v"]`: `id` ≥ 2 bytes without space;
    `k` free of `] " space =`; `v` free of `] "` and not ending in a backslash; the message must not
    start with a space (after an element the decoder eats one more space than after `-`). -/
theorem s5424_fields_sd (facStr sevStr nl : Bool) (pri ver ts host app procid msgid id k v msg : Bytes) (p : Int)
    (hpri : atoi pri = some p) (hpl : pri.length ≤ 3) (hp : p ≤ 191)
    (hver : (atoi ver).isSome)
    (hts : ts = [] ∨ (SP ∉ ts ∧ Syslog5424.validateTimestamp ts = .ok true))
    (hhost : Syslog5424.FieldOK host) (happ : Syslog5424.FieldOK app) (hproc : Syslog5424.FieldOK procid)
    (hmsgid : Syslog5424.FieldOK msgid)
    (hid : SP ∉ id) (hidl : 2 ≤ id.length)
    (hk : ∀ c ∈ k, c ≠ cRBr ∧ c ≠ cQuote ∧ c ≠ SP ∧ c ≠ cEq)
    (hv : ∀ c ∈ v, c ≠ cRBr ∧ c ≠ cQuote) (hvl : v.getLast? ≠ some cBackslash)
    (hmsg : msg.head? ≠ some SP)
    (hnl : nl = false → msg.getLast? ≠ some NL) :
    Syslog5424.decode facStr sevStr ([cLt] ++ pri ++ [cGt] ++ ver ++ [SP] ++ Syslog5424.nilOr ts ++ [SP] ++
        Syslog5424.nilOr host ++ [SP] ++ Syslog5424.nilOr app ++ [SP] ++ Syslog5424.nilOr procid ++ [SP] ++
        Syslog5424.nilOr msgid ++ [SP] ++
        ([cLBr] ++ id ++ [SP] ++ k ++ [cEq, cQuote] ++ v ++ [cQuote, cRBr]) ++ [SP] ++ msg ++
        (if nl then [NL] else [])) =
      .ok (some ⟨pri, Syslog.facility p facStr, Syslog.severity p sevStr, ver, ts, host, app, procid, msgid,
                 Syslog5424.stripBom msg, [(id, [(k, v)])]⟩) :=
  Syslog5424.decode_sd_one facStr sevStr nl pri ver ts host app procid msgid id k v msg p hpri hpl hp hver hts
    hhost happ hproc hmsgid hid hidl hk hv hvl hmsg hnl

-- `<165>1 2003-10-11T22:14:15.003Z host app 10 ID47 [ab k="v"] hi`
example : Syslog5424.decode false false [60,49,54,53,62,49,32, 50,48,48,51,45,49,48,45,49,49,84,50,50,58,49,52,58,49,53,46,48,48,51,90,32,
      104,111,115,116,32, 97,112,112,32, 49,48,32, 73,68,52,55,32, 91,97,98,32,107,61,34,118,34,93,32, 104,105] =
    .ok (some ⟨[49,54,53], [50,48], [53], [49], [50,48,48,51,45,49,48,45,49,49,84,50,50,58,49,52,58,49,53,46,48,48,51,90],
      [104,111,115,116], [97,112,112], [49,48], [73,68,52,55], [104,105], [([97,98], [([107], [118])])]⟩) := by rfl

/-- **nginx error log**: `date clock [level] pid#tid: msg`, with and without the trailing newline.
    `date`, `clock`, `level` free of spaces, `level` non-empty, `pid` / `tid` free of space `#` `:`;
    `msg` arbitrary except: a message that starts with `*` and contains a space is read as a
    connection id (next theorem), and without `nl` it must not end in a newline. -/
theorem nginx_fields (letters : Bytes → Bool) (date clock level pid tid msg : Bytes) (nl : Bool)
    (hdate : SP ∉ date) (hclock : SP ∉ clock) (hlevel : SP ∉ level) (hlevel0 : level ≠ [])
    (hpid : ∀ c ∈ pid, c ≠ SP ∧ c ≠ cHash ∧ c ≠ cColon)
    (htid : ∀ c ∈ tid, c ≠ SP ∧ c ≠ cHash ∧ c ≠ cColon)
    (hstar : SP ∈ msg → msg.head? ≠ some cStar)
    (hnl : nl = false → msg.getLast? ≠ some NL) :
    Nginx.decode false letters (date ++ [SP] ++ clock ++ [SP, 91] ++ level ++ [93, SP] ++ pid ++ [35] ++ tid
        ++ [58, SP] ++ msg ++ (if nl then [NL] else []))
      = .ok (some ⟨date ++ [SP] ++ clock, level, pid, tid, [], msg, []⟩) :=
  Nginx.decode_fields letters date clock level pid tid msg nl hdate hclock hlevel hlevel0 hpid htid hstar hnl

/-- … with a connection id `*cid ` (cid free of spaces) in front of the message -/
theorem nginx_fields_cid (letters : Bytes → Bool) (date clock level pid tid cid msg : Bytes) (nl : Bool)
    (hdate : SP ∉ date) (hclock : SP ∉ clock) (hlevel : SP ∉ level) (hlevel0 : level ≠ [])
    (hpid : ∀ c ∈ pid, c ≠ SP ∧ c ≠ cHash ∧ c ≠ cColon)
    (htid : ∀ c ∈ tid, c ≠ SP ∧ c ≠ cHash ∧ c ≠ cColon)
    (hcid : SP ∉ cid)
    (hnl : nl = false → msg.getLast? ≠ some NL) :
    Nginx.decode false letters (date ++ [SP] ++ clock ++ [SP, 91] ++ level ++ [93, SP] ++ pid ++ [35] ++ tid
        ++ [58, SP, 42] ++ cid ++ [SP] ++ msg ++ (if nl then [NL] else []))
      = .ok (some ⟨date ++ [SP] ++ clock, level, pid, tid, cid, msg, []⟩) :=
  Nginx.decode_fields_cid letters date clock level pid tid cid msg nl hdate hclock hlevel hlevel0 hpid htid hcid hnl

/-- … and with `nginx_with_custom_fields`: the message (free of `", "`) followed by
    `, key: "value"` fields (ASCII-letter keys; values free of `", "`, not starting / ending with a
    quote) yields the message and the key → value map (`customOf`: for a repeated key the first
    occurrence in the line wins). -/
theorem nginx_fields_custom (letters : Bytes → Bool) (date clock level pid tid msg : Bytes)
    (kvs : List (Bytes × Bytes)) (nl : Bool)
    (hdate : SP ∉ date) (hclock : SP ∉ clock) (hlevel : SP ∉ level) (hlevel0 : level ≠ [])
    (hpid : ∀ c ∈ pid, c ≠ SP ∧ c ≠ cHash ∧ c ≠ cColon)
    (htid : ∀ c ∈ tid, c ≠ SP ∧ c ≠ cHash ∧ c ≠ cColon)
    (hmsg : Nginx.noSep msg = true)
    (hkv : ∀ kv ∈ kvs, kv.1.all Nginx.asciiLetter = true ∧ Nginx.noSep kv.2 = true
            ∧ kv.2.head? ≠ some cQuote ∧ kv.2.getLast? ≠ some cQuote)
    (hstar : (SP ∈ msg ∨ kvs ≠ []) → msg.head? ≠ some cStar)
    (hnl : nl = false → kvs = [] → msg.getLast? ≠ some NL) :
    Nginx.decode true letters (date ++ [SP] ++ clock ++ [SP, 91] ++ level ++ [93, SP] ++ pid ++ [35] ++ tid
        ++ [58, SP] ++ msg ++ kvs.flatMap Nginx.fld ++ (if nl then [NL] else []))
      = .ok (some ⟨date ++ [SP] ++ clock, level, pid, tid, [], msg, Nginx.customOf kvs⟩) :=
  Nginx.decode_fields_custom letters date clock level pid tid msg kvs nl hdate hclock hlevel hlevel0 hpid htid hmsg hkv hstar hnl

-- "d c [e] 1#2: *7 m, k: \"v\"\n"
example : Nginx.decode true (fun _ => false)
    [100, 32, 99, 32, 91, 101, 93, 32, 49, 35, 50, 58, 32, 42, 55, 32, 109, 44, 32, 107, 58, 32, 34, 118, 34, 10]
    = .ok (some ⟨[100, 32, 99], [101], [49], [50], [55], [109], [([107], [118])]⟩) := by rfl

/-- **CSV** (no trailing newline): fields rendered unquoted (free of delimiter, quote, CR, NL) or
    quoted (arbitrary bytes, `"` doubled), joined by the delimiter, decode to exactly those fields
    and the buffer is untouched. `trim` (= `bytes.TrimSpace`) only has to leave the last unquoted
    field alone. An empty rendered line decodes to zero fields, hence `hrow`. -/
theorem csv_fields (delim : UInt8) (trim : Bytes → Bytes) (fs : List (Bool × Bytes))
    (hd : delim ≠ cQuote) (hn : delim ≠ NL)
    (hrow : CSV.renderRow delim fs ≠ [])
    (hunq : ∀ p ∈ fs, p.1 = false → delim ∉ p.2 ∧ cQuote ∉ p.2 ∧ CR ∉ p.2 ∧ NL ∉ p.2)
    (htrim : ∀ f, fs.getLast? = some (false, f) → trim f = f) :
    CSV.decode delim trim (CSV.renderRow delim fs) = .ok (some (fs.map (·.2)), CSV.renderRow delim fs) :=
  CSV.decode_fields delim trim fs hd hn hrow hunq htrim

/-- **CSV** with the trailing newline (`delim ≠ CR` is what `validDelim` enforces). -/
theorem csv_fields_nl (delim : UInt8) (trim : Bytes → Bytes) (fs : List (Bool × Bytes))
    (hd : delim ≠ cQuote) (hn : delim ≠ NL) (hr : delim ≠ CR)
    (hne : fs ≠ [])
    (hunq : ∀ p ∈ fs, p.1 = false → delim ∉ p.2 ∧ cQuote ∉ p.2 ∧ CR ∉ p.2 ∧ NL ∉ p.2)
    (htrim : ∀ f, fs.getLast? = some (false, f) → trim (f ++ [NL]) = f) :
    CSV.decode delim trim (CSV.renderRow delim fs ++ [NL]) =
      .ok (some (fs.map (·.2)), CSV.renderRow delim fs ++ [NL]) :=
  CSV.decode_fields_nl delim trim fs hd hn hr hne hunq htrim

example : CSV.decode 44 id (CSV.renderRow 44 [(true, [97, 34, 44, 10]), (false, []), (false, [99])]) =
    .ok (some [[97, 34, 44, 10], [], [99]], CSV.renderRow 44 [(true, [97, 34, 44, 10]), (false, []), (false, [99])]) := by rfl

end FileD.PropsC12F
