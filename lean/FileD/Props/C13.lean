/-
  C13 — no event content can crash or corrupt an action plugin.
  Property theorems only, for the modelled index-arithmetic cores (helper lemmas:
  FileD/Lemmas/Act/*.lean). "Total" = the model never takes the value `.error p`, i.e. the Go
  code never panics with an index / slice bounds error, for every value of the event field.
  The bodies of the un-modelled plugins are validated by the harness only (checks/p_C13.py).
-/
import FileD.Lemmas.Act.Subst
import FileD.Lemmas.Act.Utf8Bytes
import FileD.Lemmas.Act.HashTok
import FileD.Lemmas.Act.Fields
namespace FileD.PropsC13
open FileD FileD.Act

/-! ### cfg/substitution filters (plugin `modify`) -/

/-- `cut(mode, count)` never panics, for every count and every value. -/
theorem cut_total (m : Subst.CutMode) (count : Nat) (src : Bytes) (p : Panic) :
    Subst.applyCut m count src ≠ .error p := by
  obtain ⟨out, h⟩ := Subst.applyCut_ok m count src
  simp [h]

/-- cut("last",2) on "abc" = "bc" -/
example : Subst.applyCut .last 2 [97, 98, 99] = .ok [98, 99] := by rfl

/-- `trim_to(mode, cutset)` never panics, for every cutset — the empty one included — and every
    value (after the repair `src[:idx+len(cutset)]`; before it the empty cutset sliced
    `src[:len(src)+1]`, corpus/C13/modify-trimto-empty-cutset.case). -/
theorem trimto_total (m : Subst.TrimMode) (cutset src : Bytes) (p : Panic) :
    Subst.applyTrimTo m cutset src ≠ .error p := by
  obtain ⟨out, h⟩ := Subst.applyTrimTo_ok m cutset src
  simp [h]

/-- trim_to("all","|") on "a|b|c" = "|b|" ; trim_to("right","") leaves "12345678" as it is -/
example : Subst.applyTrimTo .all [124] [97, 124, 98, 124, 99] = .ok [124, 98, 124] := by rfl
example : Subst.applyTrimTo .right [] [49, 50, 51, 52, 53, 54, 55, 56] = .ok [49, 50, 51, 52, 53, 54, 55, 56] := by rfl

/-- `re(...)` never panics when the rows of `FindAllSubmatchIndex` have the documented shape:
    for every selected group both ends are present and are either -1 or a range inside the
    value. (cfg.VerifyGroupNumbers guarantees `group ≤ NumSubexp`, hence "present".) -/
theorem re_total (groups : List Nat) (sep : Bytes) (e : Bool) (ms : List (List Int)) (src : Bytes)
    (h : Subst.ReShape src groups ms) (p : Panic) :
    Subst.applyRe groups sep e ms src ≠ .error p := by
  obtain ⟨out, h⟩ := Subst.applyRe_ok groups sep e ms src h
  simp [h]

/-- `(a)|(b)` on "xbx" with groups [1,2]: group 1 did not take part (-1,-1) -/
example : Subst.applyRe [1, 2] [44] false [[1, 2, -1, -1, 1, 2]] [120, 98, 120] = .ok [98] := by rfl
example : Subst.ReShape [120, 98, 120] [1, 2] [[1, 2, -1, -1, 1, 2]] := by
  intro ix hix g hg
  simp at hix hg
  subst hix
  rcases hg with rfl | rfl
  · exact ⟨-1, -1, by rfl, by rfl, Or.inl rfl⟩
  · exact ⟨1, 2, by rfl, by rfl, Or.inr (Or.inr (by simp))⟩

/-- a chain is well-formed for a value when every `re` filter's oracle has the right shape for
    the value that reaches it -/
def ChainOk : List Subst.Filter → Bytes → Prop
  | [], _ => True
  | f :: fs, s =>
    (match f with
      | .re g _ _ ms => Subst.ReShape s g ms
      | _ => True) ∧
    ∀ s', Subst.apply f s = .ok s' → ChainOk fs s'

/-- the filter loop of `modify.Do` never panics: any chain of cut / trim / trim_to / re filters,
    any value. -/
theorem subst_total (fs : List Subst.Filter) (src : Bytes) (h : ChainOk fs src) (p : Panic) :
    Subst.run fs src ≠ .error p := by
  induction fs generalizing src with
  | nil => simp [Subst.run]
  | cons f fs ih =>
    obtain ⟨hf, hrest⟩ := h
    have hok : ∃ s', Subst.apply f src = .ok s' := by
      cases f with
      | cut m c => exact Subst.applyCut_ok m c src
      | trimTo m cs => exact Subst.applyTrimTo_ok m cs src
      | trim m cs => exact ⟨_, rfl⟩
      | re g s e ms => exact Subst.applyRe_ok g s e ms src hf
    obtain ⟨s', hs'⟩ := hok
    simp only [Subst.run, hs', bind, Except.bind]
    exact ih s' (hrest s' hs')

/-- `${f|trim_to("left","{")|trim_to("right","}")|cut("first",3)}` on "x{ab}y" = "{ab" -/
example : Subst.run [.trimTo .left [123], .trimTo .right [125], .cut .first 3] [120, 123, 97, 98, 125, 121] = .ok [123, 97, 98] := by
  rfl
example : ChainOk [.trimTo .left [123], .trimTo .right [125], .cut .first 3] [120, 123, 97, 98, 125, 121] := by
  refine ⟨trivial, fun _ _ => ⟨trivial, fun _ _ => ⟨trivial, fun _ _ => trivial⟩⟩⟩

/-! ### convert_utf8_bytes -/

/-- the escape scanner never panics: every string value, every `replace_non_graphic` setting,
    whatever `unicode.IsGraphic` answers. -/
theorem utf8_total (cfg : Utf8Bytes.Cfg) (s : Bytes) (p : Panic) : Utf8Bytes.convert cfg s ≠ .error p := by
  obtain ⟨out, h⟩ := Utf8Bytes.convert_ok cfg s
  simp [h]

/-- `\x41\x42` becomes "AB"; a lone high surrogate `\ud801` is kept as text -/
example : Utf8Bytes.convert ⟨false, fun _ => true⟩ [92, 120, 52, 49, 92, 120, 52, 50] = .ok (some [65, 66]) := by rfl
example : Utf8Bytes.convert ⟨false, fun _ => true⟩ [92, 117, 100, 56, 48, 49] = .ok (some [92, 117, 100, 56, 48, 49]) := by rfl

/-- the scanning loop terminates within `len + 1` iterations (the fuel of the model is never the
    reason for its result) -/
theorem utf8_loop_terminates (cfg : Utf8Bytes.Cfg) (s buf : Bytes) :
    ∃ out, Utf8Bytes.loop cfg (s.length + 1) s buf = .ok out :=
  Utf8Bytes.loop_ok cfg (s.length + 1) s buf (by omega)

/-! ### hash: by-bytes tokenizer of the normalizer -/

/-- `normalizeByTokenizer` never panics: every enabled pattern set, every field value. In
    particular `tok.data[prevEnd:t.begin]`, `tok.data[prevEnd:]` and `t.pos = pos + t.counter`
    stay inside the value, and the token loop terminates. -/
theorem hashtok_total (has : Nat → Bool) (data : Bytes) (p : Panic) :
    HashTok.normalize has data ≠ .error p := by
  obtain ⟨out, h⟩ := HashTok.normalize_ok has data
  simp [h]

/-- every token lies inside the value, starts at or after the scan position and makes progress -/
theorem hashtok_token_in_bounds (has : Nat → Bool) (data : Bytes) (pos : Nat) :
    ∃ r, HashTok.nextToken has data pos = .ok r ∧ HashTok.Good pos data r :=
  HashTok.nextToken_ok has data pos

/-- `a""b"c` with double_quoted enabled: `""b"` opens with two quotes and is never closed by two,
    so the partial token runs to the end: `a<double_quoted>` -/
example : HashTok.normalize (fun p => p == 4) [97, 34, 34, 98, 34, 99] =
    .ok ([97] ++ HashTok.placeholder 4) := by rfl
/-- `{a}` with every pattern enabled -/
example : HashTok.normalize (fun _ => true) [123, 97, 125, 120] = .ok (HashTok.placeholder 1 ++ [120]) := by rfl

/-! ### rename / move: key bookkeeping over the event tree

  `wf` (Spec/C13.lean): every number literal of the tree is a JSON number; that is exactly what
  a tree needs to encode to a document that re-parses (keys and strings are escaped by the
  encoder, everything else is fixed syntax). -/

/-- rename leaves a well-formed event well-formed: any override setting, any list of
    (path, new name) pairs, any event. -/
theorem rename_wellformed (preserve : Bool) (pairs : List (List Bytes × Bytes)) (root : JTree)
    (h : SpecC13.wf root = true) : SpecC13.wf (Fields.rename preserve pairs root) = true :=
  Fields.wf_rename preserve pairs h

/-- {"a":{"b":1},"c":2} with a.b → c and override: {"a":{},"c":1} -/
example : Fields.rename false [([[97], [98]], [99])]
    (.obj [([97], .obj [([98], .num [49])]), ([99], .num [50])]) =
    .obj [([97], .obj []), ([99], .num [49])] := by rfl

/-- move (mode allow) never panics on `field[len(field)-1]` and leaves a well-formed event
    well-formed, for every target and every list of non-empty field paths (validation drops empty
    selectors; `ParseFieldSelector` of a non-empty selector is non-empty). -/
theorem move_allow_total_wellformed (target : List Bytes) (fields : List (List Bytes)) (root : JTree)
    (h : SpecC13.wf root = true) (hf : ∀ f ∈ fields, f ≠ []) :
    ∃ r, Fields.moveAllow target fields root = .ok r ∧ SpecC13.wf r = true :=
  Fields.moveAllow_ok target fields root h hf

theorem move_allow_total (target : List Bytes) (fields : List (List Bytes)) (root : JTree)
    (h : SpecC13.wf root = true) (hf : ∀ f ∈ fields, f ≠ []) (p : Panic) :
    Fields.moveAllow target fields root ≠ .error p := by
  obtain ⟨r, hr, _⟩ := Fields.moveAllow_ok target fields root h hf
  simp [hr]

/-- {"a":1,"b":{"c":2}} with fields [a, b.c] to target t: {"b":{},"t":{"a":1,"c":2}} -/
example : Fields.moveAllow [[116]] [[[97]], [[98], [99]]]
    (.obj [([97], .num [49]), ([98], .obj [([99], .num [50])])]) =
    .ok (.obj [([116], .obj [([97], .num [49]), ([99], .num [50])]), ([98], .obj [])]) := by rfl

/-- the empty path is what the hypothesis excludes: `field[len(field)-1]` would be `field[-1]` -/
example : Fields.lastElem [] = .error .bounds := by rfl

/-- move (mode block), with its range-over-a-shrinking-array loop, leaves a well-formed event
    well-formed. -/
theorem move_block_wellformed (tkey : Bytes) (blocked : List Bytes) (root : JTree)
    (h : SpecC13.wf root = true) : SpecC13.wf (Fields.moveBlock tkey blocked root) = true :=
  Fields.wf_moveBlock tkey blocked h

/-- {"a":1,"x":2,"b":3} block [x] target t: a, b moved; the swap-removes leave x, t -/
example : Fields.moveBlock [116] [[120]] (.obj [([97], .num [49]), ([120], .num [50]), ([98], .num [51])]) =
    .obj [([116], .obj [([97], .num [49]), ([98], .num [51])]), ([120], .num [50])] := by rfl

/-- what modify and convert_utf8_bytes do to the tree: a string is written at a path
    (`CreateNestedField(root, path).MutateToBytesCopy(out)` / `node.MutateToBytesCopy`); whatever
    bytes the filters or the scanner produced, the event stays well-formed. -/
theorem modify_wellformed (path : List Bytes) (out : Bytes) (root : JTree) (h : SpecC13.wf root = true) :
    SpecC13.wf (Fields.updateAt (fun _ => .str out) path (Fields.createNested path root)) = true :=
  Fields.wf_updateAt _ (fun _ _ => rfl) path (Fields.wf_createNested path h)

theorem utf8_wellformed (path : List Bytes) (out : Bytes) (root : JTree) (h : SpecC13.wf root = true) :
    SpecC13.wf (Fields.updateAt (fun _ => .str out) path root) = true :=
  Fields.wf_updateAt _ (fun _ _ => rfl) path h

example : SpecC13.wf (.obj [([97], .num [49, 101, 53]), ([98], .arr [.str [255], .null])]) = true := by rfl
example : SpecC13.wf (.obj [([97], .num [46, 53])]) = false := by rfl

/-! ### the oracle applied to the implementation -/

/-- a processed event passes the oracle only with one of the five defined `ActionResult`s (a
    time-out event only with Discard, the one result that does not forward or keep the
    document-less event) and a re-parsable event -/
theorem action_result_defined (res status : String) (h : SpecC13.pairOk res status = true)
    (hs : SpecC13.isSkip status = false) :
    (res ∈ SpecC13.definedResults ∨ res = "t:discard") ∧ status = "ok" := by
  unfold SpecC13.pairOk at h
  rw [hs] at h
  simp only [Bool.false_eq_true, if_false, Bool.and_eq_true, Bool.or_eq_true, beq_iff_eq] at h
  refine ⟨?_, h.2⟩
  rcases h.1 with h1 | h1
  · exact Or.inl (List.contains_iff_mem.mp h1)
  · right
    have := List.contains_iff_mem.mp h1
    simpa [SpecC13.timeoutResults] using this

example : SpecC13.pairOk "hold" "ok" = true ∧ SpecC13.isSkip "ok" = false := by decide
example : SpecC13.pairOk "undef7" "ok" = false := by decide
example : SpecC13.pairOk "t:discard" "ok" = true := by decide
/-- parse_es answering Pass / Collapse to a time-out event while it waits for a document line -/
example : SpecC13.pairOk "t:pass" "ok" = false ∧ SpecC13.pairOk "t:collapse" "ok" = false := by decide
example : SpecC13.pairOk "-" "panic:bounds@cfg/substitution.(*TrimToFilter).Apply:alone" = false := by decide
example : SpecC13.pairsOk 2 ["pass", "ok", "hold", "ok", "st:ok"] = true := by decide
example : SpecC13.pairsOk 1 ["pass", "ok", "st:changed@0"] = false := by decide

end FileD.PropsC13
