/-
  C13 — no event content can crash or corrupt an action plugin.
  Property theorems only, for the modelled index-arithmetic cores (helper lemmas:
  FileD/Lemmas/Act/*.lean). "Total" = the model never takes the value `.error p`, i.e. the Go
  code never panics with an index / slice bounds error, for every value of the event field.
  The bodies of the un-modelled plugins are validated by the harness only (checks/p_C13.py).
-/
import FileD.Lemmas.Act.Subst
import FileD.Lemmas.Act.Utf8Bytes
namespace FileD.PropsC13
open FileD FileD.Act

/-! ### cfg/substitution filters (plugin `modify`) -/

/-- `cut(mode, count)` never panics, for every count and every value. -/
theorem cut_total (m : Subst.CutMode) (count : Nat) (src : Bytes) (p : Panic) :
    Subst.applyCut m count src ≠ .error p := by
  obtain ⟨out, h⟩ := Subst.applyCut_ok m count src
  simp [h]

/-- cut("last",2) on "abc" = "bc" -/
example : Subst.applyCut .last 2 [97, 98, 99] = .ok [98, 99] := by rfl

/-- `trim_to(mode, cutset)` never panics, for every cutset — the empty one included — and every
    value (after the repair `src[:idx+len(cutset)]`; before it the empty cutset sliced
    `src[:len(src)+1]`, corpus/C13/modify-trimto-empty-cutset.case). -/
theorem trimto_total (m : Subst.TrimMode) (cutset src : Bytes) (p : Panic) :
    Subst.applyTrimTo m cutset src ≠ .error p := by
  obtain ⟨out, h⟩ := Subst.applyTrimTo_ok m cutset src
  simp [h]

/-- trim_to("all","|") on "a|b|c" = "|b|" ; trim_to("right","") leaves "12345678" as it is -/
example : Subst.applyTrimTo .all [124] [97, 124, 98, 124, 99] = .ok [124, 98, 124] := by rfl
example : Subst.applyTrimTo .right [] [49, 50, 51, 52, 53, 54, 55, 56] = .ok [49, 50, 51, 52, 53, 54, 55, 56] := by rfl

/-- `re(...)` never panics when the rows of `FindAllSubmatchIndex` have the documented shape:
    for every selected group both ends are present and are either -1 or a range inside the
    value. (cfg.VerifyGroupNumbers guarantees `group ≤ NumSubexp`, hence "present".) -/
theorem re_total (groups : List Nat) (sep : Bytes) (e : Bool) (ms : List (List Int)) (src : Bytes)
    (h : Subst.ReShape src groups ms) (p : Panic) :
    Subst.applyRe groups sep e ms src ≠ .error p := by
  obtain ⟨out, h⟩ := Subst.applyRe_ok groups sep e ms src h
  simp [h]

/-- `(a)|(b)` on "xbx" with groups [1,2]: group 1 did not take part (-1,-1) -/
example : Subst.applyRe [1, 2] [44] false [[1, 2, -1, -1, 1, 2]] [120, 98, 120] = .ok [98] := by rfl
example : Subst.ReShape [120, 98, 120] [1, 2] [[1, 2, -1, -1, 1, 2]] := by
  intro ix hix g hg
  simp at hix hg
  subst hix
  rcases hg with rfl | rfl
  · exact ⟨-1, -1, by rfl, by rfl, Or.inl rfl⟩
  · exact ⟨1, 2, by rfl, by rfl, Or.inr (Or.inr (by simp))⟩

/-- a chain is well-formed for a value when every `re` filter's oracle has the right shape for
    the value that reaches it -/
def ChainOk : List Subst.Filter → Bytes → Prop
  | [], _ => True
  | f :: fs, s =>
    (match f with
      | .re g _ _ ms => Subst.ReShape s g ms
      | _ => True) ∧
    ∀ s', Subst.apply f s = .ok s' → ChainOk fs s'

/-- the filter loop of `modify.Do` never panics: any chain of cut / trim / trim_to / re filters,
    any value. -/
theorem subst_total (fs : List Subst.Filter) (src : Bytes) (h : ChainOk fs src) (p : Panic) :
    Subst.run fs src ≠ .error p := by
  induction fs generalizing src with
  | nil => simp [Subst.run]
  | cons f fs ih =>
    obtain ⟨hf, hrest⟩ := h
    have hok : ∃ s', Subst.apply f src = .ok s' := by
      cases f with
      | cut m c => exact Subst.applyCut_ok m c src
      | trimTo m cs => exact Subst.applyTrimTo_ok m cs src
      | trim m cs => exact ⟨_, rfl⟩
      | re g s e ms => exact Subst.applyRe_ok g s e ms src hf
    obtain ⟨s', hs'⟩ := hok
    simp only [Subst.run, hs', bind, Except.bind]
    exact ih s' (hrest s' hs')

/-- `${f|trim_to("left","{")|trim_to("right","}")|cut("first",3)}` on "x{ab}y" = "{ab" -/
example : Subst.run [.trimTo .left [123], .trimTo .right [125], .cut .first 3] [120, 123, 97, 98, 125, 121] = .ok [123, 97, 98] := by
  rfl
example : ChainOk [.trimTo .left [123], .trimTo .right [125], .cut .first 3] [120, 123, 97, 98, 125, 121] := by
  refine ⟨trivial, fun _ _ => ⟨trivial, fun _ _ => ⟨trivial, fun _ _ => trivial⟩⟩⟩

/-! ### convert_utf8_bytes -/

/-- the escape scanner never panics: every string value, every `replace_non_graphic` setting,
    whatever `unicode.IsGraphic` answers. -/
theorem utf8_total (cfg : Utf8Bytes.Cfg) (s : Bytes) (p : Panic) : Utf8Bytes.convert cfg s ≠ .error p := by
  obtain ⟨out, h⟩ := Utf8Bytes.convert_ok cfg s
  simp [h]

/-- `\x41\x42` becomes "AB"; a lone high surrogate `\ud801` is kept as text -/
example : Utf8Bytes.convert ⟨false, fun _ => true⟩ [92, 120, 52, 49, 92, 120, 52, 50] = .ok (some [65, 66]) := by rfl
example : Utf8Bytes.convert ⟨false, fun _ => true⟩ [92, 117, 100, 56, 48, 49] = .ok (some [92, 117, 100, 56, 48, 49]) := by rfl

/-- the scanning loop terminates within `len + 1` iterations (the fuel of the model is never the
    reason for its result) -/
theorem utf8_loop_terminates (cfg : Utf8Bytes.Cfg) (s buf : Bytes) :
    ∃ out, Utf8Bytes.loop cfg (s.length + 1) s buf = .ok out :=
  Utf8Bytes.loop_ok cfg (s.length + 1) s buf (by omega)

end FileD.PropsC13
