/-
  C04 — No wedge. Property theorems only (helper lemmas: FileD/Lemmas/Pool.lean, Lemmas/Stream.lean).
-/
import FileD.Lemmas.Pool
import FileD.Lemmas.PoolStd
import FileD.Lemmas.Stream
import FileD.Lemmas.LockOrder
namespace FileD.PropsC04
open FileD FileD.Pool

def lmFixed (cap : Nat) : LM.Cfg := ⟨cap, false⟩
def lmUnfixed (cap : Nat) : LM.Cfg := ⟨cap, true⟩

/-- bounded response of the low-memory pool's heartbeat, for a heartbeat condition `c`:
    from every reachable state with a reader parked in `Cond.Wait` and the counter below the
    capacity, one heartbeat round (its reads, then its Broadcast) leaves that reader notified. -/
def LowmemWaiterResumes (c : LM.Cfg) : Prop :=
  ∀ (n : Nat) (s : LM.St) (r : Nat), TS.Reachable (LM.step? c) (LM.init n) s →
    s.pcs[r]? = some .parked → s.inUse < c.cap →
    ∃ s', TS.run (LM.step? c) s [.hbRead, .hbFire] = some s' ∧ s'.pcs[r]? = some .woken
      ∧ s'.inUse = s.inUse

/-- **C04, low-memory pool after the `fix:` commit**: a parked reader is woken by the next heartbeat
    whenever an event is available — in every reachable state, any capacity, any number of readers. -/
theorem lowmem_waiter_resumes (cap : Nat) : LowmemWaiterResumes (lmFixed cap) := by
  intro n s r hr hp hav
  have inv := LM.inv_reachable (lmFixed cap) n s hr
  have hsw : 0 < s.sw := by
    have := countP_pos_of_get LM.isSW s.pcs r .parked hp rfl
    have := inv.sw; simp only [LM.cnt] at this; omega
  refine ⟨_, by simp only [TS.run, LM.step?, Option.bind]; rfl, ?_, ?_⟩
  · have hav' : LM.avail { cap := cap, hbNeg := false } s = true := decide_eq_true hav
    simp [lmFixed, hsw, hav', LM.broadcast, List.getElem?_map, hp, LM.wake]
  · have hav' : LM.avail { cap := cap, hbNeg := false } s = true := decide_eq_true hav
    simp [lmFixed, hsw, hav', LM.broadcast]

/-- …and once notified, with the mutex free and the counter still below the capacity, the reader's
    next loop iteration (re-lock, Unlock, slowWaiters.Dec, Inc) returns with an event. -/
theorem lowmem_woken_gets (c : LM.Cfg) (s : LM.St) (r : Nat)
    (hp : s.pcs[r]? = some .woken) (hmu : s.mu = none) (hav : s.inUse < c.cap) :
    ∃ s', TS.run (LM.step? c) s [.relock r, .unlock r, .swDec r, .inc r] = some s' ∧
      s'.pcs[r]? = some .holding ∧ s'.inUse = s.inUse + 1 := by
  have hlt : r < s.pcs.length := by
    rcases Nat.lt_or_ge r s.pcs.length with h | h
    · exact h
    · simp [List.getElem?_eq_none h] at hp
  let s1 := LM.setPc { s with mu := some r } r .unlocking
  let s2 := LM.setPc { s1 with mu := none } r .postUnlock
  let s3 := LM.setPc { s2 with sw := s2.sw - 1 } r .want
  let s4 := LM.setPc { s3 with inUse := s3.inUse + 1, gets := s3.gets + 1 } r .holding
  have e1 : LM.step? c s (.relock r) = some s1 := by simp [LM.step?, hp, hmu, s1]
  have e2 : LM.step? c s1 (.unlock r) = some s2 := by simp [LM.step?, s1, s2, LM.setPc, hlt]
  have e3 : LM.step? c s2 (.swDec r) = some s3 := by simp [LM.step?, s1, s2, s3, LM.setPc, hlt]
  have e4 : LM.step? c s3 (.inc r) = some s4 := by
    have : s.inUse + 1 ≤ c.cap := hav
    simp [LM.step?, s1, s2, s3, s4, LM.setPc, hlt, this]
  refine ⟨s4, by simp [TS.run, e1, e2, e3, e4], ?_, ?_⟩ <;> simp [s4, s3, s2, s1, LM.setPc, hlt]

/-- non-vacuity: the lost-wake-up state (capacity 1: reader 1 checked while the pool was full,
    reader 0 returned its event and broadcast, then reader 1 entered Wait) is reachable and
    satisfies the hypotheses -/
def lostWakeup : List LM.Op :=
  [.start 0, .inc 0, .start 1, .inc 1, .dec 1, .swInc 1, .lock 1, .check 1,
   .bDec 0, .bBcast 0, .waitEnq 1]

example : ∃ s, TS.run (LM.step? (lmFixed 1)) (LM.init 2) lostWakeup = some s ∧
    s.pcs[1]? = some .parked ∧ s.inUse < 1 := ⟨_, rfl, by decide⟩

/-- the state after `lostWakeup`: nobody holds an event, reader 1 sits in Cond.Wait -/
def wedged : LM.St :=
  { inUse := 0, sw := 1, mu := none, pcs := [.idle, .parked], hbArmed := false, gets := 1, backs := 1 }

theorem lostWakeup_reaches_wedged (c : LM.Cfg) (hc : c.cap = 1) :
    TS.run (LM.step? c) (LM.init 2) lostWakeup = some wedged := by
  obtain ⟨cap, neg⟩ := c
  simp at hc; subst hc
  cases neg <;> decide

/-- **heartbeat_never_stops**: the model's heartbeat is a goroutine that lives as long as the pool —
    its two steps are enabled in every state of both pools, whatever happened before (in particular
    after rounds that found nobody waiting), so `lowmem_waiter_resumes` / `std_waiter_resumes`, which
    hold in EVERY reachable state, apply after idle periods too. The tie exercises exactly this on the
    real pools: two full episodes separated by idle heartbeat ticks (`corpus/C04/lost-wakeup.case`). -/
theorem heartbeat_never_stops (c : LM.Cfg) (s : LM.St) (t : Std.St) :
    (LM.step? c s .hbRead).isSome ∧ (LM.step? c s .hbFire).isSome ∧
    (Std.step? t .hbRead).isSome ∧ (Std.step? t .hbFire).isSome := by
  simp [LM.step?, Std.step?]

/-- the two-episode schedule: episode 1 served normally, idle heartbeat rounds, then the window -/
def twoEpisodes : List LM.Op :=
  [.start 0, .inc 0, .start 1, .inc 1, .dec 1, .swInc 1, .lock 1, .check 1, .waitEnq 1,
   .bDec 0, .bBcast 0, .relock 1, .unlock 1, .swDec 1, .inc 1, .bDec 1, .bBcast 1,
   .hbRead, .hbFire, .hbRead, .hbFire] ++ lostWakeup

/-- non-vacuity of "after idle periods": the wedge-prone state is reached again after idle rounds,
    and the repaired heartbeat still notifies the reader there -/
example :
    TS.run (LM.step? (lmFixed 1)) (LM.init 2) twoEpisodes = some { wedged with gets := 3, backs := 3 } ∧
    TS.run (LM.step? (lmFixed 1)) { wedged with gets := 3, backs := 3 } [.hbRead, .hbFire]
      = some { wedged with gets := 3, backs := 3, pcs := [.idle, .woken] } := by
  constructor <;> decide

/-- **the unchanged tree's heartbeat** (`waiters > 0 && !eventsAvailable`): from the lost-wake-up
    state a heartbeat round does not notify the reader: it is wedged with inUse = 0, waiters = 1.
    Witness replayed on the implementation: corpus/C04/lost-wakeup.case -/
theorem lowmem_heartbeat_counterexample : ¬ LowmemWaiterResumes (lmUnfixed 1) := by
  intro h
  obtain ⟨s', hrun, hw, _⟩ := h 2 wedged 1 ⟨lostWakeup, lostWakeup_reaches_wedged _ rfl⟩ (by decide) (by decide)
  have : s' = wedged := by
    have h2 : TS.run (LM.step? (lmUnfixed 1)) wedged [.hbRead, .hbFire] = some wedged := by decide
    rw [h2] at hrun; exact (Option.some.inj hrun).symm
  subst this
  revert hw; decide

/-- …and it stays wedged for any number of heartbeat rounds -/
theorem lowmem_unfixed_wedged_forever (k : Nat) :
    TS.run (LM.step? (lmUnfixed 1)) wedged ((List.replicate k [LM.Op.hbRead, .hbFire]).flatten)
      = some wedged := by
  induction k with
  | zero => rfl
  | succ k ih =>
    simp only [List.replicate_succ, List.flatten_cons, TS.run_append]
    have h2 : TS.run (LM.step? (lmUnfixed 1)) wedged [.hbRead, .hbFire] = some wedged := by decide
    rw [h2]; exact ih

example : TS.run (LM.step? (lmUnfixed 1)) (LM.init 2) lostWakeup = some wedged :=
  lostWakeup_reaches_wedged _ rfl

/-- **C04, standard pool**: a reader parked in `Cond.Wait` is notified by the next heartbeat round
    whenever `inUseEvents < capacity` — in every reachable state, any capacity, any number of readers. -/
theorem std_waiter_resumes (cap n : Nat) (s : Std.St) (r x : Nat)
    (hr : TS.Reachable Std.step? (Std.init cap n) s)
    (hp : s.pcs[r]? = some (.parked x)) (hav : s.inUse < s.cap) :
    ∃ s', TS.run Std.step? s [.hbRead, .hbFire] = some s' ∧ s'.pcs[r]? = some (.woken x)
      ∧ s'.slots = s.slots ∧ s'.mu = s.mu := by
  have inv := Std.inv_reachable cap n s hr
  have hsw : 0 < s.sw := by
    have := countP_pos_of_get Std.isSW s.pcs r _ hp rfl
    have := inv.sw; simp only [Std.cnt] at this; omega
  refine ⟨_, by simp only [TS.run, Std.step?, Option.bind]; rfl, ?_, ?_, ?_⟩ <;>
    simp [hsw, hav, Std.broadcast, List.getElem?_map, hp, Std.wake]

/-- …and once notified, with the mutex free, its next loop iteration takes the slot it waits for
    if the event is there (it re-parks only when the slot was taken meanwhile). -/
theorem std_woken_takes (s : Std.St) (r x : Nat) (sl : Std.Slot)
    (hp : s.pcs[r]? = some (.woken x)) (hmu : s.mu = none) (hsl : s.slots[x]? = some sl)
    (hfree : sl.f1 = true) (hb : x < s.backCtr) :
    ∃ s', TS.run Std.step? s [.relock r, .unlock r, .swDec r, .cas r] = some s' ∧
      s'.pcs[r]? = some (.taken x) := by
  have hlt : r < s.pcs.length := Std.lt_of_get _ _ _ hp
  let s1 := Std.setPc { s with mu := some r } r (.unlocking x)
  let s2 := Std.setPc { s1 with mu := none } r (.postUnlock x)
  let s3 := Std.setPc { s2 with sw := s2.sw - 1 } r (.try_ x 0 0)
  let s4 := Std.setPc (Std.setSlot s3 x { sl with f1 := false, own := some r }) r (.taken x)
  have e1 : Std.step? s (.relock r) = some s1 := by simp [Std.step?, hp, hmu, s1]
  have e2 : Std.step? s1 (.unlock r) = some s2 := by simp [Std.step?, s1, s2, Std.setPc, hlt]
  have e3 : Std.step? s2 (.swDec r) = some s3 := by simp [Std.step?, s1, s2, s3, Std.setPc, hlt]
  have e4 : Std.step? s3 (.cas r) = some s4 := by
    simp [Std.step?, s1, s2, s3, s4, Std.setPc, Std.setSlot, hlt, hsl, hfree, hb]
  refine ⟨s4, by simp [TS.run, e1, e2, e3, e4], ?_⟩
  simp [s4, s3, s2, s1, Std.setPc, Std.setSlot, hlt]

/-- non-vacuity: capacity 1; reader 1 parks on slot 0 after losing the wake-up of reader 0's back -/
def stdLost : List Std.Op :=
  [.start 0, .tkt 0, .cas 0, .take 0, .iInc 0,
   .start 1, .tkt 1, .cas 1, .cas 1, .cas 1, .cas 1, .cas 1, .cas 1, .cas 1, .cas 1, .cas 1,
   .swInc 1, .lock 1,
   .bstart 0, .btkt 0, .bcas 0, .bput 0, .bDec 0, .bBcast 0,
   .waitEnq 1]

example : ∃ s, TS.run Std.step? (Std.init 1 2) stdLost = some s ∧
    s.pcs[1]? = some (.parked 0) ∧ s.inUse < s.cap := ⟨_, rfl, by decide⟩

/-! ## streams (pipeline/stream.go, streamer.go) -/
section streams
open FileD.Stream

/-- **charged_exact**: in every reachable state of the streamer model (every interleaving of
    put / pop / attach / get / leave / commit / time-out of any number of processors and streams),
    outside a running critical section, a stream with pending events that has no owner and is not
    in the pop→attach window is in `charged` exactly once; an attached or empty stream is not in it. -/
theorem charged_exact (ns np : Nat) (st : St) (s : Nat) (x : S1)
    (hr : TS.Reachable step? (init ns np) st) (hx : st.streams[s]? = some x) (hp : x.pend = .none) :
    (x.q ≠ [] → x.attached = false → x.popper = none → st.charged.count s = 1) ∧
    (x.attached = true ∨ x.q = [] → st.charged.count s = 0) := by
  have inv := (ginv_reachable ns np st hr).str s x hx
  constructor
  · intro hq ha hpop
    have := inv.ne hq
    simpa [tokens, Stream.b2n, ha, hpop, hp] using this
  · intro h
    rcases h with ha | hq
    · have := inv.one
      simp [tokens, Stream.b2n, ha] at this; omega
    · exact (inv.em hq).1

/-- **single_owner**: a stream is in at most one of: `charged`, the pop→attach window, attached;
    an active owner exists exactly while it is attached and not detaching. -/
theorem single_owner (ns np : Nat) (st : St) (s : Nat) (x : S1)
    (hr : TS.Reachable step? (init ns np) st) (hx : st.streams[s]? = some x) :
    st.charged.count s + Stream.b2n x.popper.isSome + Stream.b2n x.attached ≤ 1 ∧
    (x.owner.isSome = (x.attached && !x.detaching)) ∧ (x.detaching = true → x.attached = true) := by
  have inv := (ginv_reachable ns np st hr).str s x hx
  refine ⟨?_, inv.own, inv.det⟩
  have := inv.one
  simp only [tokens] at this; omega

/-- ownership is released (tryDetach succeeds) only when every taken event is committed -/
theorem detach_only_when_caught_up (ns np : Nat) (st st' : St) (s : Nat) (x : S1)
    (hr : TS.Reachable step? (init ns np) st) (hx : st.streams[s]? = some x)
    (hs : step? st (.detach s) = some st') : x.away = x.commit := by
  have inv := (ginv_reachable ns np st hr).str s x hx
  simp only [step?, hx] at hs
  split at hs
  · rename_i hp; exact (inv.pd hp).2.2
  · simp at hs

/-- the Panicf calls of attach / get / leave / blockGet are unreachable -/
theorem stream_never_panics (ns np : Nat) (st : St) (hr : TS.Reachable step? (init ns np) st) :
    st.panicked = false := (ginv_reachable ns np st hr).np

/-- **no_sleeping_proc_with_work**: whenever a processor sleeps in joinStream un-notified, every
    entry of `charged` is matched by a processor that was signalled and has not yet re-checked;
    and a `makeCharged` with sleepers present notifies the oldest of them. -/
theorem no_sleeping_proc_with_work (ns np : Nat) (st : St) (hr : TS.Reachable step? (init ns np) st) :
    (st.parkedQ ≠ [] → st.charged.length ≤ st.procs.countP isWoken) ∧
    (∀ p, p ∈ st.parkedQ → st.procs[p]? = some .parked) := by
  have inv := ginv_reachable ns np st hr
  exact ⟨inv.jn, inv.pq⟩

/-- the full statement of "no processor asleep while work is queued", for a step relation `stp` -/
def NoSleeperWithWork (stp : St → Op → Option St) (ns np : Nat) : Prop :=
  ∀ st, TS.Reachable stp (init ns np) st →
    st.parkedQ ≠ [] → st.charged.length ≤ st.procs.countP isWoken

/-- /repo's makeCharged (one Signal per charge) satisfies it … -/
theorem no_sleeper_with_work_holds (ns np : Nat) : NoSleeperWithWork step? ns np :=
  fun st hr => (no_sleeping_proc_with_work ns np st hr).1

/-- … a makeCharged that signals only when `charged` was empty does not: two processors asleep, two
    streams charged back to back before the first woken processor pops — the second charge wakes nobody,
    the woken processor pops the LAST charged stream (LIFO), stream 0 stays in `charged` while processor 1
    sleeps un-notified (and every later charge finds the list non-empty). Replayed on the real streamer
    by the burst schedules (`c04.stream 2 2 J0 J1 U0.1 …`). -/
theorem signal_only_when_empty_counterexample : ¬ NoSleeperWithWork stepIfEmpty? 2 2 := by
  intro h
  have hr : TS.Reachable stepIfEmpty? (init 2 2)
      { streams := [{ q := [⟨10, 1, false⟩], cur := 1, popper := none, len := 1 },
                    { q := [⟨20, 1, false⟩], cur := 1, popper := some 0, len := 1 }],
        charged := [0], parkedQ := [1], procs := [.busy, .parked] } :=
    ⟨[.park 0, .park 1, .put 0 10 1, .charge 0, .put 1 20 1, .charge 1, .pop 0 1], by decide⟩
  have := h _ hr (by decide)
  revert this; decide

theorem charge_signals (ns np : Nat) (st st' : St) (s p : Nat) (rest : List Nat)
    (hr : TS.Reachable step? (init ns np) st) (hq : st.parkedQ = p :: rest)
    (hs : step? st (.charge s) = some st') :
    st'.procs[p]? = some .woken ∧ st'.parkedQ = rest ∧ st'.charged = st.charged ++ [s] := by
  have inv := ginv_reachable ns np st hr
  have hpp : st.procs[p]? = some .parked := inv.pq p (by simp [hq])
  simp only [step?] at hs
  split at hs
  · split at hs
    · simp only [hq] at hs
      simp at hs; subst hs
      exact ⟨by simpa [setP, setS] using FileD.Pool.get_set_self st.procs p .parked .woken hpp, rfl, rfl⟩
    · simp at hs
  · simp at hs

/-- the owner never sleeps in blockGet while its stream has events -/
theorem no_blocked_owner_with_work (ns np : Nat) (st : St) (s : Nat) (x : S1)
    (hr : TS.Reachable step? (init ns np) st) (hx : st.streams[s]? = some x)
    (hw : x.waiting = true) : x.q = [] :=
  ((ginv_reachable ns np st hr).str s x hx).wt hw |>.1

/-- **blocked_gets_timeout** (logical tick): a stream whose owner `p` sleeps in blockGet, with every
    taken event committed, receives a time-out event at the streamer heartbeat (`tryUnblock`), the
    owner is signalled, and its `get` of that event is enabled and does not panic. -/
theorem blocked_gets_timeout (ns np : Nat) (st : St) (s p : Nat) (x : S1)
    (hr : TS.Reachable step? (init ns np) st) (hx : st.streams[s]? = some x)
    (hw : x.waiting = true) (hp : x.pend = .none) (hac : x.away = x.commit) (ho : x.owner = some p) :
    ∃ st' st'', step? st (.timeout s) = some st' ∧ st'.toPanic = st.toPanic ∧
      step? st' (.get p s 0 x.commit true) = some st'' ∧ st''.panicked = false ∧
      (∃ x'', st''.streams[s]? = some x'' ∧ x''.q = [] ∧ x''.waiting = false ∧ x''.owner = some p) := by
  have ginv := ginv_reachable ns np st hr
  have inv := ginv.str s x hx
  have hq := (inv.wt hw).1
  have hok := owner_ok x _ p inv ho
  have hlt : s < st.streams.length := by
    rcases Nat.lt_or_ge s st.streams.length with h | h
    · exact h
    · simp [List.getElem?_eq_none h] at hx
  refine ⟨setS st s x.timeout, setS (setS st s x.timeout) s
      (x.timeout.get { off := 0, seq := x.commit, timeout := true } []), ?_, rfl, ?_, ?_, ?_⟩
  · simp [step?, hx, hp, hw, hq, hac]
  · simp [step?, setS, hlt, S1.timeout, signalOwner, hw, hp, ho, hok.1, hok.2]
  · simp [setS, ginv.np]
  · refine ⟨x.timeout.get { off := 0, seq := x.commit, timeout := true } [], by simp [setS, hlt], ?_, ?_, ?_⟩ <;>
      simp [S1.get, S1.timeout, signalOwner, hw, ho]

/-- **stream.len is not the queue length**: in every reachable state `len` equals the number of queued
    regular events MINUS the time-out events the owner has taken so far (`tryUnblock` installs its event
    without `len++`, `get` does `len--` for it too) … -/
theorem len_lags_by_timeouts (ns np : Nat) (st : St) (s : Nat) (x : S1)
    (hr : TS.Reachable step? (init ns np) st) (hx : st.streams[s]? = some x) :
    x.len = (regCount x.q : Int) - x.tmos :=
  ((ginv_reachable ns np st hr).str s x hx).ln

/-- … so after one consumed time-out a freshly put event leaves `len = 0` with a non-empty queue:
    `len > 0` is NOT a test for "an event is queued" (a `tryUnblock` guarded by it would install its
    time-out event — as first AND last — over the queued event and erase it). The guard the code uses,
    `first != nil`, is the model's `q ≠ []`, which is what the `timeout` step requires. Replayed on the
    real streamer by the put-then-heartbeat schedules (`c04.stream 1 1 P0 J0 A0 I0 C0.0 B0 T B0 W0 …`). -/
theorem len_is_not_queue_length :
    ∃ st x, TS.Reachable step? (init 1 1) st ∧ st.streams[0]? = some x ∧
      x.q ≠ [] ∧ x.len = 0 ∧ step? st (.timeout 0) = none :=
  ⟨_, _, ⟨[.put 0 10 1, .charge 0, .pop 0 0, .attach 0 0, .get 0 0 10 1 false, .commit 0 1, .bwait 0 0,
           .timeout 0, .get 0 0 0 1 true, .bwait 0 0, .put 0 20 2], rfl⟩, rfl, by decide, by decide, by decide⟩

/-- the `timeout` step (tryUnblock past its guards) is enabled only on an empty queue: a queued event is
    never overwritten -/
theorem timeout_only_on_empty_queue (st st' : St) (s : Nat) (x : S1)
    (hx : st.streams[s]? = some x) (hs : step? st (.timeout s) = some st') : x.q = [] := by
  simp only [step?, hx] at hs
  split at hs
  · rename_i hc; exact hc.2.2
  · simp at hs

/-- non-vacuity: put-during-detach; the stream is re-charged by tryDetach and a sleeping
    processor is signalled -/
def demo : List Op :=
  [.park 1, .put 0 10 1, .charge 0, .pop 1 0, .attach 1 0, .get 1 0 10 1 false, .leave 1 0,
   .put 0 20 2, .commit 0 1, .detach 0, .charge 0]

example : ∃ st, TS.run step? (init 1 2) demo = some st ∧ st.charged = [0] ∧
    (st.streams[0]?.map (·.q.length)) = some 1 := ⟨_, rfl, by decide⟩

example : ∃ st x, TS.run step? (init 1 1)
      [.put 0 10 1, .charge 0, .pop 0 0, .attach 0 0, .get 0 0 10 1 false, .commit 0 1, .bwait 0 0] = some st
    ∧ st.streams[0]? = some x ∧ x.waiting = true ∧ x.pend = .none ∧ x.away = x.commit ∧ x.owner = some 0 :=
  ⟨_, _, rfl, rfl, by decide⟩

end streams

/-! ## lock order stream.mu / streamer.blockedMu (blockGet, put, heartbeat) -/
section lockorder
open FileD.LockOrder

/-- **no_wait_cycle_copy_then_unlock**: with the heartbeat of /repo (copy `blocked` under blockedMu,
    release it, then call tryUnblock) no reachable state of owner ‖ heartbeat ‖ putter has a wait-for
    cycle; some thread can always move; and whoever holds blockedMu can always take its next step
    (blockedMu is innermost: nobody acquires a stream.mu while holding it). Every interleaving. -/
theorem no_wait_cycle_copy_then_unlock (st : LockOrder.St)
    (h : TS.Reachable (LockOrder.step? false) {} st) :
    waitCycle st = false ∧
    [Tid.owner, .hb, .putter].any (fun t => (LockOrder.step? false st t).isSome) = true ∧
    (∀ t, holds st t .B = true → (LockOrder.step? false st t).isSome = true) := by
  have hok := ok_reachable false st h
  exact ⟨no_cycle_of_ok st hok, some_step_of_ok st hok, fun t hb => b_holder_moves st t hok hb⟩

/-- a heartbeat that walks `blocked` while HOLDING blockedMu inverts the order (blockGet holds
    stream.mu when it calls makeBlocked / resetBlocked): the owner, woken by a put, re-locks its
    stream.mu and waits for blockedMu in resetBlocked; the heartbeat holds blockedMu and waits for that
    stream.mu in tryUnblock; the next putter waits for the stream.mu too — nobody can move, for ever.
    Exercised on the real streamer with its real heartbeat goroutine by `c04.hbstress`. -/
theorem walk_under_lock_deadlocks :
    ∃ st, TS.Reachable (LockOrder.step? true) {} st ∧ waitCycle st = true ∧
      (∀ t, LockOrder.step? true st t = none) := by
  refine ⟨{ o := .lockBr, h := .lockSB, q := .lockS, blocked := true },
    ⟨[.owner, .owner, .owner, .owner, .putter, .putter, .hb, .hb, .owner], by decide⟩, by decide, ?_⟩
  intro t; cases t <;> decide

end lockorder

end FileD.PropsC04
