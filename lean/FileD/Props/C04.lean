/-
  C04 — No wedge. Property theorems only (helper lemmas: FileD/Lemmas/Pool.lean, Lemmas/Stream.lean).
-/
import FileD.Lemmas.Pool
namespace FileD.PropsC04
open FileD FileD.Pool

def lmFixed (cap : Nat) : LM.Cfg := ⟨cap, false⟩
def lmUnfixed (cap : Nat) : LM.Cfg := ⟨cap, true⟩

/-- bounded response of the low-memory pool's heartbeat, for a heartbeat condition `c`:
    from every reachable state with a reader parked in `Cond.Wait` and the counter below the
    capacity, one heartbeat round (its reads, then its Broadcast) leaves that reader notified. -/
def LowmemWaiterResumes (c : LM.Cfg) : Prop :=
  ∀ (n : Nat) (s : LM.St) (r : Nat), TS.Reachable (LM.step? c) (LM.init n) s →
    s.pcs[r]? = some .parked → s.inUse < c.cap →
    ∃ s', TS.run (LM.step? c) s [.hbRead, .hbFire] = some s' ∧ s'.pcs[r]? = some .woken
      ∧ s'.inUse = s.inUse

/-- **C04, low-memory pool after the `fix:` commit**: a parked reader is woken by the next heartbeat
    whenever an event is available — in every reachable state, any capacity, any number of readers. -/
theorem lowmem_waiter_resumes (cap : Nat) : LowmemWaiterResumes (lmFixed cap) := by
  intro n s r hr hp hav
  have inv := LM.inv_reachable (lmFixed cap) n s hr
  have hsw : 0 < s.sw := by
    have := countP_pos_of_get LM.isSW s.pcs r .parked hp rfl
    have := inv.sw; simp only [LM.cnt] at this; omega
  refine ⟨_, by simp only [TS.run, LM.step?, Option.bind]; rfl, ?_, ?_⟩
  · have hav' : LM.avail { cap := cap, hbNeg := false } s = true := decide_eq_true hav
    simp [lmFixed, hsw, hav', LM.broadcast, List.getElem?_map, hp, LM.wake]
  · have hav' : LM.avail { cap := cap, hbNeg := false } s = true := decide_eq_true hav
    simp [lmFixed, hsw, hav', LM.broadcast]

/-- non-vacuity: the lost-wake-up state (capacity 1: reader 1 checked while the pool was full,
    reader 0 returned its event and broadcast, then reader 1 entered Wait) is reachable and
    satisfies the hypotheses -/
def lostWakeup : List LM.Op :=
  [.start 0, .inc 0, .start 1, .inc 1, .dec 1, .swInc 1, .lock 1, .check 1,
   .bDec 0, .bBcast 0, .waitEnq 1]

example : ∃ s, TS.run (LM.step? (lmFixed 1)) (LM.init 2) lostWakeup = some s ∧
    s.pcs[1]? = some .parked ∧ s.inUse < 1 := ⟨_, rfl, by decide⟩

/-- the state after `lostWakeup`: nobody holds an event, reader 1 sits in Cond.Wait -/
def wedged : LM.St :=
  { inUse := 0, sw := 1, mu := none, pcs := [.idle, .parked], hbArmed := false, gets := 1, backs := 1 }

theorem lostWakeup_reaches_wedged (c : LM.Cfg) (hc : c.cap = 1) :
    TS.run (LM.step? c) (LM.init 2) lostWakeup = some wedged := by
  obtain ⟨cap, neg⟩ := c
  simp at hc; subst hc
  cases neg <;> decide

/-- **the unchanged tree's heartbeat** (`waiters > 0 && !eventsAvailable`): from the lost-wake-up
    state a heartbeat round does not notify the reader: it is wedged with inUse = 0, waiters = 1.
    Witness replayed on the implementation: corpus/C04/lost-wakeup.case -/
theorem lowmem_heartbeat_counterexample : ¬ LowmemWaiterResumes (lmUnfixed 1) := by
  intro h
  obtain ⟨s', hrun, hw, _⟩ := h 2 wedged 1 ⟨lostWakeup, lostWakeup_reaches_wedged _ rfl⟩ (by decide) (by decide)
  have : s' = wedged := by
    have h2 : TS.run (LM.step? (lmUnfixed 1)) wedged [.hbRead, .hbFire] = some wedged := by decide
    rw [h2] at hrun; exact (Option.some.inj hrun).symm
  subst this
  revert hw; decide

/-- …and it stays wedged for any number of heartbeat rounds -/
theorem lowmem_unfixed_wedged_forever (k : Nat) :
    TS.run (LM.step? (lmUnfixed 1)) wedged ((List.replicate k [LM.Op.hbRead, .hbFire]).flatten)
      = some wedged := by
  induction k with
  | zero => rfl
  | succ k ih =>
    simp only [List.replicate_succ, List.flatten_cons, TS.run_append]
    have h2 : TS.run (LM.step? (lmUnfixed 1)) wedged [.hbRead, .hbFire] = some wedged := by decide
    rw [h2]; exact ih

example : TS.run (LM.step? (lmUnfixed 1)) (LM.init 2) lostWakeup = some wedged :=
  lostWakeup_reaches_wedged _ rfl

end FileD.PropsC04
