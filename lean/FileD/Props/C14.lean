/-
  C14 — Action selection follows the documented boolean semantics.
  Property theorems only (helper lemmas: FileD/Lemmas/DoIf.lean).
-/
import FileD.Model.DoIf
import FileD.Model.MatchFields
import FileD.Spec.C14
namespace FileD.PropsC14
open FileD FileD.DoIf FileD.MatchFields FileD.SpecC14

theorem checkAll_eq_all (o : Oracle) (now : Int) (ev : JTree) (ops : List Node) :
    checkAll o now ev ops = ops.all (check o now ev) := by
  induction ops with
  | nil => simp [checkAll]
  | cons x xs ih => simp only [checkAll, List.all_cons, ih]; cases check o now ev x <;> simp

theorem checkAny_eq_any (o : Oracle) (now : Int) (ev : JTree) (ops : List Node) :
    checkAny o now ev ops = ops.any (check o now ev) := by
  induction ops with
  | nil => simp [checkAny]
  | cons x xs ih => simp only [checkAny, List.any_cons, ih]; cases check o now ev x <;> simp

/-- **and / or / not are the boolean connectives**: the short-circuit loops of
    `logicalNode.Check` compute the conjunction / disjunction of ALL operands' checks and the
    negation of the single operand, for operand lists of any length and operands of any depth. -/
theorem logical_semantics (o : Oracle) (now : Int) (ev : JTree) (ops : List Node) (x : Node) :
    check o now ev (.and ops) = ops.all (check o now ev) ∧
    check o now ev (.or ops) = ops.any (check o now ev) ∧
    check o now ev (.not [x]) = !check o now ev x := by
  refine ⟨?_, ?_, ?_⟩
  · simp only [check]; exact checkAll_eq_all o now ev ops
  · simp only [check]; exact checkAny_eq_any o now ev ops
  · simp [check, checkNot]

end FileD.PropsC14
