/-
  C14 — Action selection follows the documented boolean semantics.
  Property theorems only (helper lemmas: FileD/Lemmas/DoIf.lean, FileD/Lemmas/MatchFields.lean).

  `checkSt` = the model of doif `Checker.Check` as coded (Model/DoIf.lean + Model/DoIfSt.lean: it
              threads which strings earlier nodes unescaped in place); `.1` is the answer
  `check`   = the same leaves, each looking at a freshly decoded event (no state)
  `spec`   = the naive evaluator written from the documentation (Spec/C14.lean)
  `isMatch`/`specMatch` = the same pair for the legacy match_fields selector.
  All library calls are oracle parameters: every theorem holds for EVERY oracle.
-/
import FileD.Lemmas.DoIf
import FileD.Lemmas.DoIfSt
import FileD.Lemmas.MatchFields
namespace FileD.PropsC14
open FileD FileD.DoIf FileD.MatchFields FileD.SpecC14

/-! ## example material -/

def asciiLower (c : UInt8) : UInt8 := if 65 ≤ c.toNat ∧ c.toNat ≤ 90 then c + 32 else c

/-- an oracle whose lower-casing is the byte-wise ASCII map -/
def oAscii : Oracle where
  lower b := b.map asciiLower
  reMatch _ _ := false
  reValid _ := true
  containsAny _ _ := false
  parseTime _ _ := none
  asInt _ := 0

/-- U+212A KELVIN SIGN, which bytes.ToLower maps to `k` (3 bytes → 1) -/
def kelvin : Bytes := [0xE2, 0x84, 0xAA]
/-- U+1F600, and U+FFFD which bytes.ToLower produces for every byte of a split rune -/
def grin : Bytes := [0xF0, 0x9F, 0x98, 0x80]
def fffd : Bytes := [0xEF, 0xBF, 0xBD]

/-- the entries of bytes.ToLower the witnesses need -/
def oUnicode : Oracle where
  lower b := if b = kelvin then [107] else if b = [0xF0, 0x9F, 0x98] then fffd ++ fffd ++ fffd else b
  reMatch _ _ := false
  reValid _ := true
  containsAny _ _ := false
  parseTime _ _ := none
  asInt _ := 0

def fld (op : FOp) (cs : Bool) (vals : List (Option Bytes)) : FieldOp := ⟨op, [[102]], cs, vals⟩
def evF (v : JTree) : JTree := .obj [([102], v)]

/-! ## do_if -/

/-- the full statement: on every rule tree and every event the code gives the documented answer -/
def DoIfEqSpec : Prop :=
  ∀ (o : Oracle) (now : Int) (ev : JTree) (n : Node), (checkSt o now ev n []).1 = spec o now ev n

/-- **do_if, partial**: for every oracle, every event and every rule tree of ANY depth and width,
    `Checker.Check` as coded — minimum-length early exit, `valuesBySize` buckets, comparing only
    the first / last `maxValLen` bytes, lower-casing after truncation, short-circuit and/or,
    in-place unescaping — equals the naive evaluator of the documentation, provided (`TreeOK`)
    every field leaf looks at a scalar / null / absent value and is case-sensitive or has a
    lower-casing oracle that keeps the lengths of its values and is regular on the field's bytes
    (`LowerOK`; true of bytes.ToLower on ASCII), and every byte_len_cmp leaf measures a value
    without JSON escapes (`LenOK`). Timestamp, type, array-length and int leaves need no hypothesis. -/
theorem doif_check_eq_spec_partial (o : Oracle) (now : Int) (ev : JTree) (n : Node)
    (h : TreeOK o ev n) : (checkSt o now ev n []).1 = spec o now ev n := by
  rw [checkSt_fst o now ev n [] h]
  exact check_eq_spec_of_ok o now ev n h

/-- under the same hypothesis the answer does not depend on the evaluation history: whatever
    strings earlier checks unescaped (`tch`), the node answers as on a freshly decoded event -/
theorem doif_answer_independent_of_history (o : Oracle) (now : Int) (ev : JTree) (n : Node)
    (tch : List Pos) (h : TreeOK o ev n) : (checkSt o now ev n tch).1 = check o now ev n :=
  checkSt_fst o now ev n tch h

-- non-vacuity: a case-insensitive leaf under `and`/`not`, ASCII lower-casing, satisfies TreeOK
example : TreeOK oAscii (evF (.str [65, 66, 67]))
    (.and [.field (fld .prefix false [some [97, 98], some [120]]), .not [.field (fld .equal true [none])]]) := by
  refine ⟨⟨rfl, Or.inr ⟨fun b _ => by simp [oAscii], lowerRegular_of_map _ _⟩⟩, ⟨⟨rfl, Or.inl rfl⟩, trivial⟩, trivial⟩

example : (checkSt oAscii 0 (evF (.str [65, 66, 67]))
    (.and [.field (fld .prefix false [some [97, 98], some [120]]), .not [.field (fld .equal true [none])]]) []).1 = true := by
  decide

example : TreeOK oAscii (evF (.arr [.str [97]]))
    (.or [.field ⟨.equal, [[103]], true, [some [98]]⟩, .lenCmp ⟨.byte, [[102]], .eq, 5⟩]) :=
  ⟨⟨rfl, Or.inl rfl⟩, ⟨fun _ t ht => by cases ht; rfl, trivial⟩⟩

/-- **one field leaf**: the as-coded check of a field op on the bytes `Get` returns equals the
    documented predicate, under the leaf's own hypothesis (no tree needed) -/
theorem doif_field_leaf_eq_spec (o : Oracle) (f : FieldOp) (d : Option Bytes) (h : LowerOK o f d) :
    fieldCheck o f d = specFieldVal o f d :=
  fieldCheck_eq_specFieldVal h

example : LowerOK oAscii (fld .suffix false [some [65]]) (some [120, 97]) :=
  Or.inr ⟨fun b _ => by simp [oAscii], lowerRegular_of_map _ _⟩

/-- **length / timestamp / type leaves** give the documented answer on every event and every
    oracle; only byte_len_cmp needs its `LenOK` hypothesis (after /repo fix 16a8fb0 for empty
    containers nothing else) -/
theorem doif_other_leaves_eq_spec (o : Oracle) (now : Int) (ev : JTree) (l : LenCmp) (t : TsCmp)
    (c : TypeCheck) (hl : LenOK l ev) :
    (checkSt o now ev (.lenCmp l) []).1 = spec o now ev (.lenCmp l) ∧
    (checkSt o now ev (.tsCmp t) []).1 = spec o now ev (.tsCmp t) ∧
    (checkSt o now ev (.checkType c) []).1 = spec o now ev (.checkType c) :=
  ⟨doif_check_eq_spec_partial o now ev _ hl, doif_check_eq_spec_partial o now ev _ trivial,
   doif_check_eq_spec_partial o now ev _ trivial⟩

example : LenOK ⟨.byte, [[102]], .eq, 7⟩ (evF (.arr [.arr [], .obj []])) := fun _ t ht => by cases ht; rfl
example : (checkSt oAscii 0 (evF (.arr [.arr [], .obj []])) (.lenCmp ⟨.byte, [[102]], .eq, 7⟩) []).1 = true := by decide

/-- **value order**: the answer of a field leaf does not depend on the order in which its values
    are configured (any oracle, any data, no hypothesis on lower-casing). `contains_any` takes
    exactly one value (constructor check), hence the side condition. -/
theorem doif_independent_of_value_order (o : Oracle) (now : Int) (ev : JTree) (f : FieldOp)
    (vs : List (Option Bytes)) (tch : List Pos) (hp : vs.Perm f.values)
    (hca : f.op = .containsAny → f.values.length ≤ 1) :
    (checkSt o now ev (.field { f with values := vs }) tch).1 = (checkSt o now ev (.field f) tch).1 := by
  simp only [checkSt]
  exact fieldCheck_perm o f vs (get ev f.path) hp hca

example : [some [98], none, some [97]].Perm (fld .equal false [some [97], some [98], none]).values := by
  decide

/-- **check_type is a set of types**: the answer is "the field's type is one of the listed
    names", whatever the order, the repetitions and the aliases of the list — the constructor's
    `usedTypesMap` de-duplication (modelled in `buildFns`) never drops a listed type; in
    particular any permutation of the list gives the same answer. -/
theorem doif_check_type_is_set_membership (o : Oracle) (now : Int) (ev : JTree) (c : TypeCheck)
    (vs : List Bytes) (tch : List Pos) (hp : vs.Perm c.values) :
    (checkSt o now ev (.checkType c) tch).1 = c.values.any (fun v => typeFn v (dig ev c.path)) ∧
    (checkSt o now ev (.checkType { c with values := vs }) tch).1 = (checkSt o now ev (.checkType c) tch).1 := by
  simp only [checkSt, typeCheck_eq_specType, specType]
  exact ⟨trivial, hp.any_eq⟩

-- `[nil, null]` and `[null, nil, null]` on a null field
example : (checkSt oAscii 0 (evF .null) (.checkType ⟨[[102]], [tn_nil, tn_null]⟩) []).1 = true ∧
    (checkSt oAscii 0 (evF .null) (.checkType ⟨[[102]], [tn_null, tn_nil, tn_null]⟩) []).1 = true := by decide

/-- **and / or / not, as run**: one step of the short-circuit loops is `&&` / `||` / `!` of the
    first operand's answer and the rest evaluated in the state the first operand left; skipping
    the rest after a deciding operand does not change the answer. -/
theorem logical_semantics_stateful (o : Oracle) (now : Int) (ev : JTree) (x : Node) (xs : List Node) (tch : List Pos) :
    (checkSt o now ev (.and (x :: xs)) tch).1 =
      ((checkSt o now ev x tch).1 && (checkSt o now ev (.and xs) (checkSt o now ev x tch).2).1) ∧
    (checkSt o now ev (.or (x :: xs)) tch).1 =
      ((checkSt o now ev x tch).1 || (checkSt o now ev (.or xs) (checkSt o now ev x tch).2).1) ∧
    (checkSt o now ev (.not [x]) tch).1 = !(checkSt o now ev x tch).1 := by
  refine ⟨?_, ?_, ?_⟩
  · simp only [checkSt, checkAllSt]; cases (checkSt o now ev x tch).1 <;> simp
  · simp only [checkSt, checkAnySt]; cases (checkSt o now ev x tch).1 <;> simp
  · simp [checkSt, checkNotSt]

/-- **and / or / not are the boolean connectives**: with every leaf looking at a freshly decoded
    event (`check`; equal to the code's answer under `TreeOK`, see
    `doif_answer_independent_of_history`) the short-circuit loops of `logicalNode.Check` compute
    the conjunction / disjunction of ALL operands' checks and the negation of the single operand,
    for operand lists of any length and operands of any depth. -/
theorem logical_semantics (o : Oracle) (now : Int) (ev : JTree) (ops : List Node) (x : Node) :
    check o now ev (.and ops) = ops.all (check o now ev) ∧
    check o now ev (.or ops) = ops.any (check o now ev) ∧
    check o now ev (.not [x]) = !check o now ev x := by
  refine ⟨?_, ?_, ?_⟩
  · simp only [check]
    induction ops with
    | nil => simp [checkAll]
    | cons y ys ih => simp only [checkAll, List.all_cons, ih]; cases check o now ev y <;> simp
  · simp only [check]
    induction ops with
    | nil => simp [checkAny]
    | cons y ys ih => simp only [checkAny, List.any_cons, ih]; cases check o now ev y <;> simp
  · simp [check, checkNot]

example : check oAscii 0 (evF (.str [97]))
    (.or [.field (fld .equal true [some [98]]), .not [.field (fld .equal true [some [98]])]]) = true := by decide

/-- **counterexample (b), bucket / early exit**: case-insensitive `equal` with value `k` on a field
    holding U+212A: the documentation lower-cases both sides (`k` = `k`), the code looks for a
    value of the field's un-lowered length 3 and finds none. -/
theorem doif_counterexample_ci_equal : ¬ DoIfEqSpec := fun h => by
  have := h oUnicode 0 (evF (.str kelvin)) (.field (fld .equal false [some [107]]))
  revert this; decide

/-- **counterexample (b), truncate then lower**: case-insensitive `prefix` with value U+FFFD on a
    field holding U+1F600: the code cuts the field to the value's 3 bytes, splitting the rune, and
    lower-casing turns the pieces into U+FFFD — a match the documented semantics does not have. -/
theorem doif_counterexample_ci_prefix_truncation : ¬ DoIfEqSpec := fun h => by
  have := h oUnicode 0 (evF (.str grin)) (.field (fld .prefix false [some fffd]))
  revert this; decide

/-- **counterexample (c)**: arrays and objects are documented as not matched, but `Get` hands the
    field ops one NUL byte, which `contains ""` (and prefix / suffix / regexes matching it) accepts. -/
theorem doif_counterexample_container : ¬ DoIfEqSpec := fun h => by
  have := h oAscii 0 (evF (.obj [])) (.field (fld .contains true [some []]))
  revert this; decide

/-- the witness of the evaluation-order dependence: `{"o":{"x":"a\nb"},"c":<c>}` -/
def evOrder (c : UInt8) : JTree :=
  .obj [([111], .obj [([120], .str [97, 10, 98])]), ([99], .str [c])]

/-- `or [ and [ c = "1", o.x = "zz" ], byte_len_cmp o eq 12 ]` — `{"x":"a\nb"}` is 12 bytes -/
def ruleOrder : Node :=
  .or [.and [.field ⟨.equal, [[99]], true, [some [49]]⟩, .field ⟨.equal, [[111], [120]], true, [some [122, 122]]⟩],
       .lenCmp ⟨.byte, [[111]], .eq, 12⟩]

/-- **counterexample (d), evaluation order**: the documented answer of `ruleOrder` is true whatever
    `c` is (the guard branch never holds, `o` is 12 bytes long). The code agrees when `c = "0"`
    (the `and` short-circuits, `o.x` is still raw); with `c = "1"` the second operand of the `and`
    reads `o.x`, insane-json unescapes it in place, and byte_len_cmp then counts 11: the decision
    depends on a short-cut taken elsewhere in the tree. -/
theorem doif_counterexample_unescape_order :
    spec oAscii 0 (evOrder 48) ruleOrder = true ∧ spec oAscii 0 (evOrder 49) ruleOrder = true ∧
    (checkSt oAscii 0 (evOrder 48) ruleOrder []).1 = true ∧
    (checkSt oAscii 0 (evOrder 49) ruleOrder []).1 = false ∧ ¬ DoIfEqSpec := by
  refine ⟨by decide, by decide, by decide, by decide, fun h => ?_⟩
  have := h oAscii 0 (evOrder 49) ruleOrder
  revert this; decide

/-- **counterexample (f), escaped field names**: `getNodeBytesSize` counts a field name by its
    decoded length, so `{"q\"k":1}` (10 bytes) is measured as 9. -/
theorem doif_counterexample_escaped_key : ¬ DoIfEqSpec := fun h => by
  have := h oAscii 0 (evF (.obj [([113, 34, 107], .num [49])])) (.lenCmp ⟨.byte, [[102]], .eq, 10⟩)
  revert this; decide

/-! ## match_fields -/

/-- the full statement for the legacy selector, over conditions as fd.extractConditions builds
    them (`Cond.WF`: a regexp or a value list, never both) -/
def MatchFieldsEqSpec : Prop :=
  ∀ (re : Bytes → Bytes → Bool) (mode : Mode) (conds : List Cond) (invert : Bool) (ev : JTree),
    (∀ c ∈ conds, c.WF) → isMatch re mode conds invert ev = specMatch re mode conds invert ev

/-- **match_fields**: for all four modes, with and without inversion, any number of exact /
    prefix / regexp conditions, any event and any regexp oracle, `processor.isMatch` (after /repo
    fix a4d7a7c) is the documented and / or combination of the per-condition tests. -/
theorem matchfields_eq_spec : MatchFieldsEqSpec := by
  intro re mode conds invert ev hwf
  cases mode <;>
    simp [isMatch, specMatch, isMatchOr_eq_any re conds ev _ hwf, isMatchAnd_eq_all]

example : (⟨[[102]], [], some [94, 97]⟩ : Cond).WF := fun _ => rfl

/-- **condition order**: match_fields is a JSON object, so the conditions reach the processor in
    map-iteration order; the selection does not depend on it. -/
theorem matchfields_independent_of_condition_order (re : Bytes → Bytes → Bool) (mode : Mode)
    (c₁ c₂ : List Cond) (invert : Bool) (ev : JTree) (hp : c₁.Perm c₂) (hwf : ∀ c ∈ c₂, c.WF) :
    isMatch re mode c₁ invert ev = isMatch re mode c₂ invert ev := by
  rw [matchfields_eq_spec re mode c₁ invert ev (fun c hc => hwf c (hp.mem_iff.1 hc)),
      matchfields_eq_spec re mode c₂ invert ev hwf]
  cases mode <;> simp only [specMatch, hp.all_eq, hp.any_eq]

/-- **the defect repaired by a4d7a7c**: before the fix, mode `and` with a regexp condition was
    false whatever the event — here on the documentation's example shape: one exact condition
    that holds and one regexp condition whose regexp matches. -/
theorem matchfields_and_regexp_prefix_defect :
    let re : Bytes → Bytes → Bool := fun _ _ => true
    let conds : List Cond := [⟨[[102]], [[97]], none⟩, ⟨[[103]], [], some [94, 98]⟩]
    let ev : JTree := .obj [([102], .str [97]), ([103], .str [98, 99])]
    isMatchAndPreFix re conds ev false = false ∧ specMatch re .and conds false ev = true ∧
    isMatch re .and conds false ev = true := by
  decide

end FileD.PropsC14
