/-
  C05 — In-flight events never exceed capacity; none leaks or is handed out twice.
  Property theorems only (helper lemmas: FileD/Lemmas/Pool.lean, FileD/Lemmas/PoolStd.lean).
-/
import FileD.Lemmas.Pool
import FileD.Lemmas.PoolStd
import FileD.Lemmas.Life
namespace FileD.PropsC05
open FileD FileD.Pool

/-- **low-memory pool, capacity**: in every reachable state of the pool model (every interleaving of
    the atomic steps of any number of readers, backs and heartbeats, either heartbeat variant)
    the events out of the pool (successful gets minus backs) never exceed the capacity, and the
    counter `inUseEvents` is exactly that number plus the readers standing between their failed
    `Inc` and the compensating `Dec` (the transient overshoot). -/
theorem lm_held_le_capacity (c : LM.Cfg) (n : Nat) (s : LM.St)
    (h : TS.Reachable (LM.step? c) (LM.init n) s) :
    LM.held s ≤ c.cap ∧ LM.held s = LM.cnt s LM.isHold ∧ s.inUse = LM.held s + LM.cnt s LM.isOver := by
  have inv := LM.inv_reachable c n s h
  have h1 := inv.hist; have h2 := inv.capb; have h3 := inv.ctr
  simp only [LM.held]; omega

/-- non-vacuity: capacity 1, two readers; reader 1 is inside the overshoot window, counter = 2 -/
example : ∃ s, TS.Reachable (LM.step? ⟨1, false⟩) (LM.init 2) s ∧ LM.held s = 1 ∧ s.inUse = 2 :=
  ⟨_, ⟨[.start 0, .inc 0, .start 1, .inc 1], rfl⟩, by decide⟩

/-- **readers_block_not_drop** (low-memory pool): whatever step any goroutine takes, a reader that is
    inside `get` is afterwards still inside `get` (blocked or retrying) or has returned with an event —
    and it returns only through the `Inc` that found the counter below the capacity. -/
theorem lm_readers_block_not_drop (c : LM.Cfg) (s s' : LM.St) (op : LM.Op) (r : Nat) (pc pc' : LM.Pc)
    (hs : LM.step? c s op = some s') (hpc : s.pcs[r]? = some pc) (hin : lmInGet pc = true)
    (hpc' : s'.pcs[r]? = some pc') :
    lmInGet pc' = true ∨ (pc' = .holding ∧ s.inUse < c.cap) := by
  have bc : ∀ (t : LM.St), t.pcs = s.pcs → (LM.broadcast t).pcs[r]? = some pc' → lmInGet pc' = true := by
    intro t ht h
    simp only [LM.broadcast, List.getElem?_map, ht, hpc] at h
    simp at h; subst h; rw [lmInGet_wake]; exact hin
  cases op with
  | hbRead => simp [LM.step?] at hs; subst hs; rw [hpc] at hpc'; simp at hpc'; subst hpc'; exact Or.inl hin
  | mark r0 =>
    simp only [LM.step?] at hs; split at hs <;> simp at hs; subst hs
    rw [hpc] at hpc'; simp at hpc'; subst hpc'; exact Or.inl hin
  | hbFire =>
    simp [LM.step?] at hs; subst hs
    split at hpc'
    · exact Or.inl (bc s rfl hpc')
    · rw [hpc] at hpc'; simp at hpc'; subst hpc'; exact Or.inl hin
  | bBcast r0 =>
    simp only [LM.step?] at hs; split at hs <;> simp at hs; subst hs; rename_i h0
    simp only [LM.broadcast, LM.setPc, List.getElem?_map] at hpc'
    cases hq : (s.pcs.set r0 LM.Pc.idle)[r]? with
    | none => simp [hq] at hpc'
    | some pc1 =>
      simp [hq] at hpc'; subst hpc'
      rcases set_cases _ _ _ _ _ _ hq hpc with ⟨e, _⟩ | e
      · subst e; rw [h0] at hpc; simp at hpc; subst hpc; simp [lmInGet] at hin
      · subst e; rw [lmInGet_wake]; exact Or.inl hin
  | inc r0 =>
    simp only [LM.step?] at hs; split at hs
    · rename_i h0
      split at hs <;> simp at hs <;> subst hs <;> simp only [LM.setPc] at hpc'
      · rename_i hc
        rcases set_cases _ _ _ _ _ _ hpc' hpc with ⟨e, e'⟩ | e
        · exact Or.inr ⟨e', by omega⟩
        · subst e; exact Or.inl hin
      · rcases set_cases _ _ _ _ _ _ hpc' hpc with ⟨e, e'⟩ | e
        · subst e'; exact Or.inl rfl
        · subst e; exact Or.inl hin
    · simp at hs
  | check r0 =>
    simp only [LM.step?] at hs; split at hs <;> simp at hs; subst hs
    simp only [LM.setPc] at hpc'
    rcases set_cases _ _ _ _ _ _ hpc' hpc with ⟨e, e'⟩ | e
    · subst e'; split <;> exact Or.inl rfl
    · subst e; exact Or.inl hin
  | bDec r0 =>
    simp only [LM.step?] at hs; split at hs <;> simp at hs; subst hs; rename_i h0
    simp only [LM.setPc] at hpc'
    rcases set_cases _ _ _ _ _ _ hpc' hpc with ⟨e, e'⟩ | e
    · subst e; rw [h0] at hpc; simp at hpc; subst hpc; simp [lmInGet] at hin
    · subst e; exact Or.inl hin
  | start r0 =>
    simp only [LM.step?] at hs; split at hs <;> simp at hs; subst hs
    simp only [LM.setPc] at hpc'
    rcases set_cases _ _ _ _ _ _ hpc' hpc with ⟨_, e'⟩ | e
    · subst e'; exact Or.inl rfl
    · subst e; exact Or.inl hin
  | dec r0 | swInc r0 | waitEnq r0 | unlock r0 | swDec r0 =>
    simp only [LM.step?] at hs; split at hs <;> simp at hs; subst hs
    simp only [LM.setPc] at hpc'
    rcases set_cases _ _ _ _ _ _ hpc' hpc with ⟨_, e'⟩ | e
    · subst e'; exact Or.inl rfl
    · subst e; exact Or.inl hin
  | lock r0 | relock r0 =>
    simp only [LM.step?] at hs; split at hs <;> simp at hs; subst hs
    simp only [LM.setPc] at hpc'
    rcases set_cases _ _ _ _ _ _ hpc' hpc with ⟨_, e'⟩ | e
    · subst e'; exact Or.inl rfl
    · subst e; exact Or.inl hin

example : lmInGet .parked = true := rfl

set_option hygiene false in
/-- the moving reader `r0` is inside get before and after (or returns with an event) -/
macro "rb_in" : tactic => `(tactic| (
  simp only [Std.setPc, Std.setSlot] at hpc'
  rcases set_cases _ _ _ _ _ _ hpc' hpc with ⟨_, e'⟩ | e
  · subst e'; first | exact Or.inl rfl | exact Or.inr ⟨_, rfl⟩
  · subst e; exact Or.inl hin))

set_option hygiene false in
/-- the moving reader `r0` is outside get (its old pc `h0` is not a get pc): it is not `r` -/
macro "rb_out" : tactic => `(tactic| (
  simp only [Std.setPc, Std.setSlot] at hpc'
  rcases set_cases _ _ _ _ _ _ hpc' hpc with ⟨e, _⟩ | e
  · subst e; rw [h0] at hpc; simp at hpc; subst hpc; simp [stdInGet] at hin
  · subst e; exact Or.inl hin))

/-- **readers_block_not_drop** (standard pool): a reader inside `get` stays inside `get` (spinning,
    parked or retrying) until it returns with an event; no step of anybody makes it return empty-handed. -/
theorem std_readers_block_not_drop (s s' : Std.St) (op : Std.Op) (r : Nat) (pc pc' : Std.Pc)
    (hs : Std.step? s op = some s') (hpc : s.pcs[r]? = some pc) (hin : stdInGet pc = true)
    (hpc' : s'.pcs[r]? = some pc') :
    stdInGet pc' = true ∨ ∃ e, pc' = .holding e := by
  have bc : ∀ (l : List Std.Pc), l[r]? = some pc → (l.map Std.wake)[r]? = some pc' → stdInGet pc' = true := by
    intro l hl h
    simp only [List.getElem?_map, hl] at h
    simp at h; subst h; rw [stdInGet_wake]; exact hin
  cases op with
  | hbRead => simp [Std.step?] at hs; subst hs; rw [hpc] at hpc'; simp at hpc'; subst hpc'; exact Or.inl hin
  | mark r0 =>
    simp only [Std.step?] at hs; split at hs <;> simp at hs; subst hs
    rw [hpc] at hpc'; simp at hpc'; subst hpc'; exact Or.inl hin
  | hbFire =>
    simp [Std.step?] at hs; subst hs
    split at hpc'
    · exact Or.inl (bc s.pcs hpc hpc')
    · rw [hpc] at hpc'; simp at hpc'; subst hpc'; exact Or.inl hin
  | bBcast r0 =>
    simp only [Std.step?] at hs; split at hs <;> simp at hs; subst hs; rename_i h0
    simp only [Std.broadcast, Std.setPc] at hpc'
    by_cases e : r0 = r
    · subst e; rw [h0] at hpc; simp at hpc; subst hpc; simp [stdInGet] at hin
    · exact Or.inl (bc _ (by rw [List.getElem?_set_ne e]; exact hpc) hpc')
  | start r0 =>
    simp only [Std.step?] at hs; split at hs <;> simp at hs; subst hs; rename_i h0; rb_out
  | bDec r0 =>
    simp only [Std.step?] at hs; split at hs <;> simp at hs; subst hs; rename_i h0; rb_out
  | tkt r0 =>
    simp only [Std.step?] at hs; split at hs <;> simp at hs; subst hs; rb_in
  | cas r0 =>
    simp only [Std.step?] at hs
    split at hs
    · split at hs
      · split at hs <;> simp at hs <;> subst hs
        · rb_in
        · simp only [Std.setPc] at hpc'
          rcases set_cases _ _ _ _ _ _ hpc' hpc with ⟨_, e'⟩ | e
          · subst e'; exact Or.inl (stdInGet_casFail _ _ _)
          · subst e; exact Or.inl hin
      · simp at hs
    · simp at hs
  | swInc r0 | waitEnq r0 | unlock r0 | swDec r0 | iInc r0 =>
    simp only [Std.step?] at hs; split at hs <;> simp at hs; subst hs; rb_in
  | lock r0 | relock r0 =>
    simp only [Std.step?] at hs; split at hs
    · split at hs <;> simp at hs; subst hs; rb_in
    · simp at hs
  | take r0 =>
    simp only [Std.step?] at hs
    split at hs
    · split at hs
      · split at hs <;> simp at hs <;> subst hs
        · rb_in
        · rw [hpc] at hpc'; simp at hpc'; subst hpc'; exact Or.inl hin
      · simp at hs
    · simp at hs
  | bstart r0 | btkt r0 =>
    simp only [Std.step?] at hs; split at hs <;> simp at hs; subst hs; rename_i h0; rb_out
  | bcas r0 =>
    simp only [Std.step?] at hs
    split at hs
    · rename_i h0
      split at hs
      · split at hs <;> simp at hs <;> subst hs
        · rb_out
        · rw [hpc] at hpc'; simp at hpc'; subst hpc'; exact Or.inl hin
      · simp at hs
    · simp at hs
  | bput r0 =>
    simp only [Std.step?] at hs
    split at hs
    · rename_i h0
      split at hs <;> simp at hs; subst hs; rb_out
    · simp at hs

example : stdInGet (.parked 0) = true := rfl

/-- **standard pool, capacity**: in every reachable state the events out of the pool
    (successful gets minus backs begun) are the readers holding one, never more than the capacity;
    `inUseEvents` counts them plus the returns that have not reached their `Dec` yet. -/
theorem std_held_le_capacity (cap n : Nat) (s : Std.St)
    (h : TS.Reachable Std.step? (Std.init cap n) s) :
    Std.held s ≤ cap ∧ Std.held s = Std.cnt s Std.isHoldS ∧ s.inUse = Std.cnt s Std.inCtr ∧ s.cap = cap := by
  have inv := Std.inv_reachable cap n s h
  have hcap : s.cap = cap := by
    obtain ⟨ops, hr⟩ := h
    have : ∀ (ops : List Std.Op) (a b : Std.St), TS.run Std.step? a ops = some b → b.cap = a.cap := by
      intro ops
      induction ops with
      | nil => intro a b h; simp [TS.run] at h; subst h; rfl
      | cons op ops ih =>
        intro a b h
        simp only [TS.run] at h
        cases hso : Std.step? a op with
        | none => simp [hso] at h
        | some a1 =>
          simp [hso] at h
          rw [ih a1 b h]
          revert hso
          cases op <;> simp only [Std.step?] <;> (repeat' split) <;> intro hso <;>
            simp at hso <;> (try subst hso) <;> rfl
    exact this ops _ _ hr
  have h1 : Std.cnt s Std.isHoldS ≤ Std.cnt s Std.isOutish := by
    apply List.countP_mono_left
    intro pc _ hp; cases pc <;> simp_all [Std.isHoldS, Std.isOutish]
  have h2 : s.slots.countP Std.isFF ≤ s.slots.length := List.countP_le_length
  have h3 := inv.nff; have h4 := inv.len; have h5 := inv.hist
  refine ⟨?_, ?_, inv.ctr, hcap⟩ <;> simp only [Std.held] <;> omega

example : ∃ s, TS.Reachable Std.step? (Std.init 1 2) s ∧ Std.held s = 1 :=
  ⟨_, ⟨[.start 0, .tkt 0, .cas 0, .take 0, .iInc 0], rfl⟩, by decide⟩

/-- **slot_exclusive**: the free1/free2 two-phase protocol. In every reachable state every slot is
    in one of the four states Free / Taken (by exactly the reader recorded as its owner) / Out /
    Returning (by exactly one reader); two readers never work on the same slot; an event is with
    exactly one holder or in exactly one slot; a nil event is never taken out of a slot. -/
theorem slot_exclusive (cap n : Nat) (s : Std.St) (h : TS.Reachable Std.step? (Std.init cap n) s) :
    (∀ (x : Nat) (sl : Std.Slot), s.slots[x]? = some sl → Std.SlotOK s x sl) ∧
    (∀ (r r' : Nat) (pc pc' : Std.Pc) (x : Nat), s.pcs[r]? = some pc → s.pcs[r']? = some pc' →
        Std.slotRef pc = some x → Std.slotRef pc' = some x → r = r') ∧
    (∀ (r r' : Nat) (pc pc' : Std.Pc) (e : Nat), s.pcs[r]? = some pc → s.pcs[r']? = some pc' →
        Std.carries pc = some e → Std.carries pc' = some e → r = r') ∧
    (∀ (r : Nat) (pc : Std.Pc) (e x : Nat) (sl : Std.Slot), s.pcs[r]? = some pc → Std.carries pc = some e → s.slots[x]? = some sl → sl.ev ≠ some e) ∧
    (∀ (x x' : Nat) (sl sl' : Std.Slot) (e : Nat), s.slots[x]? = some sl → s.slots[x']? = some sl' → sl.ev = some e → sl'.ev = some e → x = x') ∧
    s.panicked = false := by
  have inv := Std.inv_reachable cap n s h
  refine ⟨inv.slot, ?_, ?_, ?_, ?_, inv.np⟩
  · intro r r' pc pc' x h1 h2 hr hr'
    obtain ⟨sl, hsl, _, _, ho⟩ := inv.rd r pc x h1 hr
    obtain ⟨sl', hsl', _, _, ho'⟩ := inv.rd r' pc' x h2 hr'
    rw [hsl] at hsl'; simp at hsl'; subst hsl'
    rw [ho] at ho'; simpa using ho'
  · intro r r' pc pc' e h1 h2 hc hc'
    have a := inv.e2 r pc e h1 hc
    have b := inv.e2 r' pc' e h2 hc'
    rw [a] at b; simpa using b
  · intro r pc e x sl h1 hc hsl he
    have a := inv.e2 r pc e h1 hc
    have b := inv.e1 x sl e hsl he
    rw [a] at b; simp at b
  · intro x x' sl sl' e h1 h2 he he'
    have a := inv.e1 x sl e h1 he
    have b := inv.e1 x' sl' e h2 he'
    rw [a] at b; simpa using b

/-- non-vacuity: capacity 2; reader 0 holds event 0, reader 1 is between CAS and Store on slot 1 -/
example : ∃ s, TS.Reachable Std.step? (Std.init 2 2) s ∧
    s.pcs = [.holding 0, .taken 1] ∧ (s.slots.map (fun sl => (sl.f1, sl.f2))) = [(false, false), (false, true)] :=
  ⟨_, ⟨[.start 0, .tkt 0, .cas 0, .take 0, .iInc 0, .start 1, .tkt 1, .cas 1], rfl⟩, by decide⟩

/-! ## event life cycle after eventPool.get (Pipeline.In … Pipeline.finalize) -/

/-- **finalize_once**: along every run of the life-cycle model (every interleaving of the events'
    steps: decode error, refusal, streaming, discard / collapse, hold + propagate, output commit,
    finalize of child and time-out events) `eventPool.back` is called at most once per event,
    exactly once iff the event is done, never for an event still in flight; and a done event has
    seen exactly the finalize calls of its path (hold: `finalize(…, false, false)` then the commit). -/
theorem finalize_once (cap : Nat) (kinds : List Life.Kind) (s : Life.St) (i : Nat) (e : Life.Ev)
    (h : TS.Reachable Life.step? (Life.init cap kinds) s) (hi : s.evs[i]? = some e) :
    e.backs ≤ 1 ∧ (e.pc = .done → e.backs = 1 ∧ e.fins = Life.expectedFins e.kind) ∧
    (e.pc ≠ .done → e.backs = 0) := by
  have hok := (Life.inv_reachable cap kinds s h).ev i e hi
  revert hok
  simp only [Life.EvOK]
  cases e.pc <;> simp <;> intros <;> simp_all

/-- **idle_zero** and the capacity bound of the pipeline: the events out of the pool are exactly
    the events between `get` and their `back`, never more than the capacity; when no event is in
    flight (every event not yet read or done) the count is 0. -/
theorem idle_zero (cap : Nat) (kinds : List Life.Kind) (s : Life.St)
    (h : TS.Reachable Life.step? (Life.init cap kinds) s) :
    s.inUse ≤ s.cap ∧ s.inUse = s.evs.countP Life.live ∧
    ((∀ (i : Nat) (e : Life.Ev), s.evs[i]? = some e → e.pc = .fresh ∨ e.pc = .done) → s.inUse = 0) := by
  have inv := Life.inv_reachable cap kinds s h
  refine ⟨inv.capb, inv.ctr, ?_⟩
  intro hall
  rw [inv.ctr, List.countP_eq_zero]
  intro e he
  obtain ⟨i, hlt, rfl⟩ := List.getElem_of_mem he
  have := hall i s.evs[i] (by simp [hlt])
  rcases this with h | h <;> simp [Life.live, h]

/-- **held_event_keeps_processor**: while an action holds an event (or an event is being worked on) a
    processor stays on the stream — `processEvent` returns only when NO action is busy, whichever action
    consumed the last event — so the next event or the stream time-out reaches the holder: `propagate`
    is enabled, and the held pool event cannot be stranded. (A processor that left because only the LAST
    action was not busy would make `detachProc` enabled here, and the idle pipeline would keep in-use = 1:
    witness replayed on the implementation by `c05.chain … h q`.) -/
theorem held_event_keeps_processor (cap : Nat) (kinds : List Life.Kind) (s : Life.St) (i : Nat) (e : Life.Ev)
    (h : TS.Reachable Life.step? (Life.init cap kinds) s) (hi : s.evs[i]? = some e) (hh : e.pc = .held) :
    s.attached = true ∧ Life.step? s .detachProc = none ∧ (Life.step? s (.propagate i)).isSome = true := by
  have inv := Life.inv_reachable cap kinds s h
  have hpos : 0 < s.evs.countP Life.needsProc :=
    countP_pos_of_get Life.needsProc s.evs i e hi (by simp [Life.needsProc, hh])
  have ha := inv.att hpos
  refine ⟨ha, ?_, ?_⟩
  · simp only [Life.step?]; split
    · omega
    · rfl
  · simp [Life.step?, hi, hh, ha]

/-- non-vacuity: an event is held, the next one is dropped by another action, the processor stays -/
example : ∃ s e, TS.run Life.step? (Life.init 2 [.hold, .discard])
      [.get 0, .stream 0, .take 0, .hold 0, .get 1, .stream 1, .take 1, .discard 1] = some s ∧
    s.evs[0]? = some e ∧ e.pc = .held ∧ s.inUse = 1 := ⟨_, _, rfl, rfl, by decide⟩

/-- non-vacuity: capacity 1, a held event that is propagated and committed, then a refused one -/
example : ∃ s, TS.run Life.step? (Life.init 1 [.hold, .refused])
      (Life.script 0 .hold ++ Life.script 1 .refused) = some s ∧ s.inUse = 0 ∧
      s.evs.map (·.fins) = [[0, 3], []] ∧ s.evs.map (·.backs) = [1, 1] := ⟨_, rfl, by decide⟩

end FileD.PropsC05
