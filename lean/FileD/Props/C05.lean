/-
  C05 — In-flight events never exceed capacity; none leaks or is handed out twice.
  Property theorems only (helper lemmas: FileD/Lemmas/Pool.lean, FileD/Lemmas/PoolStd.lean).
-/
import FileD.Lemmas.Pool
namespace FileD.PropsC05
open FileD FileD.Pool

/-- **low-memory pool, capacity**: in every reachable state of the pool model (every interleaving of
    the atomic steps of any number of readers, backs and heartbeats, either heartbeat variant)
    the events out of the pool (successful gets minus backs) never exceed the capacity, and the
    counter `inUseEvents` is exactly that number plus the readers standing between their failed
    `Inc` and the compensating `Dec` (the transient overshoot). -/
theorem lm_held_le_capacity (c : LM.Cfg) (n : Nat) (s : LM.St)
    (h : TS.Reachable (LM.step? c) (LM.init n) s) :
    LM.held s ≤ c.cap ∧ LM.held s = LM.cnt s LM.isHold ∧ s.inUse = LM.held s + LM.cnt s LM.isOver := by
  have inv := LM.inv_reachable c n s h
  have h1 := inv.hist; have h2 := inv.capb; have h3 := inv.ctr
  simp only [LM.held]; omega

/-- non-vacuity: capacity 1, two readers; reader 1 is inside the overshoot window, counter = 2 -/
example : ∃ s, TS.Reachable (LM.step? ⟨1, false⟩) (LM.init 2) s ∧ LM.held s = 1 ∧ s.inUse = 2 :=
  ⟨_, ⟨[.start 0, .inc 0, .start 1, .inc 1], rfl⟩, by decide⟩

end FileD.PropsC05
