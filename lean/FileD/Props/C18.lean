/-
  C18 — keep_fields and remove_fields select exactly the configured paths.
  Property theorems only (helper lemmas: FileD/Lemmas/Fields*.lean).
-/
import FileD.Model.Fields
import FileD.Spec.C18
namespace FileD.PropsC18
open FileD FileD.Fields FileD.SpecC18

/-- `{"a":1,"b":2,"c":3,"d":4}` -/
def abcd : JTree := .obj [([97], .num [49]), ([98], .num [50]), ([99], .num [51]), ([100], .num [52])]

/-- the property as stated (order of survivors preserved), for remove_fields -/
def RemoveEqSpec : Prop :=
  ∀ (paths : List Path) (kvs : KVs), uniq (.obj kvs) = true →
    removeFields (dedupe (sortLen paths)) (.obj kvs) = subtract paths (.obj kvs)

theorem remove_order_counterexample : ¬ RemoveEqSpec := by
  intro h
  have := congrArg JTree.toToks (h [[[97]]] [([97], .num [49]), ([98], .num [50]), ([99], .num [51]), ([100], .num [52])] (by decide))
  revert this
  decide

end FileD.PropsC18
