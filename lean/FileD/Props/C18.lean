/-
  C18 — keep_fields and remove_fields select exactly the configured paths.
  Property theorems only (helper lemmas: FileD/Lemmas/Fields*.lean).

  Model:  FileD/Model/Fields.lean  (cfg.ParseFieldSelector / ParseNestedFields, remove_fields.Do,
          keep_fields Start + traverseFieldsTree with the trie and the per-depth delete buffers,
          insane-json Dig / Suicide as small functions)
  Spec:   FileD/Spec/C18.lean      (`subtract`, `project`, key-order-insensitive equality `Eqv`, `uniq`)

  Every theorem is about ALL events (any depth / width), ALL selector lists, and ALL results `sort.Slice`
  may produce inside ParseNestedFields (`Normalised`: any rearrangement with non-decreasing lengths).
-/
import FileD.Lemmas.FieldsNorm
import FileD.Lemmas.FieldsSel
namespace FileD.PropsC18
open FileD FileD.Fields FileD.SpecC18

/-! ## selectors -/

/-- **selector_parse_roundtrip**: a selector built from field names (dots escaped as `\.`) parses back to
    exactly these names — for every list of non-empty names of which only the last may end in a backslash. -/
theorem selector_parse_roundtrip (names : List Bytes) (h : validNames names = true) :
    parseFieldSelector (buildFieldSelector names) = names := by
  have := pfs_build names [] h
  simpa [pfs, parseFieldSelector] using this

-- "k.dot", "a\b", "x"  ↦  `k\.dot.a\b.x`  ↦ back
example : parseFieldSelector (buildFieldSelector [[107, 46, 100, 111, 116], [97, 92, 98], [120]])
    = [[107, 46, 100, 111, 116], [97, 92, 98], [120]] := selector_parse_roundtrip _ (by decide)

/-- the hypothesis is needed: `["a\", "b"]` builds `a\.b`, which is the single name `a.b` -/
theorem selector_roundtrip_needs_valid :
    parseFieldSelector (buildFieldSelector [[97, 92], [98]]) ≠ [[97, 92], [98]] := by decide

/-! ## remove_fields -/

/-- **remove_eq_spec_mod_order**: for every event object with unique keys and every selector list (escaped
    dots, nested and overlapping paths, missing paths, paths through scalars; arrays: see `noCross`),
    remove_fields leaves exactly `subtract paths event` up to the order of keys inside objects — values,
    types, nesting and array order exact — and the result still has unique keys.
    `noCross norm t`: no normalised path enters an array of the event by a numeric element. -/
theorem remove_eq_spec_mod_order {fields : List Bytes} {raw sorted norm : List Path}
    (hN : Normalised fields raw sorted norm) (kvs : KVs) (hu : uniq (.obj kvs) = true)
    (hc : noCross norm (.obj kvs) = true) :
    Eqv (removeFields norm (.obj kvs)) (subtract raw (.obj kvs)) ∧ uniq (removeFields norm (.obj kvs)) = true := by
  have h1 := foldl_removeAt_eqv_eraseAt norm (.obj kvs) (.obj kvs) hu hu (eqv_refl _ hu)
  have h2 := foldl_eraseAt_eq_subtract norm (.obj kvs) (fun p hp e => hN.norm_ne (e ▸ hp)) hu hc
  have h3 := subtract_cov (.obj kvs) raw norm hN.cov hN.raw_ne hN.norm_ne
  simp only [removeFields, JTree.isObj, if_true]
  rw [h3, ← h2]
  exact ⟨h1.1, h1.2.1⟩

-- {"a":{"b":1,"c":2,"d":3},"e":4}  minus ["a.b", "zz", "a.b.x", "e.k"]
example : Eqv (removeFields (dedupe (sortLen [[[97],[98]], [[122,122]], [[97],[98],[120]], [[101],[107]]]))
      (.obj [([97], .obj [([98], .num [49]), ([99], .num [50]), ([100], .num [51])]), ([101], .num [52])]))
    (.obj [([97], .obj [([99], .num [50]), ([100], .num [51])]), ([101], .num [52])]) := by decide

/-- the property as stated: the surviving keys keep their order -/
def RemoveEqSpec : Prop :=
  ∀ (fields : List Bytes) (raw sorted norm : List Path), Normalised fields raw sorted norm →
    ∀ kvs : KVs, uniq (.obj kvs) = true → noCross norm (.obj kvs) = true →
      removeFields norm (.obj kvs) = subtract raw (.obj kvs)

/-- `{"a":1,"b":2,"c":3,"d":4}` -/
def abcd : KVs := [([97], .num [49]), ([98], .num [50]), ([99], .num [51]), ([100], .num [52])]

/-- **finding C18-swap-remove-order**: `{a,b,c,d}` minus `a` is `{d,b,c}` — Suicide moves the last field
    into the hole (corpus/C18/witnesses.case replays this on the real plugin) -/
theorem remove_order_counterexample : ¬ RemoveEqSpec := by
  intro h
  have := h [[97]] [[[97]]] [[[97]]] [[[97]]] ⟨rfl, List.Perm.refl _, by simp, rfl⟩ abcd
    (by decide) (by decide)
  have := congrArg JTree.toToks this
  revert this
  decide

example : (removeFields [[[97]]] (.obj abcd)).toToks
    = (JTree.obj [([100], .num [52]), ([98], .num [50]), ([99], .num [51])]).toToks := by decide

/-- order IS preserved when only the last key of each touched object goes (no field has to move) -/
example : removeFields [[[100]]] (.obj abcd) = subtract [[[100]]] (.obj abcd) := rfl

/-- the mod-order statement without the array hypothesis -/
def RemoveIgnoresArrays : Prop :=
  ∀ (fields : List Bytes) (raw sorted norm : List Path), Normalised fields raw sorted norm →
    ∀ kvs : KVs, uniq (.obj kvs) = true →
      Eqv (removeFields norm (.obj kvs)) (subtract raw (.obj kvs))

/-- **finding C18-remove-array-index**: `{"a":[1,2,3]}` minus `a.0` deletes the first array element
    (insane-json Dig enters arrays by `strconv.Atoi`); the property says a path through a non-object is ignored -/
theorem remove_array_counterexample : ¬ RemoveIgnoresArrays := by
  intro h
  have := h [[97, 46, 48]] [[[97], [48]]] [[[97], [48]]] [[[97], [48]]]
    ⟨rfl, List.Perm.refl _, by simp, rfl⟩
    [([97], .arr [.num [49], .num [50], .num [51]])] (by decide)
  revert this
  decide

/-! ## keep_fields -/

/-- **keep_eq_spec_mod_order**: for every event object with unique keys and every selector list, keep_fields
    (trie, traverseFieldsTree, per-depth delete buffers) never panics and leaves exactly `project paths event`
    — the listed values plus the objects on the way to them — up to the order of keys inside objects; paths
    that are missing or cross a scalar or an ARRAY contribute nothing. -/
theorem keep_eq_spec_mod_order {fields : List Bytes} {raw sorted norm : List Path}
    (hN : Normalised fields raw sorted norm) (kvs : KVs) (hu : uniq (.obj kvs) = true) :
    ∃ t', keepFields norm (.obj kvs) = .ok t' ∧ Eqv t' (project raw (.obj kvs)) ∧ uniq t' = true := by
  have hne : norm ≠ [] := by
    rw [hN.norm_eq]; apply dedupe_ne_nil
    intro e
    have := hN.perm
    rw [e] at this
    exact (parsePaths_ok hN.parsed).2.1 this.nil_eq.symm
  have hanti : AntiChain norm := by
    rw [hN.norm_eq]; exact (prefixFree_dedupe sorted hN.isSorted).antiChain
  have hbuf : BufOK 0 norm (mkBufs norm) := by
    refine ⟨by simp [mkBufs], ?_⟩
    intro d _ b hb
    simp only [mkBufs] at hb
    rw [List.getElem?_replicate] at hb
    split at hb
    · cases hb; rfl
    · cases hb
  obtain ⟨keep, t', e1, _, e3⟩ := trav_spec (.obj kvs) hu (buildTrie norm) norm 0 (mkBufs norm)
    (rep_buildTrie norm) hanti hN.norm_ne hne hbuf
  obtain ⟨e4, e5⟩ := e3 kvs rfl (Or.inl rfl)
  refine ⟨t', by simp [keepFields, JTree.isObj, e1], ?_, e5⟩
  rw [project_cov (.obj kvs) raw norm hN.cov hN.raw_ne hN.norm_ne]
  exact e4

-- {"a":{"b":{"f1":1,"f2":2}},"c":0,"d":0} keep ["a.b.f1", "c"]  (the README example; f1 = 102 49)
example : (keepFields (dedupe (sortLen [[[97],[98],[102,49]], [[99]]]))
      (.obj [([97], .obj [([98], .obj [([102,49], .num [49]), ([102,50], .num [50])])]), ([99], .num [48]), ([100], .num [48])])).toOption.map JTree.toToks
    = some (JTree.obj [([97], .obj [([98], .obj [([102,49], .num [49])])]), ([99], .num [48])]).toToks := by decide

/-- the property as stated, for keep_fields -/
def KeepEqSpec : Prop :=
  ∀ (fields : List Bytes) (raw sorted norm : List Path), Normalised fields raw sorted norm →
    ∀ kvs : KVs, uniq (.obj kvs) = true →
      keepFields norm (.obj kvs) = .ok (project raw (.obj kvs))

/-- **finding C18-swap-remove-order** through keep_fields: keeping `b,c,d` of `{a,b,c,d}` gives `{d,b,c}` -/
theorem keep_order_counterexample : ¬ KeepEqSpec := by
  intro h
  have := h [[98], [99], [100]] [[[98]], [[99]], [[100]]] [[[98]], [[99]], [[100]]] [[[98]], [[99]], [[100]]]
    ⟨rfl, List.Perm.refl _, by simp, rfl⟩ abcd (by decide)
  have := congrArg (fun r => r.toOption.map JTree.toToks) this
  revert this
  decide

/-! ## consequences: what does not matter -/

/-- two configurations with the same spec value give the same event (mod key order) -/
theorem remove_congr {f1 f2 : List Bytes} {r1 s1 n1 r2 s2 n2 : List Path}
    (h1 : Normalised f1 r1 s1 n1) (h2 : Normalised f2 r2 s2 n2) (kvs : KVs) (hu : uniq (.obj kvs) = true)
    (hc1 : noCross n1 (.obj kvs) = true) (hc2 : noCross n2 (.obj kvs) = true)
    (hs : subtract r1 (.obj kvs) = subtract r2 (.obj kvs)) :
    Eqv (removeFields n1 (.obj kvs)) (removeFields n2 (.obj kvs)) := by
  obtain ⟨a1, a2⟩ := remove_eq_spec_mod_order h1 kvs hu hc1
  obtain ⟨b1, b2⟩ := remove_eq_spec_mod_order h2 kvs hu hc2
  have hus : uniq (subtract r2 (.obj kvs)) = true := by
    have := foldl_removeAt_eqv_eraseAt n2 (.obj kvs) (.obj kvs) hu hu (eqv_refl _ hu)
    rw [foldl_eraseAt_eq_subtract n2 (.obj kvs) (fun p hp e => h2.norm_ne (e ▸ hp)) hu hc2,
      ← subtract_cov (.obj kvs) r2 n2 h2.cov h2.raw_ne h2.norm_ne] at this
    exact this.2.2
  rw [hs] at a1
  exact eqv_trans _ _ _ a2 hus a1 (eqv_symm _ _ b2 hus b1)

/-- **nested_path_absorbed** (remove_fields): listing a path and, in addition, one of its descendants is the
    same as listing the path alone -/
theorem nested_path_absorbed_remove {fields : List Bytes} {desc : Bytes} {r1 s1 n1 r2 s2 n2 : List Path}
    (h1 : Normalised fields r1 s1 n1) (h2 : Normalised (fields ++ [desc]) r2 s2 n2)
    (hd : ∃ sel ∈ fields, parseFieldSelector sel <+: parseFieldSelector desc)
    (kvs : KVs) (hu : uniq (.obj kvs) = true)
    (hc1 : noCross n1 (.obj kvs) = true) (hc2 : noCross n2 (.obj kvs) = true) :
    Eqv (removeFields n2 (.obj kvs)) (removeFields n1 (.obj kvs)) := by
  apply remove_congr h2 h1 kvs hu hc2 hc1
  apply subtract_cov _ _ _ _ h2.raw_ne h1.raw_ne
  have e1 := (parsePaths_ok h1.parsed).2.2
  have e2 := (parsePaths_ok h2.parsed).2.2
  obtain ⟨sel, hsel, hpre⟩ := hd
  rw [e1, e2]
  constructor
  · intro p hp
    simp only [List.map_append, List.map_cons, List.map_nil, List.mem_append, List.mem_singleton] at hp
    rcases hp with hp | hp
    · exact ⟨p, hp, List.prefix_refl _⟩
    · subst hp; exact ⟨_, List.mem_map_of_mem hsel, hpre⟩
  · intro q hq
    exact ⟨q, by simp only [List.map_append, List.mem_append]; exact Or.inl hq, List.prefix_refl _⟩

/-- **nested_path_absorbed** (keep_fields) -/
theorem nested_path_absorbed_keep {fields : List Bytes} {desc : Bytes} {r1 s1 n1 r2 s2 n2 : List Path}
    (h1 : Normalised fields r1 s1 n1) (h2 : Normalised (fields ++ [desc]) r2 s2 n2)
    (hd : ∃ sel ∈ fields, parseFieldSelector sel <+: parseFieldSelector desc)
    (kvs : KVs) (hu : uniq (.obj kvs) = true) :
    ∃ t1 t2, keepFields n1 (.obj kvs) = .ok t1 ∧ keepFields n2 (.obj kvs) = .ok t2 ∧ Eqv t2 t1 := by
  obtain ⟨t1, a1, a2, a3⟩ := keep_eq_spec_mod_order h1 kvs hu
  obtain ⟨t2, b1, b2, b3⟩ := keep_eq_spec_mod_order h2 kvs hu
  refine ⟨t1, t2, a1, b1, ?_⟩
  have hcov : Cov r2 r1 := by
    have e1 := (parsePaths_ok h1.parsed).2.2
    have e2 := (parsePaths_ok h2.parsed).2.2
    obtain ⟨sel, hsel, hpre⟩ := hd
    rw [e1, e2]
    constructor
    · intro p hp
      simp only [List.map_append, List.map_cons, List.map_nil, List.mem_append, List.mem_singleton] at hp
      rcases hp with hp | hp
      · exact ⟨p, hp, List.prefix_refl _⟩
      · subst hp; exact ⟨_, List.mem_map_of_mem hsel, hpre⟩
    · intro q hq
      exact ⟨q, by simp only [List.map_append, List.mem_append]; exact Or.inl hq, List.prefix_refl _⟩
  rw [project_cov (.obj kvs) r2 r1 hcov h2.raw_ne h1.raw_ne] at b2
  have hus : uniq (project r1 (.obj kvs)) = true := uniq_project r1 kvs hu
  exact eqv_trans _ _ _ b3 hus b2 (eqv_symm _ _ a3 hus a2)

-- keep ["a.b", "a"] = keep ["a"] on {"a":{"b":1,"c":2},"d":3}
example : (keepFields (dedupe (sortLen [[[97],[98]], [[97]]]))
      (.obj [([97], .obj [([98], .num [49]), ([99], .num [50])]), ([100], .num [51])])).toOption.map JTree.toToks
    = (keepFields (dedupe (sortLen [[[97]]]))
      (.obj [([97], .obj [([98], .num [49]), ([99], .num [50])]), ([100], .num [51])])).toOption.map JTree.toToks := by
  decide

/-- **missing paths, paths through scalars / arrays are ignored** (spec level; with the two `…_eq_spec_mod_order`
    theorems this is what the plugins do): a path that does not lead through objects to an existing value can
    be dropped from the list. -/
theorem remove_ignores_unresolved (p : Path) (ps : List Path) (kvs : KVs) (hu : uniq (.obj kvs) = true)
    (h : resolves (.obj kvs) p = false) : subtract (p :: ps) (.obj kvs) = subtract ps (.obj kvs) :=
  subtract_unresolved p (.obj kvs) ps hu h

theorem keep_ignores_unresolved (p : Path) (ps : List Path) (kvs : KVs) (hu : uniq (.obj kvs) = true)
    (h : resolves (.obj kvs) p = false) : project (p :: ps) (.obj kvs) = project ps (.obj kvs) :=
  project_unresolved p kvs ps hu h

-- "a.0" (through an array), "c.x" (through a scalar), "zz" (missing) on {"a":[1],"c":2}
example : resolves (.obj [([97], .arr [.num [49]]), ([99], .num [50])]) [[97], [48]] = false
    ∧ resolves (.obj [([97], .arr [.num [49]]), ([99], .num [50])]) [[99], [120]] = false
    ∧ resolves (.obj [([97], .arr [.num [49]]), ([99], .num [50])]) [[122, 122]] = false := by decide

/-! ## `Eqv` is an equivalence on trees with unique keys, and equality for objects up to a permutation of fields -/

theorem eqv_is_equivalence :
    (∀ t, uniq t = true → Eqv t t) ∧
    (∀ t u, uniq t = true → uniq u = true → Eqv t u → Eqv u t) ∧
    (∀ t u w, uniq t = true → uniq u = true → Eqv t u → Eqv u w → Eqv t w) :=
  ⟨eqv_refl, eqv_symm, eqv_trans⟩

/-- what `Eqv` means on objects: the same keys, and under every key equivalent values — nothing about order -/
theorem eqv_obj_iff_lookup {a b : KVs} (hn : nodupKeys a = true) :
    Eqv (.obj a) (.obj b) ↔
      ∀ k, match lookup k a, lookup k b with
        | some v, some v' => Eqv v v'
        | none, none => True
        | _, _ => False :=
  eqv_obj_iff hn

/-- reordering the fields of an object with unique keys gives an equivalent object -/
theorem eqv_of_perm {a b : KVs} (hu : uniq (.obj a) = true) (hp : a.Perm b) : Eqv (.obj a) (.obj b) := by
  have hn := ((uniq_obj a).1 hu).1
  rw [eqv_obj_iff hn]
  intro k
  rw [← lookup_perm hp hn k]
  cases h : lookup k a with
  | none => trivial
  | some v => exact eqv_refl v (uniq_of_lookup hu h)

/-- and nothing else is identified: equivalent scalars are equal, equivalent arrays have equal length -/
theorem eqv_scalar_eq (u : JTree) :
    (Eqv .null u → u = .null) ∧ (∀ b, Eqv (.bool b) u → u = .bool b) ∧
    (∀ r, Eqv (.num r) u → u = .num r) ∧ (∀ s, Eqv (.str s) u → u = .str s) :=
  ⟨(eqv_null_iff u).1, fun b => (eqv_bool_iff b u).1, fun r => (eqv_num_iff r u).1, fun s => (eqv_str_iff s u).1⟩

example : Eqv (.obj [([97], .num [49]), ([98], .num [50])]) (.obj [([98], .num [50]), ([97], .num [49])]) := by decide
example : ¬ Eqv (.obj [([97], .num [49]), ([98], .num [50])]) (.obj [([98], .num [49]), ([97], .num [50])]) := by decide

end FileD.PropsC18
