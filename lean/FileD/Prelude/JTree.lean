/-
  JSON tree preserving key order and duplicate keys (DESIGN §5) and its prefix token form:
     Z | T | F | N <hex raw number text> | S <hex decoded string bytes>
     A <n> v1 … vn | O <n> <hexkey1> v1 … <hexkeyn> vn
  insane-json operations used by the modelled code get small model functions here; their
  agreement with the library is part of every correspondence run (trusted base).
-/
import FileD.Prelude.Tok
namespace FileD

inductive JTree
  | null
  | bool (b : Bool)
  | num (raw : Bytes)
  | str (s : Bytes)
  | arr (xs : List JTree)
  | obj (kvs : List (Bytes × JTree))
deriving Repr, Inhabited

namespace JTree

mutual
  def toToks : JTree → List String
    | .null => ["Z"]
    | .bool true => ["T"]
    | .bool false => ["F"]
    | .num r => ["N", Hex.enc r]
    | .str s => ["S", Hex.enc s]
    | .arr xs => "A" :: toString xs.length :: toToksList xs
    | .obj kvs => "O" :: toString kvs.length :: toToksKVs kvs
  def toToksList : List JTree → List String
    | [] => []
    | x :: xs => toToks x ++ toToksList xs
  def toToksKVs : List (Bytes × JTree) → List String
    | [] => []
    | (k, v) :: kvs => Hex.enc k :: (toToks v ++ toToksKVs kvs)
end

def enc (t : JTree) : String := Tok.unwords (toToks t)

/-- parser with fuel (fuel = number of tokens is always enough) -/
def parseFuel : Nat → List String → Option (JTree × List String)
  | 0, _ => none
  | fuel+1, ts =>
    match ts with
    | "Z" :: r => some (.null, r)
    | "T" :: r => some (.bool true, r)
    | "F" :: r => some (.bool false, r)
    | "N" :: h :: r => (Hex.dec? h).map (fun b => (.num b, r))
    | "S" :: h :: r => (Hex.dec? h).map (fun b => (.str b, r))
    | "A" :: n :: r =>
      match n.toNat? with
      | none => none
      | some k =>
        let rec items (fuel' : Nat) : Nat → List String → Option (List JTree × List String)
          | 0, ts => some ([], ts)
          | k+1, ts =>
            match fuel' with
            | 0 => none
            | f+1 =>
              match parseFuel fuel ts with
              | none => none
              | some (v, r1) =>
                match items f k r1 with
                | none => none
                | some (vs, r2) => some (v :: vs, r2)
        (items (k + 1) k r).map (fun (xs, r') => (.arr xs, r'))
    | "O" :: n :: r =>
      match n.toNat? with
      | none => none
      | some k =>
        let rec fields (fuel' : Nat) : Nat → List String → Option (List (Bytes × JTree) × List String)
          | 0, ts => some ([], ts)
          | k+1, ts =>
            match fuel', ts with
            | 0, _ => none
            | _, [] => none
            | f+1, kh :: ts' =>
              match Hex.dec? kh with
              | none => none
              | some key =>
                match parseFuel fuel ts' with
                | none => none
                | some (v, r1) =>
                  match fields f k r1 with
                  | none => none
                  | some (vs, r2) => some ((key, v) :: vs, r2)
        (fields (k + 1) k r).map (fun (kvs, r') => (.obj kvs, r'))
    | _ => none

def parse? (ts : List String) : Option (JTree × List String) := parseFuel (ts.length + 1) ts

/-- first value under `key` (insane-json `Dig` on one path element; first match wins) -/
def lookup (key : Bytes) : List (Bytes × JTree) → Option JTree
  | [] => none
  | (k, v) :: kvs => if k = key then some v else lookup key kvs

/-- `Dig(path…)`: only objects can be descended into -/
def dig : JTree → List Bytes → Option JTree
  | t, [] => some t
  | .obj kvs, k :: ks =>
    match lookup k kvs with
    | some v => dig v ks
    | none => none
  | _, _ :: _ => none

def isObj : JTree → Bool | .obj _ => true | _ => false
def isArr : JTree → Bool | .arr _ => true | _ => false
def isStr : JTree → Bool | .str _ => true | _ => false
def isNum : JTree → Bool | .num _ => true | _ => false
def isNull : JTree → Bool | .null => true | _ => false

end JTree
end FileD
