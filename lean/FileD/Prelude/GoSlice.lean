/-
  Go slice / index semantics with explicit panics (DESIGN §5). A Go expression `b[i]`,
  `b[lo:hi]` becomes a checked access; "never panics" is then the theorem
  `∀ input, f input ≠ .error _`. Capacity is not modelled: `hi ≤ len` is required, which is
  what the code can rely on for slices it did not allocate itself.
-/
import FileD.Prelude.Bytes
namespace FileD

inductive Panic
  | bounds      -- index / slice bounds out of range
  | nilDeref
  | other
deriving Repr, DecidableEq

abbrev GoM := Except Panic

namespace GoSlice

def idx? {α} (b : List α) (i : Int) : GoM α :=
  if i < 0 then .error .bounds else
    match b[i.toNat]? with
    | some x => .ok x
    | none => .error .bounds

/-- `b[lo:hi]` -/
def slice? {α} (b : List α) (lo hi : Int) : GoM (List α) :=
  if 0 ≤ lo ∧ lo ≤ hi ∧ hi ≤ b.length then .ok ((b.drop lo.toNat).take (hi.toNat - lo.toNat))
  else .error .bounds

/-- `b[lo:]` -/
def sliceFrom? {α} (b : List α) (lo : Int) : GoM (List α) := slice? b lo b.length

/-- `b[:hi]` -/
def sliceTo? {α} (b : List α) (hi : Int) : GoM (List α) := slice? b 0 hi

/-- `bytes.IndexByte(b, c)` : -1 when absent -/
def indexByte (b : Bytes) (c : UInt8) : Int :=
  match b.findIdx? (· == c) with
  | some i => i
  | none => -1

/-- `bytes.IndexByte(b[from:], c)` rebased to `b`, -1 when absent -/
def indexByteFrom (b : Bytes) (start : Nat) (c : UInt8) : Int :=
  match (b.drop start).findIdx? (· == c) with
  | some i => (start + i : Nat)
  | none => -1

end GoSlice

def panicTok : Panic → String
  | .bounds => "panic:bounds"
  | .nilDeref => "panic:nil"
  | .other => "panic:other"

end FileD
