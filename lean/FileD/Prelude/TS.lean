/-
  Transition-system kit (DESIGN §5): a protocol is `step? : σ → ο → Option σ`; the scheduler is
  the list of ops. Quantifying over `List ο` quantifies over every interleaving.
-/
namespace FileD.TS

def run {σ ο} (step? : σ → ο → Option σ) : σ → List ο → Option σ
  | s, [] => some s
  | s, op :: ops => (step? s op).bind (run step? · ops)

/-- index of the first op the model does not enable (for trace replay diagnostics) -/
def firstReject {σ ο} (step? : σ → ο → Option σ) : σ → List ο → Nat → Option Nat
  | _, [], _ => none
  | s, op :: ops, i =>
    match step? s op with
    | none => some i
    | some s' => firstReject step? s' ops (i + 1)

def Reachable {σ ο} (step? : σ → ο → Option σ) (init s : σ) : Prop :=
  ∃ ops, run step? init ops = some s

theorem run_append {σ ο} (step? : σ → ο → Option σ) (s : σ) (a b : List ο) :
    run step? s (a ++ b) = (run step? s a).bind (run step? · b) := by
  induction a generalizing s with
  | nil => simp [run]
  | cons op ops ih =>
    simp only [List.cons_append, run]
    cases step? s op with
    | none => simp
    | some s1 => simp [ih]

/-- an inductive invariant holds in every reachable state -/
theorem invariant_of_step {σ ο} (step? : σ → ο → Option σ) (Inv : σ → Prop)
    (hstep : ∀ s op s', Inv s → step? s op = some s' → Inv s')
    (s s' : σ) (ops : List ο) (h0 : Inv s) (hr : run step? s ops = some s') : Inv s' := by
  induction ops generalizing s with
  | nil => simp [run] at hr; subst hr; exact h0
  | cons op ops ih =>
    simp only [run] at hr
    cases hso : step? s op with
    | none => simp [hso] at hr
    | some s1 => simp [hso] at hr; exact ih s1 (hstep s op s1 h0 hso) hr

theorem invariant_reachable {σ ο} (step? : σ → ο → Option σ) (Inv : σ → Prop) (init : σ)
    (h0 : Inv init) (hstep : ∀ s op s', Inv s → step? s op = some s' → Inv s')
    (s : σ) (hr : Reachable step? init s) : Inv s := by
  obtain ⟨ops, h⟩ := hr
  exact invariant_of_step step? Inv hstep init s ops h0 h

end FileD.TS
