/-
  Token helpers for the line protocol: a line is space-separated tokens,
  `args | impl-result`. Parsers are `Option`-valued; a malformed line makes the
  driver print `bad-op`, never a default.
-/
import FileD.Prelude.Bytes
namespace FileD
namespace Tok

def words (s : String) : List String :=
  (s.splitOn " ").filter (· ≠ "")

/-- split token list at the first `|` -/
def splitBar : List String → List String × List String
  | [] => ([], [])
  | t :: ts => if t = "|" then ([], ts) else
      let (a, b) := splitBar ts
      (t :: a, b)

def nat? (s : String) : Option Nat := s.toNat?
def int? (s : String) : Option Int := s.toInt?
def bool? (s : String) : Option Bool :=
  if s = "1" then some true else if s = "0" then some false else none
def bytes? (s : String) : Option Bytes := Hex.dec? s

def ofBool (b : Bool) : String := if b then "1" else "0"

/-- `n x1 … xn` prefixed list -/
def listOf {α} (p : String → Option α) : List String → Option (List α × List String)
  | [] => none
  | n :: ts => do
    let k ← n.toNat?
    let rec go : Nat → List String → Option (List α × List String)
      | 0, ts => some ([], ts)
      | _+1, [] => none
      | k+1, t :: ts => do
        let x ← p t
        let (xs, r) ← go k ts
        pure (x :: xs, r)
    go k ts

def unwords (l : List String) : String := " ".intercalate l

def encList {α} (f : α → String) (l : List α) : String :=
  unwords (toString l.length :: l.map f)

end Tok
end FileD
