/-
  Bytes and the hex token codec of the line protocol (DESIGN §2.2).
  Core Lean only: this file is linked into the native driver `fdmodel`.
-/
namespace FileD

abbrev Bytes := List UInt8

def NL : UInt8 := 10
def CR : UInt8 := 13
def SP : UInt8 := 32

namespace Hex

def digit (n : Nat) : Char :=
  if n < 10 then Char.ofNat (48 + n) else Char.ofNat (87 + n)

def val? (c : Char) : Option Nat :=
  if '0' ≤ c ∧ c ≤ '9' then some (c.toNat - 48)
  else if 'a' ≤ c ∧ c ≤ 'f' then some (c.toNat - 87)
  else if 'A' ≤ c ∧ c ≤ 'F' then some (c.toNat - 55)
  else none

def encChars : Bytes → List Char
  | [] => []
  | b :: bs => digit (b.toNat / 16) :: digit (b.toNat % 16) :: encChars bs

/-- hex of a byte string; the empty string is written `-` so it stays one token -/
def enc (b : Bytes) : String :=
  match b with
  | [] => "-"
  | _ => String.ofList (encChars b)

def decChars : List Char → Option Bytes
  | [] => some []
  | [_] => none
  | a :: b :: rest => do
    let x ← val? a
    let y ← val? b
    let r ← decChars rest
    pure (UInt8.ofNat (x * 16 + y) :: r)

def dec? (s : String) : Option Bytes :=
  if s = "-" then some [] else decChars s.toList

end Hex

/-- ASCII string literal to bytes (for readable examples in theorem files) -/
def str (s : String) : Bytes := s.toUTF8.toList

end FileD
