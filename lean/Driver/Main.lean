/-
  fdmodel: line protocol driver. One case per input line:
      <cmd> <args…> | <implementation result…>
  one output line per case:
      M <model result> | P <ok|fail|…>
  Imports only core-Lean modules (Model / Spec / Drv / Prelude), so it links natively.
-/
import FileD.Drv.All
open FileD

def dispatch (cmd : String) (args impl : List String) : Option (String × String) :=
  FileD.Drv.dispatch cmd args impl

def handleLine (line : String) : String :=
  let ws := Tok.words (line.trimAscii).toString
  match ws with
  | [] => "bad-op"
  | cmd :: rest =>
    let (args, impl) := Tok.splitBar rest
    match dispatch cmd args impl with
    | some (m, p) => s!"M {m} | P {p}"
    | none => "bad-op"

partial def loop (h : IO.FS.Stream) (out : IO.FS.Stream) : IO Unit := do
  let line ← h.getLine
  if line.isEmpty then return ()
  out.putStrLn (handleLine line)
  loop h out

def main : IO Unit := do
  let out ← IO.getStdout
  loop (← IO.getStdin) out
  out.flush
