#!/bin/sh
# MANIFEST.setup_cmd: build everything from files on disk, offline.
set -e
cd "$(dirname "$0")"
export GOFLAGS=-mod=mod GOPROXY=off
( cd lean && lake build )
mkdir -p bin evidence
cp harness/go.mod harness/go.alt-build.mod && cp /repo/go.sum harness/go.alt-build.sum
( cd harness && go build -modfile=go.alt-build.mod -tags verif -o ../bin/fdharness ./cmd/fdharness )
echo setup ok
