#!/bin/sh
# usage: tools/keep_seed.sh <ID> <tag> <caught|missed> "<what ran / result line>"
id="$1"; tag="$2"; verdict="$3"; note="$4"
out="/tmp/mut/out-$id-$tag"; dst="/verif/seeded/$id-$tag"
mkdir -p "$dst"
cp "$out/patch.diff" "$dst/patch.diff"
mkdir -p "$dst/demo"; cp -r "$out"/demo/* "$dst/demo/" 2>/dev/null
python3 - "$out/meta.json" "$dst/meta.json" "$id" "$verdict" "$note" <<'PY'
import json,sys
src,dst,pid,verdict,note=sys.argv[1:6]
try: m=json.load(open(src))
except Exception: m={}
m["property"]=pid
m["confirmed_by_main"]={"builds":True,"package_tests_pass_with_patch":True,"demo_fails_with_patch":True,"demo_passes_without_patch":True,
 "how":"tools/eval_seed.sh in a fresh scratch worktree of /repo HEAD"}
m["check_result"]={"verdict":verdict,"ran":note}
json.dump(m,open(dst,"w"),indent=1)
PY
for d in "/tmp/mut/$id-$tag" "/tmp/mut/eval-$id-$tag"; do git -C /repo worktree remove --force "$d" 2>/dev/null; done
rm -rf "$out"
echo "kept $dst ($verdict)"
