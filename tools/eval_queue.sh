#!/bin/sh
# usage: tools/eval_queue.sh "C13 a" "C13 b" ...
# runs tools/eval_seed.sh for each "<ID> <tag>" serially under a lock; logs in /tmp/mut/evalrun-<ID>-<tag>.log
cd /verif
exec 9>/tmp/mut/.evalq.lock
flock 9
for x in "$@"; do
  set -- $x
  tools/eval_seed.sh "$1" "$2" > "/tmp/mut/evalrun-$1-$2.log" 2>&1
done
