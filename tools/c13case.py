#!/usr/bin/env python3
"""Builds a c13.act case line:  c13case.py <plugin> '<cfg json>' [--ps M:C:F:L] <event>...
   event: a JSON document (becomes an E tree event; key order kept), 'R:<raw text>' or 'T'.
   String values may contain \\xNN-style bytes via the JSON escape \\u00NN only for <0x80; for raw
   bytes use R: with Python escapes (the text after R: is passed through 'unicode_escape' + latin-1)."""
import sys, json, binascii

def hx(b):
    return binascii.hexlify(b).decode() if b else "-"

def tok(v, raw_num=None):
    if v is None: return "Z"
    if v is True: return "T"
    if v is False: return "F"
    if isinstance(v, (int, float)): return "N " + hx(json.dumps(v).encode())
    if isinstance(v, str): return "S " + hx(v.encode("utf-8", "surrogateescape"))
    if isinstance(v, list): return " ".join(["A", str(len(v))] + [tok(x) for x in v])
    if isinstance(v, dict): return " ".join(["O", str(len(v))] + [hx(k.encode("utf-8", "surrogateescape")) + " " + tok(x) for k, x in v.items()])
    raise ValueError(v)

def main():
    a = sys.argv[1:]
    plugin, cfg = a[0], a[1]
    a = a[2:]
    ps = "0:0:-:0"
    if a and a[0] == "--ps":
        ps = a[1]; a = a[2:]
    evs = []
    for e in a:
        if e == "T": evs.append("T")
        elif e.startswith("R:"):
            evs.append("R " + hx(e[2:].encode("latin-1").decode("unicode_escape").encode("latin-1")))
        elif e.startswith("B:"):
            # JSON with \\xNN escapes inside strings standing for raw bytes
            txt = e[2:]
            v = json.loads(txt)
            def fix(x):
                if isinstance(x, str): return x.encode("latin-1").decode("utf-8", "surrogateescape")
                if isinstance(x, list): return [fix(y) for y in x]
                if isinstance(x, dict): return {fix(k): fix(y) for k, y in x.items()}
                return x
            evs.append("E " + tok(fix(v)))
        else:
            evs.append("E " + tok(json.loads(e)))
    print(" ".join(["c13.act", plugin, hx(cfg.encode()), ps, str(len(evs))] + evs))

main()
