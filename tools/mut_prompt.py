#!/usr/bin/env python3
"""prints the prompt for an independent mutation agent: property text only, nothing from /verif"""
import json, sys
pid, tag = sys.argv[1], sys.argv[2]
angle = sys.argv[3] if len(sys.argv) > 3 else ""
p = [json.loads(l) for l in open('/verif/properties.jsonl') if json.loads(l)['id'] == pid][0]
wt = f"/tmp/mut/{pid}-{tag}"
out = f"/tmp/mut/out-{pid}-{tag}"
print(f"""You are an experienced Go developer helping to evaluate a verification framework that you cannot see. The project is ozontech/file.d (a log/event pipeline). You have your own scratch git worktree of it at {wt} (already created; work ONLY there; never touch /repo or /verif, never read anything under /verif).

The property under test (id {pid}):
TITLE: {p['title']}
STATEMENT: {p['statement']}
QUANTIFIED OVER: {p['quantifier']['text']}
WHY THE EXISTING TESTS CANNOT SETTLE IT: {p['why_tests_cant']}
CODE IT IS ANCHORED IN: {', '.join(p['anchors']['files'])}
MECHANISMS MEANT TO MAKE IT HOLD: {'; '.join((m.get('name','')+' @ '+m.get('where','')) for m in p['anchors']['mechanism'])}

YOUR TASK: craft ONE realistic change to the project's non-test source code that makes it VIOLATE this property, such that
 1. it still compiles (`go build ./...`) and the EXISTING tests of every package you touch still pass unedited (run them: `go test -vet=off -count=1 ./<pkg>/...`; the pipeline package takes ~2 min);
 2. it looks like something a developer could plausibly introduce (a refactoring slip, an off-by-one, a wrong or inverted condition, a missed branch, a reordered pair of steps, an optimisation that forgets a case) — not sabotage, not dead code, not a special case keyed on a magic value;
 3. it needs something SPECIFIC to manifest — a particular interleaving, a crash or fault at a particular point, a multi-step sequence of operations, an unusual input, or two cooperating sites that each look fine alone — NOT something ordinary use would expose at once (if the very first ordinary event trips it, it is too blunt).
{('ANGLE TO PREFER: ' + angle) if angle else ''}
Also write a DEMONSTRATION: a Go test (or small program) that FAILS with your change applied and PASSES on the unchanged tree; run it both ways and record the outputs.

Rules: do not modify files named *_verif*.go, verif_on.go, verif_off.go, nor lines containing `verifTrace(` / `verifGate(` (they are instrumentation); do not edit existing tests; keep the change small (ideally < 15 changed lines). Environment: no network; use `export GOFLAGS=-mod=mod GOPROXY=off` before go commands (do not set GOSUMDB or GOTOOLCHAIN). Never run git checkout/reset/stash/clean outside your worktree.

DELIVER in the directory {out}/ (create it):
 - patch.diff  : `git -C {wt} diff` of your source change only (no test files)
 - demo/       : the demonstration file(s), with a one-line note where each must be placed (e.g. demo/batch_mut_test.go -> pipeline/)
 - meta.json   : {{"property": "{pid}", "what_it_breaks": "...", "needs_to_manifest": "...", "files_changed": [...], "demo_cmd": "...", "demo_fails_with_patch": true/false (observed), "demo_passes_without_patch": true/false (observed), "package_tests_pass_with_patch": true/false (observed), "commands_run": [...]}}
Leave the worktree with your change applied and the demo file in place. Finish with a short factual report.""")
