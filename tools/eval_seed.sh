#!/bin/sh
# usage: tools/eval_seed.sh <ID> <tag> [tier]
# Confirms a seeded change in a fresh scratch worktree (builds, package tests pass, demo fails with / passes
# without the change), runs ./check <ID> against the patched scratch worktree (VERIF_REPO), stores it under
# seeded/<ID>-<tag>/, and removes the scratch worktrees.
id="$1"; tag="$2"; tier="${3:-quick}"
out="/tmp/mut/out-$id-$tag"; wt="/tmp/mut/$id-$tag"; ev="/tmp/mut/eval-$id-$tag"
export GOFLAGS=-mod=mod GOPROXY=off
[ -f "$out/patch.diff" ] || { echo "no patch.diff in $out"; exit 2; }
rm -rf "$ev"; git -C /repo worktree prune; git -C /repo worktree add -q --detach "$ev" HEAD || exit 2
cd "$ev"
# demo placement: PLACEMENT notes say "<file> -> <dir>/"; copy every demo go file next to the first changed file's package by default
pkgs=$(grep '^+++ b/' "$out/patch.diff" | sed 's#^+++ b/##' | xargs -n1 dirname | sort -u)
echo "packages touched: $pkgs"
# placement of demo files: "<file> -> <dir>/" notes in demo/*.txt or meta.json; default = first touched package
python3 - "$out" "$ev" $pkgs > /tmp/mut/place-$id-$tag.txt <<'PY'
import json,sys,os,re,glob
out,ev=sys.argv[1],sys.argv[2]; pkgs=sys.argv[3:]
notes=""
for f in glob.glob(os.path.join(out,'demo','*.txt'))+glob.glob(os.path.join(out,'*.txt'))+[os.path.join(out,'meta.json')]:
    try: notes+=open(f).read()+"\n"
    except Exception: pass
for g in sorted(glob.glob(os.path.join(out,'demo','*.go'))):
    name=os.path.basename(g)
    m=re.search(re.escape(name)+r'[^\n]*?(?:->|→|into|in|to)\s+`?([\w\-./]+/)', notes)
    d=None
    if m:
        d=m.group(1).strip('`').rstrip('/')
        d=re.sub(r'^(/tmp/mut/[^/]+/|\./)','',d)
    if not d or not os.path.isdir(os.path.join(ev,d)):
        # fall back: package clause matches the last path element of a touched package
        pk=re.search(r'^package (\w+)',open(g).read(),re.M).group(1).replace('_test','')
        cands=[p for p in pkgs if os.path.basename(p)==pk] or pkgs
        d=cands[0]
    print(g,d)
PY
cat /tmp/mut/place-$id-$tag.txt | sed "s#$out/##"
demo_dirs=$(awk '{print "./"$2"/"}' /tmp/mut/place-$id-$tag.txt | sort -u | tr '\n' ' ')
while read f d; do cp "$f" "$d/"; done < /tmp/mut/place-$id-$tag.txt
run=$(ls "$out"/demo/*_test.go 2>/dev/null | xargs -r grep -ho 'func Test[A-Za-z0-9_]*' | sed 's/func //' | paste -sd'|')
echo "--- demo WITHOUT the change (must pass)"
go test -vet=off -count=1 -run "$run" $demo_dirs 2>&1 | tail -3
git apply "$out/patch.diff" || { echo "patch does not apply to HEAD"; exit 3; }
echo "--- build"; go build ./... 2>&1 | tail -3
echo "--- demo WITH the change (must fail)"
go test -vet=off -count=1 -run "$run" $demo_dirs 2>&1 | tail -5
while read f d; do rm -f "$d/$(basename $f)"; done < /tmp/mut/place-$id-$tag.txt
echo "--- existing tests of touched packages WITH the change (must pass)"
for p in $pkgs; do go test -vet=off -count=1 "./$p/" 2>&1 | tail -2; done
echo "--- ./check $id --tier $tier against the patched tree"
cd /verif && VERIF_REPO="$ev" ./check "$id" --tier "$tier" 2>&1 | grep -v '^KNOWN-FINDING' | tail -4 | cut -c1-400
