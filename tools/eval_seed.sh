#!/bin/sh
# usage: tools/eval_seed.sh <ID> <tag> [tier]
# Confirms a seeded change in a fresh scratch worktree (builds, package tests pass, demo fails with / passes
# without the change), runs ./check <ID> against the patched scratch worktree (VERIF_REPO), stores it under
# seeded/<ID>-<tag>/, and removes the scratch worktrees.
id="$1"; tag="$2"; tier="${3:-quick}"
out="/tmp/mut/out-$id-$tag"; wt="/tmp/mut/$id-$tag"; ev="/tmp/mut/eval-$id-$tag"
export GOFLAGS=-mod=mod GOPROXY=off
[ -f "$out/patch.diff" ] || { echo "no patch.diff in $out"; exit 2; }
rm -rf "$ev"; git -C /repo worktree prune; git -C /repo worktree add -q --detach "$ev" HEAD || exit 2
cd "$ev"
# demo placement: PLACEMENT notes say "<file> -> <dir>/"; copy every demo go file next to the first changed file's package by default
pkgs=$(grep '^+++ b/' "$out/patch.diff" | sed 's#^+++ b/##' | xargs -n1 dirname | sort -u)
echo "packages touched: $pkgs"
demo_pkg=$(python3 - "$out" <<'PY'
import json,sys,os,re
out=sys.argv[1]
m=json.load(open(os.path.join(out,'meta.json')))
cmd=m.get('demo_cmd','')
r=re.search(r'\./([\w/\-\.]+?)(/\.\.\.)?(\s|$)',cmd)
print(r.group(1) if r else '')
PY
)
[ -n "$demo_pkg" ] || demo_pkg=$(echo "$pkgs" | head -1)
echo "demo package: $demo_pkg"
cp "$out"/demo/*.go "$demo_pkg/" 2>/dev/null
run=$(ls "$out"/demo/*_test.go 2>/dev/null | head -1 | xargs -r grep -ho 'func Test[A-Za-z0-9_]*' | sed 's/func //' | paste -sd'|')
echo "--- demo WITHOUT the change (must pass)"
go test -vet=off -count=1 -run "$run" "./$demo_pkg/" 2>&1 | tail -3
r0=$?
git apply "$out/patch.diff" || { echo "patch does not apply to HEAD"; exit 3; }
echo "--- build"; go build ./... 2>&1 | tail -3
echo "--- demo WITH the change (must fail)"
go test -vet=off -count=1 -run "$run" "./$demo_pkg/" 2>&1 | tail -4
rm -f $(ls "$out"/demo/*.go | xargs -n1 basename | sed "s#^#$demo_pkg/#")
echo "--- existing tests of touched packages WITH the change (must pass)"
for p in $pkgs; do go test -vet=off -count=1 "./$p/" 2>&1 | tail -2; done
echo "--- ./check $id --tier $tier against the patched tree"
cd /verif && VERIF_REPO="$ev" ./check "$id" --tier "$tier" 2>&1 | grep -v '^KNOWN-FINDING' | tail -4 | cut -c1-400
