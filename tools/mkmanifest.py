#!/usr/bin/env python3
"""Regenerates MANIFEST.json from checks/props.py (claimed properties) and properties.jsonl."""
import json, os, subprocess, sys
ROOT = os.path.dirname(os.path.dirname(os.path.abspath(__file__)))
sys.path.insert(0, os.path.join(ROOT, "checks"))
import props as P

ids = [json.loads(l)["id"] for l in open(os.path.join(ROOT, "properties.jsonl"))]
hook_commits = subprocess.run(["git", "-C", "/repo", "log", "--format=%H %s"], capture_output=True, text=True).stdout.strip().split("\n")
hook_commits = [l.split()[0] for l in hook_commits if l.split(" ", 1)[1].startswith("verif:")]
checks, na = [], []
for pid in ids:
    cfg = P.PROPS.get(pid)
    if cfg is None or not cfg.get("manifest"):
        na.append({"property_id": pid, "reason": P.NOT_CLAIMED.get(pid, "not claimed at this commit: model/proof/correspondence for this property are not built yet (see DESIGN.md section 6)")})
        continue
    m = cfg["manifest"]
    checks.append({
        "property_id": pid,
        "quick_cmd": f"./check {pid} --tier quick",
        "thorough_cmd": f"./check {pid} --tier thorough",
        "evidence_file": f"/verif/evidence/{pid}.json",
        "replay_cmd_template": f"./check {pid} --replay {{path}}",
        "engine": "lean-proof+correspondence",
        "level_claimed": {"category": "proof", "text": m["text"], "design_ref": f"DESIGN.md §{pid}"},
        "level_note": m["note"],
        "technique": m.get("technique", "Lean 4 theorems over an executable model + differential correspondence check against the Go implementation"),
    })
man = {
    "version": 1,
    "setup_cmd": "./setup.sh",
    "hooks": {
        "guard": "verif",
        "enable": "go build -tags verif (the harness module /verif/harness replaces github.com/ozontech/file.d with /repo and is always built with -tags verif)",
        "baseline_off_cmd": "cd /repo && go test -mod=mod -vet=off -count=1 -timeout 25m ./...",
        "source_commits": hook_commits,
        "add_only": True,
    },
    "engines": [{
        "name": "lean-proof+correspondence", "path": "/verif/check",
        "serves_properties": [c["property_id"] for c in checks],
        "kind_free_text": "Lean 4 theorems about executable models (lean/FileD); the Go harness (harness/) runs the real code built with -tags verif and the compiled model driver (fdmodel) on the same case lines; ./check diffs them, evaluates the Spec oracle on the implementation's results and audits the proofs (#print axioms, forbidden-token scan, leanchecker in the thorough tier)",
    }],
    "checks": checks,
    "not_applicable": na,
    "notes": "Design, trusted base, known findings and seeded-change results: DESIGN.md. known_findings.jsonl lists recorded and fixed defects.",
}
json.dump(man, open(os.path.join(ROOT, "MANIFEST.json"), "w"), indent=1)
print(f"claimed {len(checks)}, not claimed {len(na)}")
