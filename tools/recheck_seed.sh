#!/bin/sh
# usage: tools/recheck_seed.sh <seed name, e.g. C01-b> <property to check> [tier]
# re-applies a kept seeded change to a fresh scratch worktree of /repo HEAD and runs ./check against it
seed="$1"; pid="$2"; tier="${3:-quick}"
wt="/tmp/mut/re-$seed"
git -C /repo worktree remove --force "$wt" 2>/dev/null
git -C /repo worktree add -q --detach "$wt" HEAD || exit 2
git -C "$wt" apply "/verif/seeded/$seed/patch.diff" || { echo "patch does not apply"; git -C /repo worktree remove --force "$wt"; exit 3; }
cd /verif && VERIF_REPO="$wt" ./check "$pid" --tier "$tier" 2>&1 | grep -v '^KNOWN-FINDING' | tail -3 | cut -c1-400
git -C /repo worktree remove --force "$wt"
