#!/bin/sh
# usage: tools/mut_setup.sh <ID> <tag> "<angle>" : scratch worktree of /repo HEAD + prompt file for an independent mutation agent
set -e
id="$1"; tag="$2"; angle="$3"
mkdir -p /tmp/mut
git -C /repo worktree add -q --detach "/tmp/mut/$id-$tag" HEAD
python3 /verif/tools/mut_prompt.py "$id" "$tag" "$angle" > "/tmp/mut/p-$id-$tag.txt"
echo "/tmp/mut/p-$id-$tag.txt"
