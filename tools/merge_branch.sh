#!/bin/sh
# merges a builder branch into main; MANIFEST.json and Props/All.lean are regenerated, not merged
set -e
cd "$(dirname "$0")/.."
b="$1"
git merge --no-edit "$b" >/dev/null 2>&1 || true
git checkout --ours MANIFEST.json lean/FileD/Props/All.lean 2>/dev/null || true
python3 tools/regen_all.py >/dev/null
python3 tools/mkmanifest.py
git add -A
if git diff --cached --quiet; then echo "nothing to commit"; else git commit -q -m "merge $b"; fi
git status --short | head
