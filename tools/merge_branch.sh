#!/bin/sh
# merges a builder branch into main; MANIFEST.json and Props/All.lean are regenerated, not merged
set -e
cd "$(dirname "$0")/.."
b="$1"
# evidence files rewritten by local runs must not block the merge
if ! git diff --quiet || ! git diff --cached --quiet; then git add -A; git commit -q -m "evidence of local runs before merging $b"; fi
git merge --no-edit "$b" >/tmp/merge_branch.log 2>&1 || true
if ! git merge-base --is-ancestor "$b" HEAD 2>/dev/null && ! git rev-parse -q --verify MERGE_HEAD >/dev/null; then echo "MERGE DID NOT HAPPEN:"; cat /tmp/merge_branch.log; exit 1; fi
git checkout --ours MANIFEST.json lean/FileD/Props/All.lean harness/go.mod 2>/dev/null || true
git checkout HEAD -- harness/go.mod 2>/dev/null || true
if git diff --name-only --diff-filter=U | grep -v 'MANIFEST.json\|All.lean\|go.mod' | grep .; then echo "UNRESOLVED CONFLICTS above - fix by hand"; exit 1; fi
python3 tools/regen_all.py >/dev/null
python3 tools/mkmanifest.py
git add -A
if git diff --cached --quiet; then echo "nothing to commit"; else git commit -q -m "merge $b"; fi
git status --short | head
